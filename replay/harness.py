"""Native replay harnesses (run under /venv/bin/python against the real
code of the tree given as argv[3]).  Each harness builds a concrete scenario
from the inputs read off a solver counter-model, runs the REAL function with
scripted stubs for the trusted externals, and compares what it observes with
an oracle written from the property sentence (not from the code).

Prints one JSON line: {"reproduced": bool, "observed": ..., "expected": ...}"""
import builtins
import contextlib
import importlib
import io
import json
import math
import os
import sys
import warnings
from unittest import mock


def _bad(x):
    return isinstance(x, dict) and "__error__" in x


# ---------------------------------------------------------------- C17
def _cpu_scenario(i):
    """Context manager patching the host configuration."""
    import loky.backend.context as ctx
    st = contextlib.ExitStack()
    os_val = None if i.get("os_none") else i.get("os", 4)
    st.enter_context(mock.patch.object(os, "cpu_count", lambda: os_val))
    if i.get("have_sched", True):
        def sga(pid):
            if i.get("sched_raises"):
                raise NotImplementedError
            return set(range(i.get("aff", 1)))
        st.enter_context(mock.patch.object(os, "sched_getaffinity", sga, create=True))
    else:
        if hasattr(os, "sched_getaffinity"):
            st.enter_context(mock.patch.object(os, "sched_getaffinity", None))
            orig_hasattr = builtins.hasattr
            st.enter_context(mock.patch.object(ctx, "hasattr", lambda o, n: False if (o is os and n == "sched_getaffinity") else orig_hasattr(o, n), create=True))
    # psutil
    if i.get("have_psutil", True):
        class P:
            pass
        if i.get("psutil_has_aff", True):
            P.cpu_affinity = lambda self: list(range(i.get("psutil_aff", 1)))
        fake = type(sys)("psutil")
        fake.Process = P
        st.enter_context(mock.patch.dict(sys.modules, {"psutil": fake}))
    else:
        st.enter_context(mock.patch.dict(sys.modules, {"psutil": None}))
    # cgroup files
    v2f = "/sys/fs/cgroup/cpu.max"
    qf = "/sys/fs/cgroup/cpu/cpu.cfs_quota_us"
    pf = "/sys/fs/cgroup/cpu/cpu.cfs_period_us"
    q_txt = "max" if i.get("q_is_max") else str(i.get("Q", -1))
    p_txt = str(i.get("P", 100000))
    files = {}
    if i.get("v2"):
        files[v2f] = f"{q_txt} {p_txt}\n"
    if i.get("v1q"):
        files[qf] = f"{q_txt}\n"
    if i.get("v1p"):
        files[pf] = f"{p_txt}\n"
    real_exists = os.path.exists
    st.enter_context(mock.patch.object(os.path, "exists", lambda p: (p in files) if p in (v2f, qf, pf) else real_exists(p)))
    real_open = builtins.open

    def fake_open(p, *a, **k):
        if p in files:
            return io.StringIO(files[p])
        return real_open(p, *a, **k)
    st.enter_context(mock.patch.object(builtins, "open", fake_open))
    env = dict(os.environ)
    env.pop("LOKY_MAX_CPU_COUNT", None)
    if i.get("env_has"):
        env["LOKY_MAX_CPU_COUNT"] = str(i.get("LK", 1))
    st.enter_context(mock.patch.dict(os.environ, env, clear=True))
    return st, os_val


def _cpu_oracle(i, os_arg=None):
    os_n = os_arg if os_arg is not None else ((None if i.get("os_none") else i.get("os", 4)) or 1)
    if i.get("have_sched", True) and not i.get("sched_raises"):
        aff = i.get("aff", 1)
    elif i.get("have_psutil", True) and i.get("psutil_has_aff", True):
        aff = i.get("psutil_aff", 1)
    else:
        aff = os_n
    has_cg = i.get("v2") or (i.get("v1q") and i.get("v1p"))
    cg = os_n
    if has_cg and not i.get("q_is_max") and i.get("Q", -1) > 0 and i.get("P", 100000) > 0:
        cg = -((-i["Q"]) // i["P"])
    lk = i.get("LK", 1) if i.get("env_has") else os_n
    return os_n, aff, cg, lk


def h_cpu_count(i):
    import loky.backend.context as ctx
    st, _ = _cpu_scenario(i)
    os_n, aff, cg, lk = _cpu_oracle(i)
    user = min(aff, cg, lk)
    logical = max(1, min(os_n, user))
    cache = i.get("cache")
    probe = i.get("probe")
    probe_raises = bool(i.get("probe_raises"))
    calls = []

    def fake_probe():
        calls.append(1)
        if probe_raises or probe is None or _bad(probe):
            raise OSError("probe failed")
        return probe
    only_phys = bool(i.get("only_physical"))
    if not only_phys or user < os_n:
        exp, exp_warn = logical, 0
    elif isinstance(cache, int):
        exp, exp_warn = cache, 0
    elif cache == "not found":
        exp, exp_warn = logical, 0
    elif not probe_raises and isinstance(probe, int) and probe >= 1:
        exp, exp_warn = probe, 0
    else:
        exp, exp_warn = logical, 1
    with st, mock.patch.object(ctx, "_count_physical_cores_linux", fake_probe), \
            mock.patch.object(ctx, "physical_cores_cache", cache), \
            warnings.catch_warnings(record=True) as w, \
            mock.patch("traceback.print_tb", lambda *a, **k: None):
        warnings.simplefilter("always")
        try:
            got = ctx.cpu_count(only_physical_cores=only_phys)
        except BaseException as e:
            got = f"raised {type(e).__name__}: {e}"
        n_warn = len([x for x in w if "physical cores" in str(x.message)])
    return {"reproduced": got != exp or n_warn != exp_warn,
            "observed": {"result": got, "physical_core_warnings": n_warn},
            "expected": {"result": exp, "physical_core_warnings": exp_warn},
            "oracle": "max(1, min(os, affinity, ceil(quota/period), override)) / physical-core clause of C17"}


def _h_sub(i, fname, pick):
    import loky.backend.context as ctx
    st, _ = _cpu_scenario(i)
    os_arg = i.get("os_arg", 4)
    os_n, aff, cg, lk = _cpu_oracle(i, os_arg)
    exp = pick(os_n, aff, cg, lk)
    with st, warnings.catch_warnings(record=True):
        warnings.simplefilter("always")
        try:
            got = getattr(ctx, fname)(os_arg)
        except BaseException as e:
            got = f"raised {type(e).__name__}: {e}"
    return {"reproduced": got != exp, "observed": got, "expected": exp}


def h_cpu_count_cgroup(i):
    return _h_sub(i, "_cpu_count_cgroup", lambda o, a, c, l: c)


def h_cpu_count_affinity(i):
    return _h_sub(i, "_cpu_count_affinity", lambda o, a, c, l: a)


def h_cpu_count_user(i):
    return _h_sub(i, "_cpu_count_user", lambda o, a, c, l: min(a, c, l))


# ---------------------------------------------------------------- C19
def h_check_max_depth(i):
    import loky.process_executor as pe

    class Ctx:
        def get_start_method(self):
            return i.get("method", "loky")
    d, m = i.get("depth", 0), i.get("max_depth", 10)
    ok = not (i.get("method") == "fork" and d > 0) and (m <= 0 or d < m)
    with mock.patch.object(pe, "_CURRENT_DEPTH", d), mock.patch.object(pe, "MAX_DEPTH", m):
        try:
            pe._check_max_depth(Ctx())
            got = "accepted"
        except pe.LokyRecursionError:
            got = "LokyRecursionError"
        except BaseException as e:
            got = f"raised {type(e).__name__}"
    exp = "accepted" if ok else "LokyRecursionError"
    return {"reproduced": got != exp, "observed": got, "expected": exp}


# ---------------------------------------------------------------- worker (C04, C07, C18, C19)
class _Lock:
    def __init__(self, ok=True):
        self.ok = ok
        self.events = []

    def acquire(self, *a, **k):
        self.events.append("acquire")
        return self.ok

    def release(self):
        self.events.append("release")

    def __enter__(self):
        return self.acquire()

    def __exit__(self, *a):
        self.release()


def h_worker_depth(i):
    """C19: the depth seen by the initializer must be the shipped depth."""
    import loky.process_executor as pe
    seen = {}

    def init():
        seen["initializer"] = pe._CURRENT_DEPTH

    class CQ:
        def get(self, block=True, timeout=None):
            return None

    class RQ:
        def put(self, x):
            pass
    depth = i.get("current_depth", 3)
    if not isinstance(depth, int) or depth < 1:
        depth = 3
    with mock.patch.object(pe, "_CURRENT_DEPTH", 0), mock.patch.object(pe, "_python_exit", lambda: None):
        pe._process_worker(CQ(), RQ(), init, (), _Lock(), None, _Lock(), depth)
    return {"reproduced": seen.get("initializer") != depth,
            "observed": {"depth_seen_by_initializer": seen.get("initializer")}, "expected": {"depth_seen_by_initializer": depth}}


def h_worker_task_failure(i):
    """C04: a task whose exception cannot be sent must not take the worker down."""
    import pickle
    import loky.process_executor as pe

    class Boom(Exception):
        pass

    def task():
        raise Boom("task failed")
    item = pe._CallItem(7, task, (), {})
    gets = [item, None]

    class CQ:
        def get(self, block=True, timeout=None):
            return gets.pop(0)
    sent = []

    class RQ:
        def __init__(self):
            self.first = True

        def put(self, x):
            # the task's exception object is not picklable: the first attempt to send it fails
            exc = getattr(x, "exception", None)
            if isinstance(exc, pe._ExceptionWithTraceback) and isinstance(exc.exc, Boom):
                raise pickle.PicklingError("cannot pickle Boom")
            sent.append(x)
    died = None
    with mock.patch.object(pe, "_python_exit", lambda: None), mock.patch.object(pe, "_USE_PSUTIL", False):
        try:
            pe._process_worker(CQ(), RQ(), None, (), _Lock(), None, _Lock(), 1)
        except BaseException as e:
            died = f"{type(e).__name__}: {e}"
    answers = [x for x in sent if isinstance(x, pe._ResultItem) and x.work_id == 7]
    return {"reproduced": died is not None or len(answers) != 1,
            "observed": {"worker_died_with": died, "answers_for_task_7": len(answers)},
            "expected": {"worker_died_with": None, "answers_for_task_7": 1}}


# ---------------------------------------------------------------- C11: the tracker's step
def _clean(s_, default):
    if not isinstance(s_, str):
        return default
    s_ = "".join(ch for ch in s_ if 32 < ord(ch) < 127 and ch != ":")
    return s_ or default


def h_tracker_step(i):
    """The request read off the counter-model, then (the model of an abstracted VC does not fix the name) the same
    request with names containing ':'; reproduced as soon as one of them violates the reference step."""
    if i.get("__enumerate__"):
        # no model (the solver could not decide): a small native search over requests
        tried = []
        for cmd in ("REGISTER", "UNREGISTER", "MAYBE_UNLINK", "PROBE", "BOGUS"):
            for nm in ("plain", "a:b", "dir:x:1"):
                for pre in (0, 1, 2):
                    for rt_ in ("file", "folder", "nosuchtype"):
                        for cf in ((False, True) if (cmd == "MAYBE_UNLINK" and pre == 1 and rt_ != "nosuchtype") else (False,)):
                            r = _tracker_step_once({"nfields": 3, "cmd": cmd, "rtype": rt_, "name": nm, "pre_count": pre, "cleanup_fails": cf})
                            tried.append(r.get("line"))
                            if r.get("reproduced"):
                                r["search"] = f"{len(tried)} requests tried"
                                r["cleanup_fails"] = cf
                                return r
        return {"reproduced": False, "search": f"{len(tried)} requests tried, none violates the reference step"}
    tried = []
    for nm in (i.get("name"), "a:b", "dir:x:1"):
        for cf in (False, True):
            j = dict(i)
            j["name"] = nm
            j["cleanup_fails"] = cf
            if nm is not i.get("name"):
                j["nfields"] = max(3, i.get("nfields", 3) if isinstance(i.get("nfields"), int) else 3)
            r = _tracker_step_once(j)
            tried.append(r.get("line"))
            if r.get("reproduced"):
                r["tried"] = tried
                r["cleanup_fails"] = cf
                return r
    r["tried"] = tried
    return r


def _tracker_step_once(i):
    """Feed REGISTER x pre_count lines and then the offending request to the REAL main() (in a subprocess, cleanup
    functions replaced by recorders) and compare with the reference step of the property."""
    import subprocess
    import textwrap
    nfields = i.get("nfields", 3)
    if not isinstance(nfields, int) or nfields < 1:
        nfields = 3
    cmd = _clean(i.get("cmd"), "REGISTER")
    rtype = _clean(i.get("rtype"), "file")
    name = i.get("name") if isinstance(i.get("name"), str) else "n"
    name = "".join(ch for ch in name if 32 < ord(ch) < 127) or "n"
    if nfields == 1:
        line, name_seen = cmd, None
    elif nfields == 2:
        line, name_seen = f"{cmd}:{rtype}", ""
    else:
        if nfields > 3 and ":" not in name:
            name = name + ":x"
        line, name_seen = f"{cmd}:{name}:{rtype}", name
    pre = i.get("pre_count", 0)
    if not isinstance(pre, int) or pre < 0 or pre > 5:
        pre = 1
    known = rtype in ("folder", "file", "semlock")
    setup = [f"REGISTER:{name_seen}:{rtype}"] * pre if (known and name_seen is not None and nfields >= 3) else []
    # reference step
    valid3 = nfields >= 3
    exp_report, exp_cleanup, exp_count = 1, [], (pre if setup else 0)
    if valid3 and cmd == "PROBE":
        exp_report = 0
    elif valid3 and known and cmd == "REGISTER":
        exp_report, exp_count = 0, exp_count + 1
    elif valid3 and known and cmd == "UNREGISTER" and exp_count > 0:
        exp_report, exp_count = 0, 0
    elif valid3 and known and cmd == "MAYBE_UNLINK" and exp_count > 0:
        exp_report = 0
        exp_count -= 1
        if exp_count == 0:
            exp_cleanup = [[rtype, name_seen]]
    prog = textwrap.dedent("""\
        import os, sys, json
        sys.path.insert(0, %r)
        import loky.backend.resource_tracker as rt
        calls = []
        fails = %r
        def mk(t):
            def rec(n):
                calls.append([t, n])
                if fails:
                    raise OSError("cleanup failed (injected)")
            return rec
        for t in list(rt._CLEANUP_FUNCS):
            rt._CLEANUP_FUNCS[t] = mk(t)
        reports = []
        sys.excepthook = lambda *a: reports.append(a[0].__name__)
        import warnings; warnings.simplefilter("ignore")
        r, w = os.pipe()
        lines = %r
        os.write(w, (chr(10).join(lines) + chr(10)).encode("ascii"))
        mark = len(lines) - 1
        os.close(w)
        out_fd = os.dup(1)        # main() closes sys.stdout
        rt.main(r)
        os.write(out_fd, (json.dumps({"calls": calls, "reports": reports}) + chr(10)).encode())
    """) % (sys.argv[3] if len(sys.argv) > 3 else "/repo", bool(i.get("cleanup_fails")), setup + [line])
    p = subprocess.run([sys.executable, "-c", prog], capture_output=True, text=True, timeout=60)
    try:
        obs = json.loads([l for l in p.stdout.splitlines() if l.startswith("{")][-1])
    except Exception:
        return {"reproduced": False, "error": (p.stderr or p.stdout)[-600:]}
    # everything still counted is destroyed at end of life: separate the step's cleanup from the sweep
    step_calls = obs["calls"]
    leftover = [[rtype, name_seen]] * (1 if exp_count > 0 else 0)
    expected_calls = exp_cleanup + leftover
    ok = (len(obs["reports"]) == exp_report) and (sorted(map(tuple, step_calls)) == sorted(map(tuple, expected_calls)))
    return {"reproduced": not ok, "line": line, "setup": setup,
            "observed": {"reported": len(obs["reports"]), "cleanups_incl_final_sweep": step_calls},
            "expected": {"reported": exp_report, "cleanups_incl_final_sweep": expected_calls}}


# ---------------------------------------------------------------- C16
def h_class_wrapper_callable(i):
    """An instance built through a wrapped class must be callable iff its object is."""
    from loky.cloudpickle_wrapper import wrap_non_picklable_objects

    class WithCall:
        def __init__(self, k):
            self.k = k

        def __call__(self, x):
            return self.k + x

    class Plain:
        def __init__(self, k):
            self.k = k
    obs = {}
    for cls in (WithCall, Plain):
        W = wrap_non_picklable_objects(cls, keep_wrapper=bool(i.get("keep_wrapper", True)))
        w = W(3)
        obs[cls.__name__] = {"callable(wrapper instance)": callable(w), "callable(its object)": callable(w._obj)}
    bad = [k for k, v in obs.items() if v["callable(wrapper instance)"] != v["callable(its object)"]]
    return {"reproduced": bool(bad), "observed": obs, "expected": "callable(wrapper instance) == callable(its object) for both classes"}


# ---------------------------------------------------------------- C04: the feeder thread
def h_feeder_swallows(i):
    """Run the REAL Queue._feed on a buffer holding one object whose pickling raises IndexError: the error must reach
    the error callback (with the slot released), not vanish."""
    import collections
    import threading
    import loky.backend.queues as q

    epipe = i.get("exc") == "EPIPE"

    class Bad:
        def __reduce__(self):
            if epipe:
                import errno
                raise BrokenPipeError(errno.EPIPE, "Broken pipe (raised while pickling the object, not by the send)")
            raise IndexError("boom while pickling")
    from multiprocessing.queues import _sentinel
    buf = collections.deque([Bad(), _sentinel])      # the sentinel ends the thread function right after the faulty object
    calls, sem = [], []

    class Cond:
        def acquire(self):
            pass

        def release(self):
            pass

        def wait(self):
            raise RuntimeError("harness: the buffer should never be found empty")

    class Sem:
        def release(self):
            sem.append(1)

    def onerror(e, obj):
        calls.append((type(e).__name__, type(obj).__name__))
        if len(calls) > 3:
            raise SystemExit
    import threading as _t
    th = _t.Thread(target=q.Queue._feed, args=(buf, Cond(), lambda b: None, _t.Lock(), lambda: None, None, epipe, onerror, Sem()), daemon=True)
    th.start()
    th.join(10)
    want = "BrokenPipeError" if epipe else "IndexError"
    obs = {"error_callback_calls_for_the_object": [c for c in calls if c[1] == "Bad"], "slots_released": len(sem), "ignore_epipe": epipe}
    ok = obs["error_callback_calls_for_the_object"] == [(want, "Bad")]
    return {"reproduced": not ok, "observed": obs,
            "expected": {"error_callback_calls_for_the_object": [[want, "Bad"]]}}


# ---------------------------------------------------------------- C20 / C18: launching a process must not leak descriptors
def h_launch_fd_balance(i):
    import gc
    import loky.backend.popen_loky_posix as pp
    import loky.backend.fork_exec as fe
    from loky.backend.process import LokyProcess

    def nfds():
        gc.collect()
        return len(os.listdir("/proc/self/fd"))
    mode = "fork_exec_fails"
    if i.get("first_pipe_fails"):
        mode = "first_pipe_fails"
    elif i.get("second_pipe_fails"):
        mode = "second_pipe_fails"
    real_pipe = os.pipe
    calls = {"n": 0}

    def failing_pipe():
        calls["n"] += 1
        if (mode == "first_pipe_fails" and calls["n"] == 1) or (mode == "second_pipe_fails" and calls["n"] == 2):
            raise OSError(24, "Too many open files")
        return real_pipe()

    def failing_fork_exec(*a, **k):
        raise OSError(11, "Resource temporarily unavailable")
    # warm up everything that legitimately opens descriptors once (trackers)
    try:
        with mock.patch.object(fe, "fork_exec", failing_fork_exec):
            pp.Popen(LokyProcess(target=print))
    except OSError:
        pass
    before = nfds()
    errors = []
    for _ in range(5):
        try:
            with mock.patch.object(fe, "fork_exec", failing_fork_exec), mock.patch.object(os, "pipe", failing_pipe):
                calls["n"] = 0
                pp.Popen(LokyProcess(target=print))
        except BaseException as e:
            errors.append("OSError" if isinstance(e, OSError) else type(e).__name__)
    after = nfds()
    ok = after == before and all(e == "OSError" for e in errors)
    return {"reproduced": not ok, "mode": mode, "observed": {"open_descriptors_before": before, "after_5_failed_launches": after, "errors": errors},
            "expected": {"after_5_failed_launches": before, "errors": ["OSError"] * 5}}


def h_cancelled_pending_future(i):
    """F8: the real terminate_broken / flag_executor_shutting_down on a manager whose pending table holds a future its owner has
    cancelled (real Future objects, real method bodies; only kill_workers / join_executor_internals are recorded instead of run)."""
    import threading
    from loky import process_executor as pe
    from loky._base import Future
    mode = i.get("mode", "terminate_broken")
    m = object.__new__(pe._ExecutorManagerThread)
    m.executor_flags = pe._ExecutorFlags(threading.Lock())
    m.executor_flags.kill_workers = True
    m.pending_work_items = {k: pe._WorkItem(Future(), print, (), {}) for k in range(5)}
    m.running_work_items = []
    m.processes = {}
    calls = []
    m.kill_workers = lambda *a, **k: calls.append("kill_workers")
    m.join_executor_internals = lambda *a, **k: calls.append("join_executor_internals")
    futs = [w.future for w in m.pending_work_items.values()]
    cancelled = futs[1].cancel()
    escaped = None
    try:
        if mode == "terminate_broken":
            m.terminate_broken(pe.BrokenProcessPool("worker died"))
        else:
            m.flag_executor_shutting_down()
    except BaseException as e:
        escaped = type(e).__name__
    unresolved = [k for k, f in enumerate(futs) if not f.done()]
    ok = escaped is None and not unresolved and (mode != "terminate_broken" or calls == ["kill_workers", "join_executor_internals"])
    return {"reproduced": not ok, "mode": mode,
            "observed": {"cancelled_by_owner": [1] if cancelled else [], "escaped": escaped, "unresolved_futures": unresolved, "calls": calls,
                         "still_pending_in_table": len(m.pending_work_items)},
            "expected": {"escaped": None, "unresolved_futures": [], "still_pending_in_table": 0}}


def h_resize_worker_leaves(i):
    """C10 termination clause: a worker dies (mode 'dies') right after the top-up of a resize, before the liveness poll; the real
    get_reusable_executor(max_workers=2) must still return (or raise) within the bound instead of polling for ever."""
    import threading
    import signal
    import time
    from loky import reusable_executor as rx
    bound = float(i.get("bound", 20))
    ex = rx.get_reusable_executor(max_workers=1, timeout=100)
    ex.submit(int, 0).result()
    orig = ex._adjust_process_count

    def adjust_then_lose_a_worker():
        orig()
        p = list(ex._processes.values())[-1]
        os.kill(p.pid, signal.SIGKILL)
        p.join()

    ex._adjust_process_count = adjust_then_lose_a_worker
    # the manager thread notices the death a little later than the resizing thread takes its snapshot (schedule made deterministic)
    mt = ex._executor_manager_thread
    orig_tb = mt.terminate_broken

    def late_terminate_broken(bpe):
        time.sleep(float(i.get("manager_delay", 1.0)))
        orig_tb(bpe)

    mt.terminate_broken = late_terminate_broken
    out = {}

    def call():
        try:
            rx.get_reusable_executor(max_workers=2, timeout=100)
            out["outcome"] = "returned"
        except BaseException as e:
            out["outcome"] = f"raised {type(e).__name__}"

    t0 = time.time()
    t = threading.Thread(target=call, daemon=True)
    t.start()
    t.join(bound)
    hung = t.is_alive()
    res = {"reproduced": hung, "mode": i.get("mode", "dies"),
           "observed": {"call": "still polling after %.0fs" % bound if hung else out.get("outcome"), "seconds": round(time.time() - t0, 2)},
           "expected": {"call": "returns or raises within the bound"}, "_hard_exit": True}
    for p in list((ex._processes or {}).values()):
        try:
            p.kill()
        except Exception:
            pass
    return res


def h_unwatched_new_worker(i):
    """F10: all workers of a pool have timed out; a submit() spawns a new worker which dies at start-up, after the manager thread (woken
    by submit *before* the spawn) went back to waiting on the sentinels it knew. The real submit()/manager must still resolve the future."""
    import signal
    import time
    from loky.process_executor import ProcessPoolExecutor
    bound = float(i.get("bound", 10))
    ex = ProcessPoolExecutor(max_workers=1, timeout=0.5)
    ex.submit(int, 0).result()
    t0 = time.time()
    while ex._processes and time.time() - t0 < 30:
        time.sleep(0.05)
    orig = ex._adjust_process_count

    def adjust_then_lose_the_worker():
        time.sleep(0.3)      # schedule made deterministic: the manager thread is back in its wait before the worker exists
        orig()
        p = list(ex._processes.values())[-1]
        os.kill(p.pid, signal.SIGKILL)
        p.join()

    ex._adjust_process_count = adjust_then_lose_the_worker
    outcome = None
    try:
        f = ex.submit(int, 1)
        try:
            outcome = "result %r" % (f.result(timeout=bound),)
        except BaseException as e:
            outcome = type(e).__name__
    except BaseException as e:
        outcome = "submit raised " + type(e).__name__
    hung = outcome == "TimeoutError"
    return {"reproduced": hung, "observed": {"future": "unresolved after %.0fs" % bound if hung else outcome, "idle_workers_had_left": not t0 is None},
            "expected": {"future": "fails with TerminatedWorkerError (the death is detected)"}, "_hard_exit": True}


def h_batch(i):
    """Run one harness on a list of inputs (thorough tier: native cross-check of a contract's oracle against the real function)."""
    fn = globals().get("h_" + i["harness"])
    out = []
    for case in i["cases"]:
        try:
            out.append(fn(case))
        except BaseException as e:
            out.append({"reproduced": False, "error": f"harness crashed: {e!r}"})
    return {"reproduced": any(r.get("reproduced") for r in out), "results": out}


def h_tracker_sweep_w_error(i):
    """F5: the real tracker main() run the way loky starts it when the parent runs with -W error (flags are forwarded): two names are still
    registered at end of file and their clean-up fails; every one of them must still be attempted."""
    import subprocess
    import textwrap
    prog = textwrap.dedent("""\
        import os, sys, json
        sys.path.insert(0, %r)
        import loky.backend.resource_tracker as rt
        calls = []
        def failing(n):
            calls.append(n)
            raise OSError("cleanup failed (injected)")
        for t in list(rt._CLEANUP_FUNCS):
            rt._CLEANUP_FUNCS[t] = failing
        sys.excepthook = lambda *a: None
        r, w = os.pipe()
        os.write(w, b"REGISTER:a:file" + bytes([10]) + b"REGISTER:b:file" + bytes([10]) + b"REGISTER:c:semlock" + bytes([10]))
        os.close(w)
        out_fd = os.dup(1)
        err = None
        try:
            rt.main(r)
        except BaseException as e:
            err = type(e).__name__
        os.write(out_fd, (json.dumps({"calls": calls, "escaped": err}) + chr(10)).encode())
    """) % (sys.argv[3] if len(sys.argv) > 3 else "/repo",)
    p = subprocess.run([sys.executable, "-W", "error", "-c", prog], capture_output=True, text=True, timeout=60)
    try:
        obs = json.loads([l for l in p.stdout.splitlines() if l.startswith("{")][-1])
    except Exception:
        return {"reproduced": False, "error": (p.stderr or p.stdout)[-600:]}
    ok = sorted(obs["calls"]) == ["a", "b", "c"] and obs["escaped"] is None
    return {"reproduced": not ok, "observed": obs, "expected": {"calls": ["a", "b", "c"], "escaped": None}}


_F11_PROG = 'import os, sys, time, tempfile\nos.environ["LOKY_MAX_CPU_COUNT"] = "1"\nsys.path.insert(0, "/repo")\nfrom loky import get_reusable_executor\nN = 6\nd = tempfile.mkdtemp(prefix="f11-", dir=os.environ.get("F11_DIR"))\ndef task(i, d, n, wait):\n    import os, time\n    open(os.path.join(d, f"started-{i}"), "w").close()\n    t0 = time.time()\n    while time.time() - t0 < wait:\n        if len([f for f in os.listdir(d) if f.startswith("started-")]) >= n:\n            return True\n        time.sleep(0.05)\n    return False\nif __name__ == "__main__":\n    if os.environ.get("F11_MODE") == "resize":\n        get_reusable_executor(max_workers=1, timeout=30).submit(int, 0).result()\n    ex = get_reusable_executor(max_workers=N, timeout=30)\n    futs = [ex.submit(task, i, d, N, 8) for i in range(N)]\n    time.sleep(4)\n    started = len([f for f in os.listdir(d) if f.startswith("started-")])\n    print("call queue capacity:", ex._call_queue._maxsize, "max_workers:", ex._max_workers, "workers:", len(ex._processes))\n    print("tasks running simultaneously after 4s:", started, "of", N)\n    res = [f.result() for f in futs]\n    print("each task saw all running:", res)\n    ok = started == N and all(res)\n    print("PASS" if ok else "FAIL")\n    ex.shutdown(kill_workers=True)\n    os._exit(0 if ok else 1)\n'


def h_queue_capacity_starvation(i):
    """F11: a reusable executor on a host where cpu_count() is 1 (LOKY_MAX_CPU_COUNT=1, e.g. a one-CPU container) asked for 6 workers: its call queue
    holds 2*cpu_count()+1 = 3 items; a burst of 6 long tasks submitted right after creation must still run 6 at a time."""
    import subprocess
    import tempfile
    repo = sys.argv[3] if len(sys.argv) > 3 else "/repo"
    with tempfile.TemporaryDirectory(prefix="f11-") as td:
        path = os.path.join(td, "prog.py")
        with open(path, "w") as fh:
            fh.write(_F11_PROG.replace('"/repo"', repr(repo)))
        out = os.path.join(td, "out.txt")
        with open(out, "w") as fo:
            try:
                subprocess.run([sys.executable, path], stdout=fo, stderr=subprocess.DEVNULL, stdin=subprocess.DEVNULL, timeout=100, start_new_session=True,
                               env={**os.environ, "F11_MODE": str(i.get("mode", "create")), "F11_DIR": td})
            except subprocess.TimeoutExpired:
                pass
        lines = [l for l in open(out, errors="replace").read().splitlines() if l and "leaked" not in l]
    failed = any(l.startswith("FAIL") for l in lines)
    return {"reproduced": failed, "observed": lines[-4:], "expected": "6 of 6 tasks running simultaneously (max_workers=6, enough pending work)"}


_F12_PROG = 'import os, sys, time, threading, glob\nsys.path.insert(0, "/repo")\nfrom loky.process_executor import ProcessPoolExecutor\ndef counts():\n    return {"threads": threading.active_count(), "fds": len(os.listdir("/proc/self/fd")), "sems": len(glob.glob(f"/dev/shm/sem.loky-{os.getpid()}-*"))}\ndef lifecycle():\n    ex = ProcessPoolExecutor(max_workers=1)\n    ex.submit(int, 0).result()\n    f1 = ex.submit(time.sleep, 100)\n    time.sleep(0.3)\n    f2 = ex.submit(len, b"x" * (8 * 1024 * 1024))\n    time.sleep(0.5)\n    ex.shutdown(wait=True, kill_workers=True)\n    del ex, f1, f2\nif __name__ == "__main__":\n    lifecycle(); import gc; gc.collect(); time.sleep(1)\n    c0 = counts(); print("after 1:", c0)\n    for _ in range(3):\n        lifecycle(); gc.collect(); time.sleep(1)\n    c1 = counts(); print("after 4:", c1)\n    print("threads:", [t.name for t in threading.enumerate()])\n    ok = c1 == c0\n    print("PASS" if ok else "FAIL: resources accumulate")\n    os._exit(0 if ok else 1)\n'


def h_feeder_left_behind(i):
    """F12: four lifecycles shutdown(kill_workers=True) while the feeder thread is blocked sending an 8 MB task to the only, busy worker: threads, descriptors and
    named semaphores of the parent must be the same after the fourth lifecycle as after the first."""
    import subprocess
    import tempfile
    repo = sys.argv[3] if len(sys.argv) > 3 else "/repo"
    with tempfile.TemporaryDirectory(prefix="f12-") as td:
        path = os.path.join(td, "prog.py")
        with open(path, "w") as fh:
            fh.write(_F12_PROG.replace('"/repo"', repr(repo)))
        out = os.path.join(td, "out.txt")
        with open(out, "w") as fo:
            try:
                subprocess.run([sys.executable, path], stdout=fo, stderr=subprocess.DEVNULL, stdin=subprocess.DEVNULL, timeout=150, start_new_session=True)
            except subprocess.TimeoutExpired:
                pass
        lines = [l for l in open(out, errors="replace").read().splitlines() if l and "leaked" not in l]
    failed = any(l.startswith("FAIL") for l in lines) or not any(l.startswith("PASS") for l in lines)
    return {"reproduced": failed, "observed": lines[-4:], "expected": "the same numbers of threads, descriptors and semaphores after 1 and after 4 killed lifecycles"}


_F13_PROG = 'import os, sys, time, threading, warnings\nsys.path.insert(0, "/repo")\nwarnings.simplefilter("ignore")\nfrom loky.process_executor import ProcessPoolExecutor\ndef init():\n    import loky.process_executor as pe\n    pe._MAX_MEMORY_LEAK_SIZE = 0          # every memory check finds a "leak": the worker leaves cleanly after announcing its pid\n    pe._MEMORY_LEAK_CHECK_DELAY = 0.2\ndef work(i):\n    import time\n    x = [0] * 200000\n    time.sleep(0.4)\n    return i\nif __name__ == "__main__":\n    errs = []\n    threading.excepthook = lambda a: errs.append((a.thread.name, a.exc_type.__name__, str(a.exc_value)[:80]))\n    ex = ProcessPoolExecutor(max_workers=1, initializer=init)\n    futs = [ex.submit(work, i) for i in range(12)]\n    mode = sys.argv[1] if len(sys.argv) > 1 else "nowait"\n    if mode == "nowait":\n        ex.shutdown(wait=False)           # the executor object stays referenced by `ex`\n    res = []\n    for f in futs:\n        try:\n            res.append(f.result(timeout=6))\n        except Exception as e:\n            res.append(type(e).__name__)\n    print("results:", res)\n    print("manager thread errors:", errs)\n    ok = res == list(range(12)) and not errs\n    print("PASS" if ok else "FAIL")\n    os._exit(0 if ok else 1)\n'


def h_respawn_after_shutdown_nowait(i):
    """F13: 12 tasks on a one-worker pool whose workers leave cleanly after every memory check (the memory-leak guard, same exit as an idle time-out);
    shutdown(wait=False) is called right after the submissions and the executor stays referenced: every task must still complete."""
    import subprocess
    import tempfile
    repo = sys.argv[3] if len(sys.argv) > 3 else "/repo"
    with tempfile.TemporaryDirectory(prefix="f13-") as td:
        path = os.path.join(td, "prog.py")
        with open(path, "w") as fh:
            fh.write(_F13_PROG.replace('"/repo"', repr(repo)))
        out = os.path.join(td, "out.txt")
        with open(out, "w") as fo:
            try:
                subprocess.run([sys.executable, path, "nowait"], stdout=fo, stderr=subprocess.DEVNULL, stdin=subprocess.DEVNULL, timeout=170, start_new_session=True)
            except subprocess.TimeoutExpired:
                pass
        lines = [l for l in open(out, errors="replace").read().splitlines() if l and "leaked" not in l]
    failed = any(l.startswith("FAIL") for l in lines) or not any(l.startswith("PASS") for l in lines)
    return {"reproduced": failed, "observed": [l[:300] for l in lines[-3:]], "expected": "results 0..11 and no exception in the manager thread"}


def h_live_table_iteration(i):
    """F16: the real _adjust_process_count on an executor whose worker table is full (nothing to spawn: only its final debug message runs) while another
    thread adds and removes an entry of that table, as the manager thread does when a worker leaves: no RuntimeError may escape."""
    import threading
    import types
    from loky.process_executor import ProcessPoolExecutor
    ex = ProcessPoolExecutor(max_workers=2)
    n = int(i.get("entries", 20000))
    for k in range(n):
        ex._processes[-k - 2] = types.SimpleNamespace(name="w")
    ex._max_workers = n
    stop = threading.Event()

    def churn():
        dummy = types.SimpleNamespace(name="w")
        present = False
        while not stop.is_set():
            # one change of the table per loop iteration (a thread switch can only happen between iterations): like the manager thread popping a worker
            if present:
                del ex._processes[-1]
            else:
                ex._processes[-1] = dummy
            present = not present

    t = threading.Thread(target=churn, daemon=True)
    t.start()
    errors = []
    try:
        import time
        t0 = time.time()
        while time.time() - t0 < float(i.get("seconds", 25)):
            try:
                ex._adjust_process_count()
            except RuntimeError as e:
                errors.append(str(e))
                break
    finally:
        stop.set()
        t.join(5)
        ex._processes.clear()
    return {"reproduced": bool(errors), "observed": {"errors": errors[:1]}, "expected": {"errors": []}}


def h_falsy_exception(i):
    """F14: the real process_result_item fed a result item whose exception object is falsy (an exception class that is also a container, empty):
    the future must fail with that exception, not resolve with the value None."""
    import threading
    from loky import process_executor as pe
    from loky._base import Future

    class Errors(Exception):
        """an exception carrying a collection of problems (empty here): it defines __len__, so bool(Errors()) is False"""

        def __init__(self, problems=()):
            super().__init__(*problems)
            self.problems = list(problems)

        def __len__(self):
            return len(self.problems)

    m = object.__new__(pe._ExecutorManagerThread)
    fut = Future()
    fut.set_running_or_notify_cancel()
    m.pending_work_items = {7: pe._WorkItem(fut, print, (), {})}
    m.running_work_items = [7]
    exc = Errors()
    m.process_result_item(pe._ResultItem(7, exception=exc))
    got_exc = fut.exception(timeout=1) if fut.done() else "future not done"
    ok = got_exc is exc
    return {"reproduced": not ok, "observed": {"future_exception": repr(got_exc), "future_result": repr(fut.result()) if fut.done() and fut.exception() is None else None},
            "expected": {"future_exception": repr(exc)}}


_F17_PROG = 'import os, sys, time, threading\nsys.path.insert(0, "/repo")\nfrom loky.process_executor import ProcessPoolExecutor\nif __name__ == "__main__":\n    ex = ProcessPoolExecutor(max_workers=1)\n    pid = ex.submit(os.getpid).result()\n    f = ex.submit(time.sleep, 20)\n    time.sleep(0.5)\n    mt = ex._executor_manager_thread\n    ex.shutdown(wait=False)\n    time.sleep(0.5)\n    t0 = time.time()\n    ex.shutdown(wait=True, kill_workers=True)\n    dt = time.time() - t0\n    def alive(p):\n        try:\n            os.kill(p, 0); return open(f"/proc/{p}/stat").read().split()[2] != "Z"\n        except OSError:\n            return False\n    time.sleep(0.5)\n    print("second shutdown(wait=True, kill_workers=True) took %.2fs; worker alive: %s; manager thread alive: %s; future done: %s" % (dt, alive(pid), mt.is_alive(), f.done()))\n    ok = not alive(pid) and not mt.is_alive() and f.done()\n    print("PASS" if ok else "FAIL: the forced shutdown neither woke nor joined the manager thread: the worker keeps running its task")\n    if alive(pid): os.kill(pid, 9)\n    os._exit(0 if ok else 1)\n'


def h_second_shutdown_after_nowait(i):
    """F17: shutdown(wait=False) while a 20 s task runs, then shutdown(wait=True, kill_workers=True): the second call must wake the manager thread, kill the
    worker and join the thread."""
    import subprocess
    import tempfile
    repo = sys.argv[3] if len(sys.argv) > 3 else "/repo"
    with tempfile.TemporaryDirectory(prefix="f17-") as td:
        path = os.path.join(td, "prog.py")
        with open(path, "w") as fh:
            fh.write(_F17_PROG.replace('"/repo"', repr(repo)))
        out = os.path.join(td, "out.txt")
        with open(out, "w") as fo:
            try:
                subprocess.run([sys.executable, path], stdout=fo, stderr=subprocess.DEVNULL, stdin=subprocess.DEVNULL, timeout=90, start_new_session=True)
            except subprocess.TimeoutExpired:
                pass
        lines = [l for l in open(out, errors="replace").read().splitlines() if l and "leaked" not in l]
    failed = any(l.startswith("FAIL") for l in lines) or not any(l.startswith("PASS") for l in lines)
    return {"reproduced": failed, "observed": [l[:300] for l in lines[-2:]], "expected": "worker killed, manager thread joined, future resolved"}


_F20_PROG = 'import os, sys, time, threading\nsys.path.insert(0, "/repo")\nfrom loky.process_executor import ProcessPoolExecutor, _ExecutorFlags, ShutdownExecutorError\nif __name__ == "__main__":\n    # the counterexample of the obligation, on the real function\n    fl = _ExecutorFlags(threading.Lock())\n    fl.flag_as_shutting_down(True)\n    fl.flag_as_shutting_down(False)\n    unit_ok = fl.kill_workers is True\n    print("flags after flag_as_shutting_down(True); flag_as_shutting_down(False): kill_workers =", fl.kill_workers)\n    # the same history through the public interface: a forced shutdown that does not wait, then the plain shutdown(wait=True) of a with-block\n    t0 = time.time()\n    with ProcessPoolExecutor(max_workers=2) as ex:\n        f = ex.submit(time.sleep, 25)\n        while not f.running():\n            time.sleep(0.01)\n        time.sleep(0.3)\n        t0 = time.time()\n        ex.shutdown(wait=False, kill_workers=True)\n    dt = time.time() - t0\n    try:\n        e = f.exception(timeout=1)\n    except Exception as x:\n        e = x\n    print("with-block left after %.1fs, future:" % dt, type(e).__name__)\n    ok = unit_ok and dt < 10 and isinstance(e, ShutdownExecutorError)\n    print("PASS" if ok else "FAIL")\n    os._exit(0 if ok else 1)\n'


def h_kill_request_withdrawn(i):
    """F20: shutdown(wait=False, kill_workers=True) while a 25 s task runs, immediately followed by the plain shutdown(wait=True) a with-block issues on
    exit: the request to kill must stand (the block is left promptly, the future fails with ShutdownExecutorError)."""
    import subprocess
    import tempfile
    repo = sys.argv[3] if len(sys.argv) > 3 else "/repo"
    with tempfile.TemporaryDirectory(prefix="f20-") as td:
        path = os.path.join(td, "prog.py")
        with open(path, "w") as fh:
            fh.write(_F20_PROG.replace('"/repo"', repr(repo)))
        out = os.path.join(td, "out.txt")
        with open(out, "w") as fo:
            try:
                subprocess.run([sys.executable, path], stdout=fo, stderr=subprocess.DEVNULL, stdin=subprocess.DEVNULL, timeout=90, start_new_session=True)
            except subprocess.TimeoutExpired:
                pass
        lines = [l for l in open(out, errors="replace").read().splitlines() if l and "leaked" not in l]
    failed = any(l.startswith("FAIL") for l in lines) or not any(l.startswith("PASS") for l in lines)
    return {"reproduced": failed, "observed": [l[:300] for l in lines[-3:]], "expected": "kill_workers stays True; the with-block is left within 10 s; the future fails with ShutdownExecutorError"}


_F21_PROG = 'import os, sys, threading, time, warnings, signal\nsys.path.insert(0, "/repo")\nwarnings.simplefilter("ignore")\nfrom loky import get_reusable_executor\nimport loky.reusable_executor as rx\ndef alive(pid):\n    try:\n        os.kill(pid, 0)\n    except OSError:\n        return False\n    try:\n        return open("/proc/%d/stat" % pid).read().rsplit(")", 1)[1].split()[0] != "Z"\n    except OSError:\n        return False\nif __name__ == "__main__":\n    ex = get_reusable_executor(max_workers=4, timeout=None)\n    list(ex.map(int, range(8)))\n    before = set(ex._processes)\n    real_sleep = time.sleep\n    state = {"n": 0}\n    class T:\n        # schedule made deterministic: at the first poll of the wait for departures one worker is killed and the manager thread is given time to react\n        @staticmethod\n        def sleep(d):\n            state["n"] += 1\n            if state["n"] == 1:\n                for pid in list(ex._processes):\n                    if alive(pid):\n                        os.kill(pid, signal.SIGKILL)\n                        break\n                real_sleep(1.0)\n            real_sleep(d)\n        def __getattr__(self, n):\n            return getattr(time, n)\n    rx.time = T()\n    out = {}\n    def shrink():\n        try:\n            out["e"] = get_reusable_executor(max_workers=2, timeout=None)\n        except BaseException as e:\n            out["err"] = e\n    t = threading.Thread(target=shrink, daemon=True); t.start(); t.join(30)\n    rx.time = time\n    real_sleep(1.0)\n    spawned = [pid for pid in set(ex._processes or {}) - before]\n    left = [pid for pid in spawned if alive(pid)]\n    print("resize:", "hung" if t.is_alive() else ("raised %r" % (out["err"],) if "err" in out else "returned"), "| executor broken:", ex._flags.broken is not None,\n          "| workers spawned after the break and still alive:", len(left))\n    ok = (not t.is_alive()) and "err" not in out and not left\n    print("PASS" if ok else "FAIL")\n    for pid in left + [p for p in before if alive(p)]:\n        try: os.kill(pid, signal.SIGKILL)\n        except OSError: pass\n    os._exit(0 if ok else 1)\n'


def h_resize_after_break(i):
    """F21: a reusable executor shrunk from 4 to 2 workers; a worker is SIGKILLed during the wait for departures, so the executor is flagged broken and the
    manager thread kills the workers: the resize must return (the broken instance is replaced by the next factory call) without raising out of
    get_reusable_executor and without spawning workers into the broken executor."""
    import subprocess
    import tempfile
    repo = sys.argv[3] if len(sys.argv) > 3 else "/repo"
    with tempfile.TemporaryDirectory(prefix="f21-") as td:
        path = os.path.join(td, "prog.py")
        with open(path, "w") as fh:
            fh.write(_F21_PROG.replace('"/repo"', repr(repo)))
        out = os.path.join(td, "out.txt")
        with open(out, "w") as fo:
            try:
                subprocess.run([sys.executable, path], stdout=fo, stderr=subprocess.DEVNULL, stdin=subprocess.DEVNULL, timeout=90, start_new_session=True)
            except subprocess.TimeoutExpired:
                pass
        lines = [l for l in open(out, errors="replace").read().splitlines() if l and "leaked" not in l]
    failed = any(l.startswith("FAIL") for l in lines) or not any(l.startswith("PASS") for l in lines)
    return {"reproduced": failed, "observed": [l[:300] for l in lines[-2:]], "expected": "the call returns; no exception; no worker spawned into the broken executor"}


def h_semlock_registration_fails(i):
    """F22: SemLock(kind, value, maxvalue, name) with a name the tracker protocol cannot carry (not ASCII): the kernel semaphore is created, the registration
    raises; the named semaphore must not be left in /dev/shm (there is no object, hence no finalizer, and the tracker does not know it)."""
    import gc
    from loky.backend.synchronize import SemLock
    name = "/loky-v\u00e9rif-%d" % os.getpid()
    path = "/dev/shm/sem." + name[1:]
    try:
        SemLock(1, 1, 1, name=name)
        outcome = "constructed"
    except BaseException as e:
        outcome = f"raised {type(e).__name__}"
    gc.collect()
    left = os.path.exists(path)
    if left:
        os.unlink(path)
    return {"reproduced": outcome != "constructed" and left, "observed": {"constructor": outcome, "semaphore_left_in_dev_shm": left},
            "expected": "either the object is constructed (and finalized later) or the semaphore is unlinked before the error is passed on"}


_F23_PROG = 'import os, sys, time, errno, signal, warnings\nsys.path.insert(0, "/repo")\nwarnings.simplefilter("ignore")\nfrom loky.process_executor import ProcessPoolExecutor\ndef alive(pid):\n    try:\n        os.kill(pid, 0)      # a zombie counts: the property counts child processes "zombies included"\n        return True\n    except OSError:\n        return False\nif __name__ == "__main__":\n    ex = ProcessPoolExecutor(max_workers=2)\n    ctx = ex._context\n    real = ctx.Process\n    n = {"k": 0}\n    def flaky(*a, **kw):\n        p = real(*a, **kw)\n        n["k"] += 1\n        if n["k"] == 2:\n            def start():\n                raise OSError(errno.EAGAIN, "Resource temporarily unavailable")   # fault injected: fork refused for the second worker\n            p.start = start\n        return p\n    if os.environ.get("F23_MODE") == "thread":\n        import threading\n        real_start = threading.Thread.start\n        def start(self):\n            if "ExecutorManagerThread" in self.name:\n                raise RuntimeError("can\'t start new thread")      # fault injected: thread limit reached\n            return real_start(self)\n        threading.Thread.start = start\n    else:\n        ctx.Process = flaky\n    try:\n        ex.submit(int, 0)\n        sub = "returned"\n    except (OSError, RuntimeError) as e:\n        sub = "raised " + type(e).__name__\n    ctx.Process = real\n    time.sleep(1.5)          # let the first worker finish its start-up\n    pids = list(ex._processes)\n    has_manager = ex._executor_manager_thread is not None\n    try:\n        ex.shutdown(wait=True)\n        sd = "returned"\n    except BaseException as e:\n        sd = "raised %s(%s)" % (type(e).__name__, e)\n    del ex\n    import gc; gc.collect()\n    time.sleep(2)\n    left = [p for p in pids if alive(p)]\n    print("submit", sub, "| workers started before the failure:", len(pids), "| manager thread started:", has_manager, "| shutdown(wait=True)", sd, "| workers alive 2 s later:", len(left))\n    ok = not left\n    print("PASS" if ok else "FAIL")\n    for p in left:\n        os.kill(p, signal.SIGKILL)\n    os._exit(0 if ok else 1)\n'


def h_partial_spawn_failure(i):
    """F23: first submit of a two-worker executor; the fork of the second worker is refused (EAGAIN, injected): submit raises; after shutdown(wait=True) and
    release of the executor the first worker must be gone."""
    import subprocess
    import tempfile
    repo = sys.argv[3] if len(sys.argv) > 3 else "/repo"
    with tempfile.TemporaryDirectory(prefix="f23-") as td:
        path = os.path.join(td, "prog.py")
        with open(path, "w") as fh:
            fh.write(_F23_PROG.replace('"/repo"', repr(repo)))
        out = os.path.join(td, "out.txt")
        with open(out, "w") as fo:
            try:
                subprocess.run([sys.executable, path], stdout=fo, stderr=subprocess.DEVNULL, stdin=subprocess.DEVNULL, timeout=90, start_new_session=True,
                               env={**os.environ, "F23_MODE": str(i.get("mode", "fork"))})
            except subprocess.TimeoutExpired:
                pass
        lines = [l for l in open(out, errors="replace").read().splitlines() if l and "leaked" not in l]
    failed = any(l.startswith("FAIL") for l in lines) or not any(l.startswith("PASS") for l in lines)
    return {"reproduced": failed, "observed": [l[:300] for l in lines[-2:]], "expected": "no worker of the executor alive after shutdown(wait=True)"}


_F24_PROG = 'import os, sys, time, threading, warnings\nsys.path.insert(0, "/repo")\nwarnings.simplefilter("ignore")\nfrom loky.process_executor import ProcessPoolExecutor\nif __name__ == "__main__":\n    ex = ProcessPoolExecutor(max_workers=1)\n    ex.submit(int, 0).result()\n    real = ex._shutdown_lock\n    state = {}\n    class WaitingLock:\n        # schedule made deterministic: while thread B waits for the shutdown lock, thread A runs a complete shutdown(wait=True)\n        def __enter__(self):\n            if threading.current_thread().name == "B" and not state.get("done"):\n                state["done"] = True\n                ta = threading.Thread(target=ex.shutdown, name="A")\n                ta.start(); ta.join(30)\n            return real.__enter__()\n        def __exit__(self, *a):\n            return real.__exit__(*a)\n    ex._shutdown_lock = WaitingLock()\n    out = {}\n    def b():\n        try:\n            ex.shutdown()\n            out["b"] = "returned"\n        except BaseException as e:\n            out["b"] = "raised %s: %s" % (type(e).__name__, e)\n    tb = threading.Thread(target=b, name="B"); tb.start(); tb.join(60)\n    print("second concurrent shutdown():", out.get("b", "hung"))\n    ok = out.get("b") == "returned"\n    print("PASS" if ok else "FAIL")\n    os._exit(0 if ok else 1)\n'


def h_concurrent_shutdown(i):
    """F24: two threads call shutdown(wait=True) on the same executor; the first completes while the second waits for the shutdown lock: the second call
    must return without raising."""
    import subprocess
    import tempfile
    repo = sys.argv[3] if len(sys.argv) > 3 else "/repo"
    with tempfile.TemporaryDirectory(prefix="f24-") as td:
        path = os.path.join(td, "prog.py")
        with open(path, "w") as fh:
            fh.write(_F24_PROG.replace('"/repo"', repr(repo)))
        out = os.path.join(td, "out.txt")
        with open(out, "w") as fo:
            try:
                subprocess.run([sys.executable, path], stdout=fo, stderr=subprocess.DEVNULL, stdin=subprocess.DEVNULL, timeout=120, start_new_session=True)
            except subprocess.TimeoutExpired:
                pass
        lines = [l for l in open(out, errors="replace").read().splitlines() if l and "leaked" not in l]
    failed = any(l.startswith("FAIL") for l in lines) or not any(l.startswith("PASS") for l in lines)
    return {"reproduced": failed, "observed": [l[:300] for l in lines[-2:]], "expected": "both calls return"}


_F25_PROG = 'import os, sys, time, threading, warnings\nsys.path.insert(0, "/repo")\nwarnings.simplefilter("ignore")\nfrom loky.process_executor import ProcessPoolExecutor\nif __name__ == "__main__":\n    ex = ProcessPoolExecutor(max_workers=1, initializer=len, initargs=(b"x" * 5_000_000,), env={"PYTHONHOME": "/nonexistent-python-home"})\n    out = {}\n    def sub():\n        try:\n            f = ex.submit(int, 0)\n            out["submit"] = "returned"\n            try:\n                f.result(timeout=20)\n                out["future"] = "result"\n            except BaseException as e:\n                out["future"] = type(e).__name__\n        except BaseException as e:\n            out["submit"] = "raised %s" % type(e).__name__\n    t = threading.Thread(target=sub, daemon=True); t.start(); t.join(30)\n    print("submit:", out.get("submit", "blocked for 30 s"), "| future:", out.get("future"))\n    ok = "submit" in out\n    print("PASS" if ok else "FAIL")\n    os._exit(0 if ok else 1)\n'


def h_worker_dies_before_reading_payload(i):
    """F25: a worker whose interpreter dies at start-up (PYTHONHOME pointing nowhere, through env=) before it has read a start-up payload larger than the pipe
    buffer (5 MB of initargs): submit() must return or raise, and the future must fail, instead of blocking for ever in the payload write."""
    import subprocess
    import tempfile
    repo = sys.argv[3] if len(sys.argv) > 3 else "/repo"
    with tempfile.TemporaryDirectory(prefix="f25-") as td:
        path = os.path.join(td, "prog.py")
        with open(path, "w") as fh:
            fh.write(_F25_PROG.replace('"/repo"', repr(repo)))
        out = os.path.join(td, "out.txt")
        with open(out, "w") as fo:
            try:
                subprocess.run([sys.executable, path], stdout=fo, stderr=subprocess.DEVNULL, stdin=subprocess.DEVNULL, timeout=120, start_new_session=True)
            except subprocess.TimeoutExpired:
                pass
        lines = [l for l in open(out, errors="replace").read().splitlines() if l and "leaked" not in l]
    failed = any(l.startswith("FAIL") for l in lines) or not any(l.startswith("PASS") for l in lines)
    return {"reproduced": failed, "observed": [l[:300] for l in lines[-2:]], "expected": "submit returns (or raises) within 30 s and the future fails with a BrokenProcessPool error"}


_F26_PROG = 'import os, sys, time, signal, threading, warnings\nsys.path.insert(0, "/repo")\nwarnings.simplefilter("ignore")\nfrom loky.process_executor import ProcessPoolExecutor, _CallItem\nif __name__ == "__main__":\n    ex = ProcessPoolExecutor(max_workers=1)\n    ex.submit(int, 0).result()\n    futs = [ex.submit(time.sleep, 30) for _ in range(3)]\n    while not futs[0].running():\n        time.sleep(0.01)\n    time.sleep(0.5)\n    ids = sorted(ex._pending_work_items)\n    fired = {}\n    def cb(f):\n        # schedule made deterministic: the feeder thread\'s error handler (a task that cannot be pickled) runs for another pending item exactly while the\n        # manager thread is failing the pending futures of the broken pool (in a run it is another thread, between two steps of that loop)\n        if not fired and len(ids) == 3:\n            fired["x"] = True\n            try:\n                ex._call_queue._on_queue_feeder_error(ValueError("cannot pickle"), _CallItem(ids[2], int, (), {}))\n            except BaseException as e:\n                fired["err"] = repr(e)\n    for f in futs:\n        f.add_done_callback(cb)\n    mt = ex._executor_manager_thread\n    os.kill(next(iter(ex._processes)), signal.SIGKILL)\n    mt.join(20)\n    states = []\n    for f in futs:\n        try:\n            states.append(type(f.exception(timeout=5)).__name__)\n        except BaseException as e:\n            states.append("unresolved (%s)" % type(e).__name__)\n    print("pending ids:", len(ids), "| handler fired:", bool(fired), fired.get("err"), "| manager thread ended:", not mt.is_alive(), "| futures:", states)\n    ok = (not mt.is_alive()) and all(not s_.startswith("unresolved") for s_ in states) and bool(fired)\n    print("PASS" if ok else "FAIL")\n    for pid in list(ex._processes or {}):\n        try: os.kill(pid, signal.SIGKILL)\n        except OSError: pass\n    os._exit(0 if ok else 1)\n'


def h_pending_table_iteration(i):
    """F26: a one-worker pool with three long tasks breaks (worker SIGKILLed); while the manager thread fails the pending futures one by one, the feeder
    thread's error handler removes another pending item (forced to happen inside that loop through a done-callback): the manager thread must still fail
    every future and end."""
    import subprocess
    import tempfile
    repo = sys.argv[3] if len(sys.argv) > 3 else "/repo"
    with tempfile.TemporaryDirectory(prefix="f26-") as td:
        path = os.path.join(td, "prog.py")
        with open(path, "w") as fh:
            fh.write(_F26_PROG.replace('"/repo"', repr(repo)))
        out = os.path.join(td, "out.txt")
        with open(out, "w") as fo:
            try:
                subprocess.run([sys.executable, path], stdout=fo, stderr=subprocess.DEVNULL, stdin=subprocess.DEVNULL, timeout=120, start_new_session=True)
            except subprocess.TimeoutExpired:
                pass
        lines = [l for l in open(out, errors="replace").read().splitlines() if l and "leaked" not in l]
    failed = any(l.startswith("FAIL") for l in lines) or not any(l.startswith("PASS") for l in lines)
    return {"reproduced": failed, "observed": [l[:400] for l in lines[-2:]], "expected": "every future fails, the manager thread ends"}


_F28_PROG = 'import os, sys, warnings\nsys.path.insert(0, "/repo")\nwarnings.simplefilter("ignore")\nfrom loky.process_executor import ProcessPoolExecutor\nfrom loky.backend import get_context\ndef getenv(k):\n    import os\n    return os.environ.get(k)\nif __name__ == "__main__":\n    seen = {}\n    for method in ("loky", "loky_init_main"):\n        ex = ProcessPoolExecutor(max_workers=1, context=get_context(method), env={"LOKY_VERIF_ENV_OVERLAY": "42"})\n        try:\n            seen[method] = ex.submit(getenv, "LOKY_VERIF_ENV_OVERLAY").result(timeout=60)\n        except BaseException as e:\n            seen[method] = "raised " + type(e).__name__\n        ex.shutdown(kill_workers=True)\n    print("value of the overlaid variable seen by a worker:", seen)\n    ok = all(v == "42" for v in seen.values())\n    print("PASS" if ok else "FAIL")\n    os._exit(0 if ok else 1)\n'


def h_env_overlay_per_context(i):
    """F28: env={'X': '42'} given to an executor must be in the environment of its workers under both loky start methods (loky, loky_init_main)."""
    import subprocess
    import tempfile
    repo = sys.argv[3] if len(sys.argv) > 3 else "/repo"
    with tempfile.TemporaryDirectory(prefix="f28-") as td:
        path = os.path.join(td, "prog.py")
        with open(path, "w") as fh:
            fh.write(_F28_PROG.replace('"/repo"', repr(repo)))
        out = os.path.join(td, "out.txt")
        with open(out, "w") as fo:
            try:
                subprocess.run([sys.executable, path], stdout=fo, stderr=subprocess.DEVNULL, stdin=subprocess.DEVNULL, timeout=150, start_new_session=True)
            except subprocess.TimeoutExpired:
                pass
        lines = [l for l in open(out, errors="replace").read().splitlines() if l and "leaked" not in l]
    failed = any(l.startswith("FAIL") for l in lines) or not any(l.startswith("PASS") for l in lines)
    return {"reproduced": failed, "observed": [l[:300] for l in lines[-2:]], "expected": "'42' under both start methods"}


_F29_PROG = 'import os, sys, time, signal, threading, warnings, subprocess\nsys.path.insert(0, "/repo")\nwarnings.simplefilter("ignore")\nimport loky.backend.utils as U\nfrom loky.process_executor import ProcessPoolExecutor\ndef alive(pid):\n    try:\n        os.kill(pid, 0)\n        return open("/proc/%d/stat" % pid).read().rsplit(")", 1)[1].split()[0] != "Z"\n    except OSError:\n        return False\nif __name__ == "__main__":\n    # a slim image: neither psutil nor pgrep (procps) installed\n    U.psutil = None\n    real = subprocess.check_output\n    def no_pgrep(cmd, *a, **k):\n        if cmd and cmd[0] == "pgrep":\n            raise FileNotFoundError(2, "No such file or directory: \'pgrep\'")\n        return real(cmd, *a, **k)\n    U.subprocess.check_output = no_pgrep\n    ex = ProcessPoolExecutor(max_workers=2)\n    futs = [ex.submit(time.sleep, 60) for _ in range(2)]\n    while not all(f.running() for f in futs):\n        time.sleep(0.01)\n    time.sleep(0.5)\n    pids = list(ex._processes)\n    mt = ex._executor_manager_thread\n    t = threading.Thread(target=lambda: ex.shutdown(wait=True, kill_workers=True), daemon=True)\n    t0 = time.time(); t.start(); t.join(20)\n    time.sleep(1.0)\n    left = [p for p in pids if alive(p)]\n    print("shutdown(kill_workers=True):", "blocked" if t.is_alive() else "returned after %.1fs" % (time.time() - t0 - 1.0),\n          "| workers still alive:", len(left), "of", len(pids), "| futures failed:", sum(f.done() for f in futs))\n    ok = not t.is_alive() and not left\n    print("PASS" if ok else "FAIL")\n    for p in left:\n        os.kill(p, signal.SIGKILL)\n    os._exit(0 if ok else 1)\n'


def h_kill_fallback_without_pgrep(i):
    """F29: no psutil and no usable pgrep (slim container image): shutdown(kill_workers=True) falls back to killing each worker itself
    (process.kill()); the workers must be dead afterwards."""
    import subprocess
    import tempfile
    repo = sys.argv[3] if len(sys.argv) > 3 else "/repo"
    with tempfile.TemporaryDirectory(prefix="f29-") as td:
        path = os.path.join(td, "prog.py")
        with open(path, "w") as fh:
            fh.write(_F29_PROG.replace('"/repo"', repr(repo)))
        out = os.path.join(td, "out.txt")
        with open(out, "w") as fo:
            try:
                subprocess.run([sys.executable, path], stdout=fo, stderr=subprocess.DEVNULL, stdin=subprocess.DEVNULL, timeout=150, start_new_session=True)
            except subprocess.TimeoutExpired:
                pass
        lines = [l for l in open(out, errors="replace").read().splitlines() if l and "leaked" not in l]
    failed = any(l.startswith("FAIL") for l in lines) or not any(l.startswith("PASS") for l in lines)
    return {"reproduced": failed, "observed": [l[:300] for l in lines[-2:]], "expected": "the call returns and no worker is left alive"}


_F30_PROG = 'import os, sys, time, signal, threading, warnings\nsys.path.insert(0, "/repo")\nwarnings.simplefilter("ignore")\nfrom loky import get_reusable_executor\ndef alive(pid):\n    try:\n        os.kill(pid, 0)\n        return open("/proc/%d/stat" % pid).read().rsplit(")", 1)[1].split()[0] != "Z"\n    except OSError:\n        return False\nif __name__ == "__main__":\n    ex = get_reusable_executor(max_workers=2, timeout=None)\n    list(ex.map(abs, range(2)))\n    before = set(ex._processes)\n    ex.submit(time.sleep, 2)\n    threading.Timer(1.0, ex.shutdown, kwargs=dict(wait=False)).start()     # another thread shuts the executor down while the resize waits for the job\n    out = {}\n    try:\n        ex2 = get_reusable_executor(max_workers=4, timeout=None)\n        out["call"] = "returned"\n    except BaseException as e:\n        out["call"] = "raised %s(%s)" % (type(e).__name__, e)\n    time.sleep(3)\n    spawned = [p for p in set(ex._processes or {}) - before]\n    left = [p for p in spawned if alive(p)]\n    print("get_reusable_executor during which the executor was shut down:", out["call"], "| workers spawned into the shut-down executor and still alive:", len(left))\n    ok = out["call"] == "returned" and not left\n    print("PASS" if ok else "FAIL")\n    for p in list(before) + left:\n        try: os.kill(p, signal.SIGKILL)\n        except OSError: pass\n    os._exit(0 if ok else 1)\n'


def h_shutdown_during_resize(i):
    """F30: another thread calls shutdown(wait=False) on the reusable executor while a resize (2 -> 4) waits for the running job: the resize must not
    spawn workers into the executor that is shutting down (they would be unmanaged, or the spawn raises on the closed queues)."""
    import subprocess
    import tempfile
    repo = sys.argv[3] if len(sys.argv) > 3 else "/repo"
    with tempfile.TemporaryDirectory(prefix="f30-") as td:
        path = os.path.join(td, "prog.py")
        with open(path, "w") as fh:
            fh.write(_F30_PROG.replace('"/repo"', repr(repo)))
        out = os.path.join(td, "out.txt")
        with open(out, "w") as fo:
            try:
                subprocess.run([sys.executable, path], stdout=fo, stderr=subprocess.DEVNULL, stdin=subprocess.DEVNULL, timeout=150, start_new_session=True)
            except subprocess.TimeoutExpired:
                pass
        lines = [l for l in open(out, errors="replace").read().splitlines() if l and "leaked" not in l]
    failed = any(l.startswith("FAIL") for l in lines) or not any(l.startswith("PASS") for l in lines)
    return {"reproduced": failed, "observed": [l[:300] for l in lines[-2:]], "expected": "the call returns; nothing is spawned into the shut-down executor"}


_F31_PROG = 'import os, sys, time, errno, warnings, tempfile\nsys.path.insert(0, "/repo")\nwarnings.simplefilter("ignore")\nfrom loky.process_executor import ProcessPoolExecutor\ndef record(path, what):\n    with open(path, "a") as fh:\n        fh.write(what + "\\n")\n    return what\nif __name__ == "__main__":\n    d = os.environ["F31_DIR"]\n    path = os.path.join(d, "log")\n    open(path, "w").close()\n    ex = ProcessPoolExecutor(max_workers=1)\n    real = ex._adjust_process_count\n    calls = []\n    def flaky():\n        calls.append(1)\n        if len(calls) == 1:\n            raise OSError(errno.EMFILE, "Too many open files")      # fault injected: the first spawn fails\n        return real()\n    ex._adjust_process_count = flaky\n    try:\n        ex.submit(record, path, "payment-42")\n        first = "returned a future"\n    except OSError:\n        first = "raised OSError (the caller holds no future)"\n    f = ex.submit(record, path, "payment-42")        # the caller retries\n    f.result(timeout=60)\n    time.sleep(1)\n    ex.shutdown(wait=True)\n    runs = open(path).read().split()\n    print("first submit", first, "| retry completed | task body executions recorded:", runs)\n    ok = len(runs) == 1\n    print("PASS" if ok else "FAIL")\n    os._exit(0 if ok else 1)\n'


def h_submit_raises_but_task_runs(i):
    """F31: the spawn fails during the first submit (EMFILE, injected): submit raises and the caller, who holds no future, retries once: the task body
    must have run once, not twice."""
    import subprocess
    import tempfile
    repo = sys.argv[3] if len(sys.argv) > 3 else "/repo"
    with tempfile.TemporaryDirectory(prefix="f31-") as td:
        path = os.path.join(td, "prog.py")
        with open(path, "w") as fh:
            fh.write(_F31_PROG.replace('"/repo"', repr(repo)))
        out = os.path.join(td, "out.txt")
        with open(out, "w") as fo:
            try:
                subprocess.run([sys.executable, path], stdout=fo, stderr=subprocess.DEVNULL, stdin=subprocess.DEVNULL, timeout=150, start_new_session=True,
                               env={**os.environ, "F31_DIR": td})
            except subprocess.TimeoutExpired:
                pass
        lines = [l for l in open(out, errors="replace").read().splitlines() if l and "leaked" not in l]
    failed = any(l.startswith("FAIL") for l in lines) or not any(l.startswith("PASS") for l in lines)
    return {"reproduced": failed, "observed": [l[:300] for l in lines[-2:]], "expected": "one execution of the task body"}


def h_exit_hook_registered_once(i):
    """F32: three executor lifecycles (submit, shutdown) in one process: the interpreter-exit hook _python_exit must be registered once per process, not
    once per executor (threading._threading_atexits must not grow with the number of executors)."""
    import threading
    import warnings
    warnings.simplefilter("ignore")
    import loky.process_executor as pe
    counts = []
    for _ in range(3):
        ex = pe.ProcessPoolExecutor(max_workers=1)
        ex.submit(int, 0).result(timeout=60)
        ex.shutdown(wait=True)
        counts.append(sum(1 for f in threading._threading_atexits if f is pe._python_exit or getattr(f, "func", None) is pe._python_exit))
    return {"reproduced": counts[-1] > 1, "observed": {"_python_exit hooks registered after 1, 2, 3 executors": counts}, "expected": [1, 1, 1]}


_F33_PROG = 'import os, sys, time, warnings, threading, signal\nsys.path.insert(0, "/repo")\nwarnings.simplefilter("ignore")\nfrom loky.process_executor import ProcessPoolExecutor\nclass Slow:\n    def __reduce__(self):\n        time.sleep(1.0)          # slow to pickle: both idle workers time out while the task is being sent\n        return (Slow, ())\nif __name__ == "__main__":\n    threading.excepthook = lambda a: None         # (the error of the manager thread is expected here; keep the output readable)\n    ex = ProcessPoolExecutor(max_workers=2, timeout=0.05)\n    ex.submit(int, 1).result()\n    real = ex._context.Process\n    def failing(*a, **k):\n        if threading.current_thread().name == "ExecutorManagerThread":\n            raise OSError(11, "Resource temporarily unavailable")       # fault injected: the replacement worker cannot be forked\n        return real(*a, **k)\n    ex._context.Process = failing\n    f = ex.submit(id, Slow())\n    try:\n        f.result(timeout=15)\n        out = "result"\n    except BaseException as exc:\n        out = type(exc).__name__\n    print("future of the pending task:", out, "| executor flagged broken:", ex._flags.broken is not None, "| manager thread alive:", ex._executor_manager_thread.is_alive())\n    ok = out != "TimeoutError"\n    print("PASS" if ok else "FAIL")\n    for pid in list(ex._processes or {}):\n        try: os.kill(pid, signal.SIGKILL)\n        except OSError: pass\n    os._exit(0 if ok else 1)\n'


def h_respawn_fails_in_manager_thread(i):
    """F33: both workers time out while a task is being sent and the replacement cannot be forked (EAGAIN injected in the manager thread): the pending
    future must resolve (fail loudly), not hang with a dead manager thread and an executor that is not flagged broken."""
    import subprocess
    import tempfile
    repo = sys.argv[3] if len(sys.argv) > 3 else "/repo"
    with tempfile.TemporaryDirectory(prefix="f33-") as td:
        path = os.path.join(td, "prog.py")
        with open(path, "w") as fh:
            fh.write(_F33_PROG.replace('"/repo"', repr(repo)))
        out = os.path.join(td, "out.txt")
        with open(out, "w") as fo:
            try:
                subprocess.run([sys.executable, path], stdout=fo, stderr=subprocess.DEVNULL, stdin=subprocess.DEVNULL, timeout=150, start_new_session=True)
            except subprocess.TimeoutExpired:
                pass
        lines = [l for l in open(out, errors="replace").read().splitlines() if l and "leaked" not in l]
    failed = any(l.startswith("FAIL") for l in lines) or not any(l.startswith("PASS") for l in lines)
    return {"reproduced": failed, "observed": [l[:300] for l in lines[-2:]], "expected": "the future fails with a BrokenProcessPool error"}


_F34_PROG = 'import sys, threading, os, time\nsys.path.insert(0, "/repo")\nfrom loky.process_executor import ProcessPoolExecutor\nif __name__ == "__main__":\n    ex = ProcessPoolExecutor(max_workers=2, env={"X": "a\\0b"})\n    try:\n        ex.submit(int, 0); print("submit returned")\n    except BaseException as e:\n        print("submit raised", type(e).__name__)\n    t = threading.Thread(target=ex.shutdown, daemon=True); t.start(); t.join(10)\n    hung = t.is_alive()\n    print("shutdown(wait=True) after a submit that could spawn no worker at all:", "still blocked after 10 s" if hung else "returned", "| manager thread started:", ex._executor_manager_thread is not None or hung)\n    print("FAIL" if hung else "PASS")\n    os._exit(1 if hung else 0)\n'


def h_shutdown_after_total_spawn_failure(i):
    """F34: an executor whose workers cannot be spawned at all (env={'X': 'a\\0b'}: every fork_exec raises ValueError): submit raises; shutdown(wait=True)
    (or leaving a with-block) must return instead of waiting for ever for the work item the failed submit left registered."""
    import subprocess
    import tempfile
    repo = sys.argv[3] if len(sys.argv) > 3 else "/repo"
    with tempfile.TemporaryDirectory(prefix="f34-") as td:
        path = os.path.join(td, "prog.py")
        with open(path, "w") as fh:
            fh.write(_F34_PROG.replace('"/repo"', repr(repo)))
        out = os.path.join(td, "out.txt")
        with open(out, "w") as fo:
            try:
                subprocess.run([sys.executable, path], stdout=fo, stderr=subprocess.DEVNULL, stdin=subprocess.DEVNULL, timeout=120, start_new_session=True)
            except subprocess.TimeoutExpired:
                pass
        lines = [l for l in open(out, errors="replace").read().splitlines() if l and "leaked" not in l]
    failed = any(l.startswith("FAIL") for l in lines) or not any(l.startswith("PASS") for l in lines)
    return {"reproduced": failed, "observed": [l[:300] for l in lines[-3:]], "expected": "shutdown(wait=True) returns"}


class _F35A:
    def f(self):
        return "A.f"

    def g(self):
        return "first g"
    alias = g

    def g(self):          # noqa: F811 (the alias above keeps the first definition)
        return "second g"


class _F35B(_F35A):
    def f(self):
        return "B.f"

    def parent_f(self):
        return super().f


def h_bound_method_round_trip(i):
    """F35: bound methods pickled with loky's pickler (its built-in reducer for methods) must come back as the same function bound to an equal object:
    the parent's method reached through super(), and a method reached through an alias whose name was later re-used."""
    import pickle
    from loky.backend.reduction import dumps
    cases = {"super().f of a B instance": _F35B().parent_f(), "alias of a re-defined method": _F35A().alias}
    obs = {}
    for name, m in cases.items():
        want = m()
        try:
            got = pickle.loads(dumps(m))()
        except BaseException as e:
            got = f"raised {type(e).__name__}"
        obs[name] = {"direct call": want, "after the round trip": got}
    bad = [k for k, v in obs.items() if v["direct call"] != v["after the round trip"]]
    return {"reproduced": bool(bad), "observed": obs, "expected": "the same result after the round trip"}


_F15_PROG = 'import os, sys, time, threading, warnings\nsys.path.insert(0, "/repo")\nwarnings.simplefilter("ignore")\nfrom loky.process_executor import ProcessPoolExecutor\ndef init():\n    import loky.process_executor as pe\n    pe._MAX_MEMORY_LEAK_SIZE = 0          # every memory check finds a "leak": the worker leaves cleanly after announcing its pid\n    pe._MEMORY_LEAK_CHECK_DELAY = 0.2\ndef work(i):\n    import time\n    x = [0] * 200000\n    time.sleep(0.4)\n    return i\nif __name__ == "__main__":\n    errs = []\n    threading.excepthook = lambda a: errs.append((a.thread.name, a.exc_type.__name__, str(a.exc_value)[:80]))\n    ex = ProcessPoolExecutor(max_workers=1, initializer=init)\n    futs = [ex.submit(work, i) for i in range(12)]\n    mode = sys.argv[1] if len(sys.argv) > 1 else "collected"\n    if mode == "collected":\n        del ex                            # the executor object is collected while its futures are pending\n        import gc; gc.collect()\n    res = []\n    for f in futs:\n        try:\n            res.append(f.result(timeout=6))\n        except Exception as e:\n            res.append(type(e).__name__)\n    print("results:", res)\n    print("manager thread errors:", errs)\n    ok = res == list(range(12)) and not errs\n    print("PASS" if ok else "FAIL")\n    os._exit(0 if ok else 1)\n'


def h_respawn_after_executor_collected(i):
    """F15: 12 tasks on a one-worker pool whose workers leave cleanly after every memory check; the executor object is deleted (collected) right after
    the submissions while the futures are kept: every task must still complete."""
    import subprocess
    import tempfile
    repo = sys.argv[3] if len(sys.argv) > 3 else "/repo"
    with tempfile.TemporaryDirectory(prefix="f15-") as td:
        path = os.path.join(td, "prog.py")
        with open(path, "w") as fh:
            fh.write(_F15_PROG.replace('"/repo"', repr(repo)))
        out = os.path.join(td, "out.txt")
        with open(out, "w") as fo:
            try:
                subprocess.run([sys.executable, path, "collected"], stdout=fo, stderr=subprocess.DEVNULL, stdin=subprocess.DEVNULL, timeout=170, start_new_session=True)
            except subprocess.TimeoutExpired:
                pass
        lines = [l for l in open(out, errors="replace").read().splitlines() if l and "leaked" not in l]
    failed = any(l.startswith("FAIL") for l in lines) or not any(l.startswith("PASS") for l in lines)
    return {"reproduced": failed, "observed": [l[:300] for l in lines[-3:]], "expected": "results 0..11"}


_F18_PROG = 'import os, sys, time, threading, warnings\nsys.path.insert(0, "/repo")\npass\nfrom loky.process_executor import ProcessPoolExecutor\ndef init():\n    import loky.process_executor as pe\n    pe._MAX_MEMORY_LEAK_SIZE = 0          # every memory check finds a "leak": the worker leaves cleanly after announcing its pid\n    pe._MEMORY_LEAK_CHECK_DELAY = 0.2\ndef work(i):\n    import time\n    x = [0] * 200000\n    time.sleep(0.4)\n    return i\nif __name__ == "__main__":\n    errs = []\n    threading.excepthook = lambda a: errs.append((a.thread.name, a.exc_type.__name__, str(a.exc_value)[:80]))\n    ex = ProcessPoolExecutor(max_workers=1, initializer=init)\n    futs = [ex.submit(work, i) for i in range(12)]\n    mode = sys.argv[1] if len(sys.argv) > 1 else "nowait"\n    if mode == "nowait":\n        ex.shutdown(wait=False)           # the executor object stays referenced by `ex`\n    res = []\n    for f in futs:\n        try:\n            res.append(f.result(timeout=6))\n        except Exception as e:\n            res.append(type(e).__name__)\n    print("results:", res)\n    print("manager thread errors:", errs)\n    ok = res == list(range(12)) and not errs\n    print("PASS" if ok else "FAIL")\n    os._exit(0 if ok else 1)\n'


def h_respawn_warning_as_error(i):
    """F18 (and F13 for mode 'nowait'): 12 tasks on a one-worker pool whose workers leave cleanly after every memory check, the parent running with
    -W error::UserWarning: the warning issued when a worker is replaced must not kill the manager thread; every task must complete."""
    import subprocess
    import tempfile
    repo = sys.argv[3] if len(sys.argv) > 3 else "/repo"
    with tempfile.TemporaryDirectory(prefix="f18-") as td:
        path = os.path.join(td, "prog.py")
        with open(path, "w") as fh:
            fh.write(_F18_PROG.replace('"/repo"', repr(repo)))
        out = os.path.join(td, "out.txt")
        with open(out, "w") as fo:
            try:
                subprocess.run([sys.executable, "-W", "error::UserWarning", path, str(i.get("mode", "wait"))], stdout=fo, stderr=subprocess.DEVNULL,
                               stdin=subprocess.DEVNULL, timeout=170, start_new_session=True)
            except subprocess.TimeoutExpired:
                pass
        lines = [l for l in open(out, errors="replace").read().splitlines() if l and "leaked" not in l]
    failed = any(l.startswith("FAIL") for l in lines) or not any(l.startswith("PASS") for l in lines)
    return {"reproduced": failed, "observed": [l[:300] for l in lines[-3:]], "expected": "results 0..11 and no exception in the manager thread"}


_F19_PROG = 'import os, sys, time\nsys.path.insert(0, "/repo")\nfrom loky.process_executor import ProcessPoolExecutor\nfrom loky.backend.reduction import set_loky_pickler, get_loky_pickler_name\ndef which(t):\n    import time\n    from loky.backend.reduction import get_loky_pickler_name\n    time.sleep(t)\n    return get_loky_pickler_name()\nif __name__ == "__main__":\n    ex = ProcessPoolExecutor(max_workers=1)\n    ex.submit(int, 0).result()\n    set_loky_pickler("pickle")\n    futs = [ex.submit(which, 0.3) for _ in range(8)]      # more than the call queue holds (3): the last ones wait in the pending table\n    set_loky_pickler("cloudpickle")                        # selected *after* these submissions\n    got = [f.result(timeout=60) for f in futs]\n    print("pickler used by the worker for each task submitted under \'pickle\':", got)\n    ok = all(g == "pickle" for g in got)\n    print("PASS" if ok else "FAIL: tasks submitted while \'pickle\' was selected ran with another pickler")\n    ex.shutdown(kill_workers=True)\n    os._exit(0 if ok else 1)\n'


def h_pickler_recorded_at_dispatch(i):
    """F19: eight tasks submitted to a one-worker pool while 'pickle' is selected, then set_loky_pickler('cloudpickle'): every one of them must run with
    'pickle' selected in its worker (the name is what the worker uses to pickle the result)."""
    import subprocess
    import tempfile
    repo = sys.argv[3] if len(sys.argv) > 3 else "/repo"
    with tempfile.TemporaryDirectory(prefix="f19-") as td:
        path = os.path.join(td, "prog.py")
        with open(path, "w") as fh:
            fh.write(_F19_PROG.replace('"/repo"', repr(repo)))
        out = os.path.join(td, "out.txt")
        with open(out, "w") as fo:
            try:
                subprocess.run([sys.executable, path], stdout=fo, stderr=subprocess.DEVNULL, stdin=subprocess.DEVNULL, timeout=110, start_new_session=True)
            except subprocess.TimeoutExpired:
                pass
        lines = [l for l in open(out, errors="replace").read().splitlines() if l and "leaked" not in l]
    failed = any(l.startswith("FAIL") for l in lines) or not any(l.startswith("PASS") for l in lines)
    return {"reproduced": failed, "observed": [l[:300] for l in lines[-2:]], "expected": "'pickle' for all eight tasks"}


def main():
    name, inputs, repo = sys.argv[1], json.loads(sys.argv[2]), sys.argv[3]
    sys.path.insert(0, repo)
    fn = globals().get("h_" + name)
    if fn is None:
        print(json.dumps({"reproduced": False, "error": f"no harness {name}"}))
        return
    try:
        res = fn(inputs)
    except BaseException as e:
        import traceback
        res = {"reproduced": False, "error": f"harness crashed: {e!r}", "tb": traceback.format_exc()[-1200:]}
    hard = isinstance(res, dict) and res.pop("_hard_exit", False)
    print(json.dumps(res, default=str))
    if hard:
        # a polling thread may still hold locks the interpreter's exit handlers want
        sys.stdout.flush()
        os._exit(0)


if __name__ == "__main__":
    main()
