#!/bin/bash
# usage: tools/mut.sh <file relative to repo> <sed expr> <key>...   (scratch copy under /tmp, removed afterwards)
set -e
f=$1; shift; e=$1; shift
d=$(mktemp -d /tmp/mut.XXXXXX)
cp -r /repo/loky $d/loky
sed -i "$e" $d/$f
if diff -q /repo/$f $d/$f >/dev/null; then echo "MUTATION DID NOT APPLY"; rm -rf $d; exit 9; fi
cd /verif && python3-vt -m pyvc verify --repo $d "$@" 2>&1 | grep -v ": unsat" || true
rm -rf $d
