#!/bin/bash
# usage: tools/mutcheck.sh <prop id> <file relative to repo> <sed expr>     (scratch copy of the package, removed afterwards)
f=$2; e=$3
d=$(mktemp -d /tmp/mutc.XXXXXX)
cp -r /repo/loky $d/loky
sed -i "$e" $d/$f
if diff -q /repo/$f $d/$f >/dev/null; then echo "MUTATION DID NOT APPLY"; rm -rf $d; exit 9; fi
cd /verif && VERIF_REPO=$d ./check $1; echo "exit=$?"
rm -rf $d
