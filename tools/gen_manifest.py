#!/usr/bin/env python3
"""Regenerate MANIFEST.json from specs/properties.py (claimed checks) and
the list of given properties (everything else is not_applicable)."""
import json, os, sys
ROOT = os.path.dirname(os.path.dirname(os.path.abspath(__file__)))
sys.path.insert(0, ROOT)
from specs import properties as P

props = [json.loads(l) for l in open(os.path.join(ROOT, "properties.jsonl"))]
claimed = [p for p in P.PROPS if P.PROPS[p].get("claimed", True)]
NA = getattr(P, "NOT_APPLICABLE", {})
checks = []
for pid in sorted(claimed):
    info = P.PROPS[pid]
    checks.append({
        "property_id": pid,
        "quick_cmd": f"./check {pid} --tier quick",
        "thorough_cmd": f"./check {pid} --tier thorough",
        "evidence_file": f"evidence/{pid}.json",
        "replay_cmd_template": "./check replay {path}",
        "engine": "pyvc",
        "level_claimed": {
            "category": "proof",
            "text": info.get("level_text") or ("Deductive proof of contracts on the real functions: " + info.get("proved", "")),
            "design_ref": f"DESIGN.md section 7 ({pid})",
        },
        "level_note": info.get("level_note") or (
            "Trusted: the pyvc VC generator and its encoding of Python (DESIGN 2.6), z3/cvc5, the external contracts "
            "listed in the evidence (stdlib/OS/third-party), assumptions " + ", ".join(info.get("assumptions", [])) +
            ". Not covered: " + info.get("not_covered", "")),
        "technique": info.get("technique", "contract-based deductive verification: VCs generated from the real AST against sidecar contracts, discharged by z3/cvc5"),
    })
na = []
for p in props:
    if p["id"] in claimed:
        continue
    na.append({"property_id": p["id"], "reason": NA.get(p["id"], "check not built yet (DESIGN.md 9.6 build order)")})
m = {
    "version": 1,
    "setup_cmd": "python3-vt -c 'import z3' && /venv/bin/python -c 'import loky'",
    "hooks": {
        "guard": "LOKY_VERIF",
        "enable": "no hooks: contracts are sidecar files under /verif/specs and the real sources are re-read from /repo on every run; the guard name is reserved and unused",
        "baseline_off_cmd": "cd /repo && /venv/bin/python -m pytest -ra -q -p no:cacheprovider --timeout=900 --continue-on-collection-errors",
        "source_commits": [],
        "add_only": True,
    },
    "engines": [{"name": "pyvc", "path": "pyvc/", "serves_properties": sorted(claimed),
                 "kind_free_text": "contract-based deductive verifier for Python written for this task: symbolic execution of the real AST (re-read from /repo every run) against sidecar contracts; loops cut at invariants, calls replaced by callee contracts; VCs discharged by z3 (cvc5 / older z3 on unknowns); counter-models replayed natively"}],
    "checks": checks,
    "notes": "Exit codes of every check: 0 held (KNOWN-FINDING lines possible), 1 violation, 2 undecided, 3 engine error. VERIF_REPO selects the tree (default /repo).",
    "not_applicable": na,
}
json.dump(m, open(os.path.join(ROOT, "MANIFEST.json"), "w"), indent=1)
print("claimed:", sorted(claimed), "n/a:", [x["property_id"] for x in na])
