#!/bin/bash
# usage: tools/keepseed.sh <prop> <worktree> <name> "<needs>"  -- confirm the demo (fails with the change, passes without) and archive it
prop=$1; wt=$2; name=$3; needs=$4
d=/verif/seeded/$name; mkdir -p $d
cp $wt/patch.diff $d/patch.diff; cp $wt/demo.py $d/demo.py
cd $wt
with=$(PYTHONPATH=$wt timeout 600 /venv/bin/python demo.py 2>&1 | tail -3; echo "exit=${PIPESTATUS[0]}")
git apply -R patch.diff
without=$(PYTHONPATH=$wt timeout 600 /venv/bin/python demo.py 2>&1 | tail -3; echo "exit=${PIPESTATUS[0]}")
git apply patch.diff
python3 - "$prop" "$name" "$needs" "$with" "$without" <<'PY'
import json,sys
prop,name,needs,w,wo=sys.argv[1:6]
json.dump({"property":prop,"name":name,"needs_to_manifest":needs,"demo_with_change":w,"demo_without_change":wo,
           "how_confirmed":"demo.py run in the sub-agent's scratch worktree with the change applied and with it reverted (git apply -R) (tools/keepseed.sh)"},
          open(f"/verif/seeded/{name}/meta.json","w"),indent=1)
print("WITH:",w[-200:]); print("WITHOUT:",wo[-200:])
PY
