#!/bin/bash
# usage: tools/keepseed.sh <prop> <worktree> <name> "<needs>"  -- confirm the demo (fails with the change, passes without) and archive it
# (outputs go through files, never pipes: orphaned loky workers keep a pipe open and would hang the reader)
prop=$1; wt=$2; name=$3; needs=$4
d=/verif/seeded/$name; mkdir -p $d
cp $wt/patch.diff $d/patch.diff; cp $wt/demo.py $d/demo.py
cd $wt
git checkout -q -- loky; git apply patch.diff
PYTHONPATH=$wt timeout -k 2 300 /venv/bin/python demo.py > /tmp/keepseed.with 2>&1 < /dev/null; echo "exit=$?" >> /tmp/keepseed.with
git apply -R patch.diff
PYTHONPATH=$wt timeout -k 2 300 /venv/bin/python demo.py > /tmp/keepseed.without 2>&1 < /dev/null; echo "exit=$?" >> /tmp/keepseed.without
git apply patch.diff
python3 - "$prop" "$name" "$needs" <<'PY'
import json,sys
prop,name,needs=sys.argv[1:4]
def tail(p):
    return "\n".join(l for l in open(p, errors="replace").read().splitlines() if "leaked semlock" not in l and "warnings.warn" not in l)[-600:]
w,wo=tail("/tmp/keepseed.with"),tail("/tmp/keepseed.without")
json.dump({"property":prop,"name":name,"needs_to_manifest":needs,"demo_with_change":w,"demo_without_change":wo,
           "how_confirmed":"demo.py run in the sub-agent's scratch worktree with the change applied and with it reverted (git apply -R) (tools/keepseed.sh)"},
          open(f"/verif/seeded/{name}/meta.json","w"),indent=1)
print("WITH:",w[-200:]); print("WITHOUT:",wo[-200:])
PY
rm -f /tmp/keepseed.with /tmp/keepseed.without
