#!/bin/bash
# usage: [JOBS=3] tools/seedmatrix.sh [seed-dir-name ...]   -- for every archived seeded change: apply it to a scratch copy of /repo, run the check of its
# property against that copy (VERIF_REPO / VERIF_OUT: /repo and /verif/evidence are not touched), record which obligations fail -> seeded/MATRIX.json
# (JOBS seeds at a time, each in its own scratch directory)
cd /verif
work=$(mktemp -d /tmp/seedmatrix.XXXXXX)
names=("$@"); if [ ${#names[@]} -eq 0 ]; then names=($(ls seeded | grep -v MATRIX)); fi   # seeds marked "canary": false are included: their exit code is recorded as it is
one() {
  n=$1; work=$2; d=seeded/$n; prop=${n%%-*}; w=$work/$n
  mkdir -p $w/out; cp -r /repo $w/repo; rm -rf $w/repo/.git
  if ! (cd $w/repo && patch -p1 -s --no-backup-if-mismatch < /verif/$d/patch.diff > $w/patch.log 2>&1); then
     echo "{\"seed\": \"$n\", \"property\": \"$prop\", \"applies\": false}" > $work/res.$n.json; rm -rf $w; return; fi
  VERIF_REPO=$w/repo VERIF_OUT=$w/out ./check $prop > $w/chk.out 2>&1; code=$?
  python3 - "$n" "$prop" "$code" "$w" <<'PY' > $work/res.$n.json
import json,sys,glob,os
n,prop,code,w=sys.argv[1:5]
obl=[]
for f in glob.glob(f"{w}/out/replays/{prop}/*.json"):
    d=json.load(open(f)); obl.append({"obligation":d["obligation"],"reproduced_natively":bool(d.get("reproduced_on_real_code"))})
print(json.dumps({"seed":n,"property":prop,"applies":True,"check_exit":int(code),"violations":sorted(obl,key=lambda o:o["obligation"]),
                  "last_line":open(f"{w}/chk.out").read().strip().splitlines()[-1][:200] if os.path.getsize(f"{w}/chk.out") else ""}))
PY
  rm -rf $w
}
export -f one
printf '%s\n' "${names[@]}" | xargs -P ${JOBS:-3} -I{} bash -c 'one {} '"$work"
python3 - "$work" <<'PY'
import json,glob,sys,os
work=sys.argv[1]
new={json.load(open(f))["seed"]:json.load(open(f)) for f in glob.glob(f"{work}/res.*.json")}
p="/verif/seeded/MATRIX.json"
cur={e["seed"]:e for e in json.load(open(p))["seeds"]} if os.path.exists(p) else {}
cur.update(new)
json.dump({"comment":"written by tools/seedmatrix.sh: each seeded change applied to a scratch copy of /repo and checked with the check of its own property",
           "seeds":[cur[k] for k in sorted(cur)]},open(p,"w"),indent=1)
for k in sorted(new): print(k, new[k].get("check_exit"), [o["obligation"].split(":",1)[1][:90] for o in new[k].get("violations",[])][:3], "" if new[k]["applies"] else "PATCH DOES NOT APPLY")
PY
rm -rf $work
