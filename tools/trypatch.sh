#!/bin/bash
# usage: tools/trypatch.sh <patch.diff> <prop id>...  -- apply a patch to a scratch copy of /repo and run the checks against that copy (/repo and /verif/evidence untouched)
p=$1; shift
work=$(mktemp -d /tmp/trypatch.XXXXXX)
cp -r /repo $work/repo; rm -rf $work/repo/.git; mkdir -p $work/out
if ! (cd $work/repo && patch -p1 -s --no-backup-if-mismatch < "$p" > $work/patch.log 2>&1); then echo "PATCH DOES NOT APPLY"; cat $work/patch.log | head -5; rm -rf $work; exit 9; fi
for id in "$@"; do
  VERIF_REPO=$work/repo VERIF_OUT=$work/out /verif/check $id 2>&1 | sed "s#$work/out/##" | cut -c1-220
  echo "exit=${PIPESTATUS[0]}"
  python3 - "$work/out/replays/$id" <<'PY'
import json,glob,sys
for f in sorted(glob.glob(sys.argv[1]+"/*.json")):
    d=json.load(open(f)); print("   ", d["obligation"], "| reproduced natively" if d.get("reproduced_on_real_code") else "")
PY
done
rm -rf $work
