#!/bin/bash
# verify every contract (regression over the whole sidecar); prints only what is not discharged
cd /verif
python3-vt - <<'PY'
import sys; sys.path.insert(0,'/verif')
import specs, multiprocessing as mp, os
S=specs.load_all()
keys=sorted(k for k,c in S.contracts.items() if not c.trusted and not getattr(c,'trusted_summary',False))
from pyvc.driver import _work
repo=os.environ.get("VERIF_REPO","/repo")
with mp.get_context("fork").Pool(16) as pool:
    outs=pool.map(_work,[(k,repo) for k in keys],chunksize=1)
bad=0
for o in outs:
    if o["error"]:
        print("ERROR",o["key"],o["error"][:300]); bad+=1; continue
    names={}
    for r in o["results"]:
        if r["status"]!="unsat":
            names.setdefault((r["name"],r["status"]),0); names[(r["name"],r["status"])]+=1
    for (n,s),k in names.items():
        print(s.upper(),n,"x",k); bad+=1
print(f"{len(keys)} contracts, {bad} problems, slowest:",sorted(((round(o['wall'],1),o['key'].split(':')[-1]) for o in outs),reverse=True)[:6])
PY
