#!/bin/bash
# usage: tools/seedcheck.sh <patch.diff> <prop id>...   applies the patch to /repo, runs the checks, and undoes it straight afterwards
p=$1; shift
git -C /repo apply "$p" || { echo "PATCH DOES NOT APPLY"; exit 9; }
for id in "$@"; do (cd /verif && ./check $id | cut -c1-300; echo "exit=${PIPESTATUS[0]}"); done
git -C /repo checkout -- . 
git -C /repo status --short | head -3
