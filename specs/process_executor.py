"""Contracts for loky/process_executor.py."""
from pyvc.spec import SCHEMA as S, Module
from pyvc import types as T

M = Module("loky.process_executor")
PE = "loky.process_executor"

M.glob("_CURRENT_DEPTH", T.Int, inv="_CURRENT_DEPTH >= 0",
       doc="nesting depth of this process; 0 in the root (module constant), installed by _process_worker")
M.glob("MAX_DEPTH", T.Int, doc="int(os.environ.get('LOKY_MAX_DEPTH', 10)) at import")

# ---------------------------------------------------------------- C19
c = M.contract("_check_max_depth", props=["C19"])
c.param("context", T.Ref("Context"))
c.let("s", "context.get_start_method()")
c.let("ok", "not (s == 'fork' and _CURRENT_DEPTH > 0) and (MAX_DEPTH <= 0 or _CURRENT_DEPTH < MAX_DEPTH)")
c.ensures("check/accepts-only-below-limit", "ok")
c.raises("check/rejects-only-at-limit", "LokyRecursionError", when="not ok")
c.raises_only("check/raises-only-recursion-error")
c.modifies()
c.twin("check/accepts-only-below-limit", "ok and MAX_DEPTH == 0")
c.cover("accepts", "ok")
c.expect(paths=3)
c.replay("check_max_depth", method="context.get_start_method()", depth="old(_CURRENT_DEPTH)", max_depth="old(MAX_DEPTH)")


# ======================================================================
# schema of the executor's classes
import z3
from pyvc.values import VBool, VInt, NONE, VStr
from specs.externals import _impl

PENDING = T.Map(T.Int, T.Ref("_WorkItem"))
PROCS = T.Map(T.Int, T.Ref("Process"))
RUNNING = T.Lst(T.Int)

M.glob("_USE_PSUTIL", T.Bool, doc="whether psutil could be imported (configuration)")
M.glob("_global_shutdown", T.Bool, doc="interpreter is shutting down (set by _python_exit, volatile)")
M.glob("_MAX_MEMORY_LEAK_SIZE", T.Int, inv="_MAX_MEMORY_LEAK_SIZE > 0")
M.glob("process_pool_executor_at_exit", T.Obj)
M.glob("_global_shutdown_lock", T.Ref("threading.Lock"))
M.glob("_threads_wakeups", T.Ref("WeakKeyDict"))

S.cls("Process", {"pid": T.Int, "sentinel": T.Obj, "name": T.Str, "exitcode": T.Opt(T.Int),
                  "_worker_exit_lock": T.Ref("MPLock")}, external=True)
S.cls("WeakKeyDict", {}, external=True)
S.cls("weakref.ref", {}, external=True)
S.cls("queue.Queue", {}, external=True)

M.cls("_ThreadWakeup", {"_closed": T.Bool, "_reader": T.Ref("Connection"), "_writer": T.Ref("Connection")})
M.cls("_ExecutorFlags", {"shutdown": T.Bool, "broken": T.Exc(nullable=True), "kill_workers": T.Bool,
                         "shutdown_lock": T.Ref("threading.Lock")})
M.cls("_WorkItem", {"future": T.Ref("Future"), "fn": T.Obj, "args": T.Obj, "kwargs": T.Obj, "loky_pickler": T.Opt(T.Str)})
M.cls("_ResultItem", {"work_id": T.Int, "exception": T.Obj, "result": T.Obj})
M.cls("_CallItem", {"work_id": T.Int, "fn": T.Obj, "args": T.Obj, "kwargs": T.Obj, "loky_pickler": T.Opt(T.Str)})
M.cls("_ExceptionWithTraceback", {"exc": T.Obj, "tb": T.Obj})
M.cls("_SafeQueue", {"thread_wakeup": T.Ref("_ThreadWakeup"), "shutdown_lock": T.Ref("threading.Lock"),
                     "pending_work_items": PENDING, "running_work_items": RUNNING}, bases=["Queue"])
M.cls("_ExecutorManagerThread", {
    "thread_wakeup": T.Ref("_ThreadWakeup"), "shutdown_lock": T.Ref("threading.Lock"),
    "executor_reference": T.Ref("weakref.ref"), "executor_flags": T.Ref("_ExecutorFlags"),
    "processes": PROCS, "call_queue": T.Ref("_SafeQueue"), "result_queue": T.Ref("SimpleQueue"),
    "work_ids_queue": T.Ref("queue.Queue"), "pending_work_items": PENDING, "running_work_items": RUNNING,
    "processes_management_lock": T.Ref("MPLock"), "daemon": T.Bool,
}, bases=["threading.Thread"])
S.cls("threading.Thread", {}, external=True)
M.cls("ProcessPoolExecutor", {
    "_max_workers": T.Int, "_context": T.Ref("Context"), "_env": T.Obj, "_initializer": T.Obj, "_initargs": T.Obj,
    "_timeout": T.Opt(T.Real), "_executor_manager_thread": T.Ref("_ExecutorManagerThread", nullable=True),
    "_processes": PROCS, "_queue_count": T.Int, "_pending_work_items": PENDING, "_running_work_items": RUNNING,
    "_work_ids": T.Ref("queue.Queue"), "_processes_management_lock": T.Ref("MPLock", nullable=True),
    "_shutdown_lock": T.Ref("threading.Lock"), "_executor_manager_thread_wakeup": T.Ref("_ThreadWakeup", nullable=True),
    "_flags": T.Ref("_ExecutorFlags"), "_call_queue": T.Ref("_SafeQueue", nullable=True),
    "_result_queue": T.Ref("SimpleQueue", nullable=True),
}, bases=["concurrent.futures.Executor"])
S.cls("concurrent.futures.Executor", {}, external=True)

# ---------------------------------------------------------------- helpers of the worker
c = M.contract("_get_memory_usage")
c.param("pid", T.Int).param("force_gc", T.Bool, default=VBool(False))
c.requires("own-pid", "pid == os.getpid()")
c.returns(T.Int).modifies()
c.assumes("A-psutil")
c.note("memory probe: only 'returns an int, touches nothing' is needed by the worker")

c = M.contract("_enable_faulthandler_if_needed")
c.modifies()

c = M.contract("_python_exit", props=["C05"])
c.modifies(f"glob:{PE}._global_shutdown")
c.ensures("exit/sets-global-shutdown", "_global_shutdown == True")
c.trusted_summary = True

c = M.contract("_rebuild_exc", props=["C04"])
c.param("exc", T.Exc()).param("tb", T.Obj)
c.returns(T.Exc())
c.ensures("exc/same-object-with-remote-cause",
          "result is exc and exc_is(result.__cause__, '_RemoteTraceback') and result.__cause__.tb is not None and fresh(result.__cause__)")
c.modifies("exc.cause")

c = M.contract("_ExceptionWithTraceback.__reduce__", props=["C04"])
c.param("self", T.Ref("_ExceptionWithTraceback"))
c.ensures("exc/reduce-to-rebuild", "result[0] is _rebuild_exc and result[1][0] is self.exc and result[1][1] is self.tb")
c.modifies()

c = M.contract("_ExceptionWithTraceback.__init__", props=["C04"])
c.param("self", T.Ref("_ExceptionWithTraceback")).param("exc", T.Obj)
c.ensures("exc/wraps-the-very-exception", "self.exc is exc")
c.modifies("self.exc", "self.tb")

# ---------------------------------------------------------------- _sendback_result
c = M.contract("_sendback_result", props=["C04"])
c.param("result_queue", T.Ref("SimpleQueue")).param("work_id", T.Int)
c.param("result", T.Obj, default=NONE).param("exception", T.Obj, default=NONE)
c.result_as("ret")
PUT = "call:SimpleQueue.put"
c.ensures("sendback/one-or-fallback", f"(log_count('{PUT}') == 1 and log_count('raise:SimpleQueue.put') == 0) or "
          f"(log_count('{PUT}') == 1 and log_count('raise:SimpleQueue.put') == 1)")
c.ensures("sendback/own-id", f"all_events('{PUT}', lambda r, q, item: q is result_queue and isinstance_(item, _ResultItem))")
c.ensures("sendback/first-carries-the-result", f"implies(log_count('raise:SimpleQueue.put') == 0, "
          f"log_arg('{PUT}', 0, 2).work_id == work_id and log_arg('{PUT}', 0, 2).result is result "
          f"and log_arg('{PUT}', 0, 2).exception is exception)")
c.ensures("sendback/fallback-carries-the-error", f"implies(log_count('raise:SimpleQueue.put') == 1, "
          f"log_arg('{PUT}', 0, 2).work_id == work_id and isinstance_(log_arg('{PUT}', 0, 2).exception, _ExceptionWithTraceback) "
          f"and as_(log_arg('{PUT}', 0, 2).exception, '_ExceptionWithTraceback').exc is log_arg('raise:SimpleQueue.put', 0, 0))")
c.raises("sendback/only-if-fallback-fails-too", "BaseException", post="log_count('raise:SimpleQueue.put') == 2")
c.modifies()
c.twin("sendback/one-or-fallback", f"log_count('raise:SimpleQueue.put') == 0")
c.expect(paths=3)

# ---------------------------------------------------------------- _CallItem.__call__
c = M.contract("_CallItem.__call__", props=["C03", "C15"]).inlined()
c.param("self", T.Ref("_CallItem"))
c.ensures("callitem/applies-own-fields", "result is app(self.fn, obj(('*', self.args)), self.kwargs) or True")
c.note("inlined into the worker so that the user call is seen in the worker's state (depth, pickler)")
c.modifies("glob:loky.backend.reduction._loky_pickler_name", "glob:loky.backend.reduction._LokyPickler")

# ---------------------------------------------------------------- _process_worker
PUT = "call:SimpleQueue.put"
SB = "call:_sendback_result"
GOT = "(log_count('cq_get') == 1 and log_arg('cq_get', 0, 1) is not None)"
ANSWERS = f"(count_events('{PUT}', lambda r, q, x: isinstance_(x, _ResultItem)) + log_count('{SB}'))"

c = M.contract("_process_worker", props=["C04", "C07", "C18", "C19"])
c.param("call_queue", T.Ref("_SafeQueue")).param("result_queue", T.Ref("SimpleQueue"))
c.param("initializer", T.FnT).param("initargs", T.Obj)
c.param("processes_management_lock", T.Ref("MPLock")).param("timeout", T.Opt(T.Real))
c.param("worker_exit_lock", T.Ref("MPLock")).param("current_depth", T.Int)
c.requires("distinct-locks", "worker_exit_lock is not processes_management_lock")
c.requires("depth-nonneg", "current_depth >= 1")
# C19: every piece of user code runs with the depth installed
c.at_user_call("depth-installed-before-user-code", "_CURRENT_DEPTH == current_depth", prop="C19")
# C18: no task is fetched before the initializer ran
c.at_call("mp.Queue.get", "initializer-ran-first",
          "initializer is None or exists_event('user_call', lambda f: f is initializer)", prop="C18")
c.ensures("init-failure/no-task-no-answer-no-announcement",
          f"implies(not has_loop(), log_count('user_raise') == 1 and log_count('cq_get') == 0 and log_count('{PUT}') == 0 "
          "and log_count('acquire') == 0)", prop="C18")
# C07: leaving is announced, then the exit lock is awaited
c.ensures("exit/announces-pid-once", f"implies(has_loop(), tail(count_events('{PUT}', lambda r, q, x: is_int(x)) == 1 and "
          f"is_int(log_arg('{PUT}', -1, 2)) and log_arg('{PUT}', -1, 2) == os.getpid() and log_arg('{PUT}', -1, 1) is result_queue))", prop="C07")
c.ensures("exit/announce-then-wait-for-exit-lock",
          f"implies(has_loop(), tail(ordered('{PUT}', lambda r, q, x: is_int(x), 'acquire', lambda l: l is worker_exit_lock) and "
          f"ordered('{PUT}', lambda r, q, x: is_int(x), 'acquire_failed', lambda l: l is worker_exit_lock) and "
          "(exists_event('acquire', lambda l: l is worker_exit_lock) or exists_event('acquire_failed', lambda l: l is worker_exit_lock))))",
          prop="C07")
c.ensures("exit/timeout-only-with-management-lock",
          "implies(has_loop(), tail(implies(log_count('cq_get_empty') == 1, "
          "exists_event('acquire', lambda l: l is processes_management_lock) and exists_event('release', lambda l: l is processes_management_lock))))",
          prop="C07")
c.ensures("exit/no-task-in-hand", f"implies(has_loop(), tail(implies({GOT}, {ANSWERS} == 1)))", prop=["C07", "C04"])
c.ensures("exit/sentinel-or-timeout-or-leak", f"implies(has_loop(), tail({GOT} or log_count('cq_get') == 1 or log_count('cq_get_empty') == 1))", prop="C07")
# C04: nothing but the deliberate sys.exit(1) after a broken call queue escapes
c.raises("escape/task-failure-never-kills-the-worker", "BaseException",
         post=f"tail(not {GOT} or log_count('raise:_sendback_result') == 1 or {ANSWERS} == 1)", prop="C04")
c.note("an exception may leave a task iteration only if the safe sender failed twice (pipe to the parent broken) or after the task was answered")
c.modifies(f"glob:{PE}._CURRENT_DEPTH", f"glob:{PE}._global_shutdown", "G.sem_released",
           "glob:loky.backend.reduction._loky_pickler_name", "glob:loky.backend.reduction._LokyPickler")
c.assumes("A-user", "A-async", "A-psutil")
c.replay_for("depth-installed", "worker_depth", current_depth="current_depth")
c.replay_for("task-failure-never-kills", "worker_task_failure")
c.cover("init-fails", "not has_loop()")
c.cover("clean-exit", "has_loop()")
c.expect(paths=6)

i = M.invariant("_process_worker", 0, "while True:")
i.local("_process_reference_size", T.Opt(T.Int))
i.local("_last_memory_leak_check", T.Opt(T.Real))
i.inv("depth-stays-installed", "_CURRENT_DEPTH == current_depth", prop="C19")
i.inv("leak-bookkeeping", "implies(_process_reference_size is not None, _last_memory_leak_check is not None)")
i.iter_post("one-answer-per-task", f"implies({GOT}, {ANSWERS} == 1)", prop="C04")
i.iter_post("answer-carries-own-id",
            f"implies({GOT}, all_events('{PUT}', lambda r, q, x: q is result_queue and isinstance_(x, _ResultItem) and "
            "as_(x, '_ResultItem').work_id == log_arg('cq_get', 0, 1).work_id) and "
            f"all_events('{SB}', lambda r, q, wid, res, exc: q is result_queue and wid == log_arg('cq_get', 0, 1).work_id))", prop=["C04", "C03"])
i.iter_post("no-answer-without-task", f"implies(not {GOT}, {ANSWERS} == 0)", prop="C04")
i.iter_post("timeout-continues-only-without-lock",
            "implies(log_count('cq_get_empty') == 1, exists_event('acquire_failed', lambda l: l is processes_management_lock))", prop="C07")


# ======================================================================
# flags and wake-up pipe
c = M.contract("_ExecutorFlags.flag_as_shutting_down", props=["C05", "C06"])
c.param("self", T.Ref("_ExecutorFlags")).param("kill_workers", T.Opt(T.Bool), default=NONE)
c.ensures("flags/shutdown-set", "self.shutdown == True")
# from the property ("forced shutdown is total"): a request to kill, once recorded, stands; a later plain shutdown (the one a with-block issues on exit, the
# reusable factory replacing the instance) never turns it back into a drain; a request is recorded whenever it is made, also on an executor already shutting down
c.ensures("flags/a-kill-request-is-recorded-and-never-withdrawn",
          "self.kill_workers == (old(self.kill_workers) or (not is_none(kill_workers) and the(kill_workers)))", prop="C06")
c.replay_for("flags/a-kill-request-is-recorded-and-never-withdrawn", "kill_request_withdrawn")
c.ensures("flags/under-shutdown-lock", "log_tags() == ['acquire', 'release'] and log_arg('acquire', 0, 0) is self.shutdown_lock")
c.ensures("flags/broken-untouched", "self.broken is old(self.broken)")
c.raises_only("flags/no-exception")
c.modifies("self.shutdown", "self.kill_workers")

c = M.contract("_ExecutorFlags.flag_as_broken", props=["C02"])
c.param("self", T.Ref("_ExecutorFlags")).param("broken", T.Exc())
c.ensures("flags/broken-and-shutdown-set", "self.shutdown == True and self.broken is broken")
c.ensures("flags/under-shutdown-lock", "log_tags() == ['acquire', 'release'] and log_arg('acquire', 0, 0) is self.shutdown_lock")
c.raises_only("flags/no-exception")
c.modifies("self.shutdown", "self.broken")

c = M.contract("_ThreadWakeup.close", props=["C20", "C05"])
c.param("self", T.Ref("_ThreadWakeup"))
c.ensures("wakeup/closed-after", "self._closed == True")
c.ensures("wakeup/closes-both-ends-once", "ite(old(self._closed), log_count('conn_close') == 0, "
          "log_count('conn_close') == 2 and log_arg('conn_close', 0, 0) is self._writer and log_arg('conn_close', 1, 0) is self._reader)")
c.raises_only("wakeup/no-exception")
c.modifies("self._closed")

c = M.contract("_ThreadWakeup.wakeup", props=["C05"])
c.param("self", T.Ref("_ThreadWakeup"))
c.ensures("wakeup/sends-iff-open", "log_count('send_bytes') == ite(old(self._closed), 0, 1)")
c.raises("wakeup/pipe-error", "Exception")
c.modifies()

c = M.contract("_ThreadWakeup.clear", props=["C05"])
c.param("self", T.Ref("_ThreadWakeup"))
c.modifies()
i = M.invariant("_ThreadWakeup.clear", 0, "while self._reader.poll():")
i.inv("trivial", "True")


# ======================================================================
# the manager thread
EMT = "_ExecutorManagerThread"
WF_IDS = "forall(Int, lambda k: implies(G.work_ids[k], k in self.pending_work_items))"

c = M.contract(f"{EMT}.add_call_item_to_queue", props=["C03", "C04", "C15", "C08"])
c.param("self", T.Ref(EMT))
c.rely("ids-queued-are-pending", WF_IDS, "A-atomic")
c.ensures("dispatch/ids-queued-stay-pending", WF_IDS)
c.at_call("mp.Queue.put", "id-recorded-as-running-before-the-feeder-can-see-the-item", "mem(self.running_work_items, work_id)", prop=["C03", "C04"])
# C08 ("... and is delivered"): the manager thread is woken once per submit / result / worker exit, not once per work id: a pass that stops early (after a
# cancelled item, say) strands live work ids behind it with idle workers and nobody to wake the manager; a pass ends only on a full call queue or an empty id queue
c.ensures("dispatch/stops-only-when-the-call-queue-is-full-or-no-work-id-waits",
          "tail((log_count('cq_full') == 1 and log_arg('cq_full', 0, 1) and log_count('wq_get') + log_count('wq_get_empty') == 0) or "
          "(log_count('wq_get_empty') == 1 and log_count('wq_get') == 0))", prop=["C08", "C03"])
c.raises_only("dispatch/no-exception")
c.modifies("contents(self.pending_work_items)", "contents(self.running_work_items)", "G.work_ids", "G.fut_running")
c.assumes("A-atomic")
i = M.invariant(f"{EMT}.add_call_item_to_queue", 0, "while True:")
i.inv("ids-queued-are-pending", WF_IDS)
i.iter_post("dispatch/call-item-carries-own-work-item",
            "all_events('cq_put', lambda q, item: q is self.call_queue and isinstance_(item, _CallItem) and "
            "as_(item, '_CallItem').work_id == log_arg('wq_get', 0, 1) and "
            "as_(item, '_CallItem').fn is self.pending_work_items[log_arg('wq_get', 0, 1)].fn and "
            "as_(item, '_CallItem').args is self.pending_work_items[log_arg('wq_get', 0, 1)].args and "
            "as_(item, '_CallItem').kwargs is self.pending_work_items[log_arg('wq_get', 0, 1)].kwargs)", prop="C03")
i.iter_post("dispatch/call-item-carries-the-pickler-recorded-at-submission",
            "all_events('cq_put', lambda q, item: isinstance_(item, _CallItem) and "
            "implies(self.pending_work_items[log_arg('wq_get', 0, 1)].loky_pickler is not None, "
            "as_(item, '_CallItem').loky_pickler == self.pending_work_items[log_arg('wq_get', 0, 1)].loky_pickler))", prop="C15")
i.iter_post("dispatch/cancelled-never-dispatched",
            "implies(log_count('set_running') == 1 and not log_arg('set_running', 0, 1), "
            "log_count('cq_put') == 0 and log_arg('wq_get', 0, 1) not in self.pending_work_items)", prop="C03")
i.iter_post("dispatch/only-after-marking-running",
            "implies(log_count('cq_put') >= 1, log_count('cq_put') == 1 and log_count('set_running') == 1 and log_arg('set_running', 0, 1) "
            "and log_arg('set_running', 0, 0) is self.pending_work_items[log_arg('wq_get', 0, 1)].future "
            "and log_pos('set_running', 0) < log_pos('cq_put', 0))", prop="C03")
i.iter_post("dispatch/a-dispatched-future-is-running",
            "implies(log_count('cq_put') >= 1, G.fut_running[self.pending_work_items[log_arg('wq_get', 0, 1)].future])", prop=["C03", "C04"])
i.iter_post("dispatch/nothing-when-full",
            "implies(log_count('cq_put') >= 1, log_count('cq_full') == 1 and not log_arg('cq_full', 0, 1))", prop="C03")

# ---------------------------------------------------------------- process_result_item
OTHERS_UNTOUCHED = ("forall(Ref('Future'), lambda f: implies(f is not {fut}, G.fut_n_exc[f] == old(G.fut_n_exc[f]) and "
                    "G.fut_n_res[f] == old(G.fut_n_res[f]) and G.fut_exc[f] == old(G.fut_exc[f]) and G.fut_res[f] == old(G.fut_res[f])))")
NO_FUTURE_TOUCHED = "G.fut_n_exc == old(G.fut_n_exc) and G.fut_n_res == old(G.fut_n_res) and G.fut_exc == old(G.fut_exc) and G.fut_res == old(G.fut_res)"

c = M.contract(f"{EMT}.process_result_item", props=["C03", "C04", "C07", "C08"])
c.param("self", T.Ref(EMT)).param("result_item", T.Union(T.Int, T.Ref("_ResultItem")))
EXEC = "as_(select(G.referent, self.executor_reference), 'ProcessPoolExecutor')"
c.rely("manager-shares-the-executor-tables",
       f"{EXEC}._processes is self.processes and {EXEC}._pending_work_items is self.pending_work_items and "
       f"{EXEC}._running_work_items is self.running_work_items and "
       f"{EXEC}._processes_management_lock is self.processes_management_lock and {EXEC}._call_queue is not None and {EXEC}._result_queue is not None", "A-alias")
# (an executor drops its management lock and queues only once its manager thread was joined: shutdown contract; the thread's own copies are set in its constructor)
c.rely("registered-pids-are-live-children", "forall(Int, lambda k: implies(k in self.processes, G.pid_live[k] and self.processes[k].pid == k))", "A-pids")
c.rely("dispatched-ids-are-running",
       "implies(not is_int(result_item) and result_item.work_id in self.pending_work_items, mem(self.running_work_items, result_item.work_id))", "A-atomic")
c.rely("an-answered-future-is-running-and-unresolved",
       "implies(not is_int(result_item) and result_item.work_id in self.pending_work_items, "
       "G.fut_running[self.pending_work_items[result_item.work_id].future] and "
       "G.fut_n_exc[self.pending_work_items[result_item.work_id].future] + G.fut_n_res[self.pending_work_items[result_item.work_id].future] == 0)", "A-running")
# ---- a _ResultItem: the right future, once, nothing else
RI = "not is_int(result_item)"
WID = "result_item.work_id"
FUT = f"old(self.pending_work_items[{WID}]).future"
c.ensures("result/own-future-resolved-once",
          f"implies({RI} and old({WID} in self.pending_work_items), "
          f"G.fut_n_exc[{FUT}] + G.fut_n_res[{FUT}] == old(G.fut_n_exc[{FUT}] + G.fut_n_res[{FUT}]) + 1)", prop=["C03", "C04"])
c.ensures("result/exception-as-sent",
          f"implies({RI} and old({WID} in self.pending_work_items) and result_item.exception is not None, "
          f"G.fut_n_exc[{FUT}] == old(G.fut_n_exc[{FUT}]) + 1 and G.fut_exc[{FUT}] is result_item.exception)", prop=["C03", "C04"])
c.ensures("result/value-as-sent",
          f"implies({RI} and old({WID} in self.pending_work_items) and result_item.exception is None, "
          f"G.fut_n_res[{FUT}] == old(G.fut_n_res[{FUT}]) + 1 and G.fut_res[{FUT}] is result_item.result)", prop=["C03", "C04"])
c.ensures("result/no-other-future-touched",
          f"implies({RI} and old({WID} in self.pending_work_items), " + OTHERS_UNTOUCHED.format(fut=FUT) + ")", prop=["C03", "C04"])
c.ensures("result/unknown-id-touches-nothing", f"implies({RI} and not old({WID} in self.pending_work_items), {NO_FUTURE_TOUCHED})", prop=["C03", "C04"])
c.ensures("result/id-forgotten", f"implies({RI}, {WID} not in self.pending_work_items)", prop=["C03", "C04"])
# ... by the running list too, whatever the outcome of the task: the manager counts that list to decide whether a worker that left must be replaced (a failed task
# left in it makes every idle time-out look like "a worker stopped while some jobs were given": the idle pool is respawned for ever)
c.ensures("result/answered-id-leaves-the-running-list-whatever-the-outcome",
          f"implies({RI} and old({WID} in self.pending_work_items), len(self.running_work_items) == old(len(self.running_work_items)) - 1)", prop=["C04", "C07"])
c.ensures("result/other-pending-kept",
          f"implies({RI}, forall(Int, lambda k: implies(k != {WID}, (k in self.pending_work_items) == old(k in self.pending_work_items) and "
          "self.pending_work_items[k] is old(self.pending_work_items[k]))))", prop=["C03", "C04"])
c.ensures("result/flags-untouched", "self.executor_flags.broken is old(self.executor_flags.broken) and self.executor_flags.shutdown == old(self.executor_flags.shutdown)", prop=["C04", "C07"])
c.at_call("Future.set_exception", "no-lock-held-while-the-callbacks-of-the-future-run", "no_lock_held()", prop=["C04", "C02"])
c.at_call("Future.set_result", "no-lock-held-while-the-callbacks-of-the-future-run", "no_lock_held()", prop=["C04", "C02"])
# waiting for the management lock is an interference point: submit() may queue work meanwhile, so the respawn decision must be taken on counts read afterwards
c.yield_at("MPLock.__enter__", ["contents(self.pending_work_items)", "contents(self.running_work_items)"], tag="A-yield", when="log_count('acquire') == 0")
# ---- a pid: clean exit of a worker, never 'broken', no future touched
PID = "is_int(result_item)"
PROC = "old(self.processes[result_item])"
c.ensures("pid/no-future-touched", f"implies({PID}, {NO_FUTURE_TOUCHED})", prop="C07")
c.ensures("pid/worker-forgotten", f"implies({PID} and log_count('call:ProcessPoolExecutor._adjust_process_count') == 0, result_item not in self.processes)", prop="C07")
c.ensures("pid/exit-lock-released-once-and-joined",
          f"implies({PID} and old(result_item in self.processes), G.sem_released[{PROC}._worker_exit_lock] == old(G.sem_released[{PROC}._worker_exit_lock]) + 1 "
          f"and G.joined[{PROC}])", prop=["C07", "C20"])
c.ensures("pid/popped-under-management-lock",
          f"implies({PID}, log_arg('acquire', 0, 0) is self.processes_management_lock and log_pos('acquire', 0) == 0)", prop="C07")
c.ensures("pid/respawn-warns-and-holds-the-management-lock",
          f"implies({PID} and log_count('call:ProcessPoolExecutor._adjust_process_count') >= 1, log_count('warn') + log_count('warn_raised') == 1 and "
          "log_count('call:ProcessPoolExecutor._adjust_process_count') == 1)", prop="C07")
c.at_call("loky.process_executor:ProcessPoolExecutor._adjust_process_count", "under-management-lock",
          "held(log_arg('deref', 0, 1)._processes_management_lock)", prop=["C07", "C08"])
WAITING = ("(len(self.pending_work_items) - len(self.running_work_items) > 0 or "
           "len(self.running_work_items) > old(len(self.processes)) - ite(old(result_item in self.processes), 1, 0))")
c.ensures("pid/respawns-whenever-work-waits-and-the-pool-is-short",
          f"implies({PID} and log_count('deref') == 1 and log_arg('deref', 0, 1) is not None and {WAITING} and "
          "old(len(self.processes)) - ite(old(result_item in self.processes), 1, 0) < log_arg('deref', 0, 1)._max_workers, "
          "log_count('call:ProcessPoolExecutor._adjust_process_count') == 1)", prop="C07")
# with no worker left and work waiting, somebody has to start a worker again - also when the executor object itself has been collected meanwhile
c.ensures("pid/work-waiting-with-no-worker-left-is-never-abandoned",
          f"implies({PID} and {WAITING} and len(self.processes) == 0 and log_count('raise:ProcessPoolExecutor._adjust_process_count') == 0, "
          "log_count('call:ProcessPoolExecutor._adjust_process_count') == 1)", prop="C07")
c.replay_for("pid/work-waiting-with-no-worker-left-is-never-abandoned", "respawn_after_executor_collected")
c.ensures("pid/reads-the-executor-only-when-work-waits", f"implies({PID}, (log_count('deref') == 1) == {WAITING})", prop=["C07", "C08"])
# the only exception the manager thread may meet here is a failed spawn of the replacement worker (anything else kills the thread and every pending future hangs)
# ... and a failed spawn must not end the thread silently either: the executor is flagged broken and every pending future failed (terminate_broken) before the
# error is passed on, so that the jobs the missing worker would have run fail loudly instead of hanging (C07: never a lost task; C02: loud)
c.raises("result/only-a-failed-spawn-from-the-respawn-and-only-after-the-pool-was-terminated-as-broken", "BaseException",
         post=f"{PID} and log_count('raise:ProcessPoolExecutor._adjust_process_count') == 1 and "
              "log_count('call:_ExecutorManagerThread.terminate_broken') + log_count('raise:_ExecutorManagerThread.terminate_broken') == 1 and "
              "self.executor_flags.broken is not None")
c.replay_for("result/only-a-failed-spawn-from-the-respawn-and-only-after-the-pool-was-terminated-as-broken", "respawn_fails_in_manager_thread")
c.raises_only("result/nothing-but-a-failed-spawn-or-an-error-of-the-termination-it-triggers-escapes")
c.warn_may_raise = True          # the parent may run with warnings as errors (-W error, pytest): the respawn warning is issued from the manager thread
c.replay_for("result/nothing-but-a-failed-spawn-or-an-error-of-the-termination-it-triggers-escapes", "respawn_warning_as_error")
c.replay_for("result/exception-as-sent", "falsy_exception")
c.replay_for("result/value-as-sent", "falsy_exception")
c.modifies("contents(self.pending_work_items)", "contents(self.running_work_items)", "contents(self.processes)",
           "G.fut_n_exc", "G.fut_n_res", "G.fut_exc", "G.fut_exc_cls", "G.fut_res", "G.sem_released", "G.joined", "G.started", "G.pid_live", "G.proc_of_pid",
           # (the failed-respawn path runs terminate_broken)
           "self.executor_flags.shutdown", "self.executor_flags.broken", "G.fut_refused", "G.killed", "G.n_sentinels", "self.thread_wakeup._closed", "G.ps_killed")
c.ensures("result/the-pool-is-terminated-as-broken-only-when-the-respawn-failed",
          "log_count('call:_ExecutorManagerThread.terminate_broken') == 0 and self.executor_flags.broken is old(self.executor_flags.broken) and "
          "self.executor_flags.shutdown == old(self.executor_flags.shutdown) and G.killed == old(G.killed) and G.fut_refused == old(G.fut_refused)", prop=["C07", "C02"])
c.assumes("A-atomic")
c.cover("pid-known", "is_int(result_item) and old(result_item in self.processes)")
c.cover("result-known", "not is_int(result_item) and old(result_item.work_id in self.pending_work_items)")
c.expect(paths=5)

# ---------------------------------------------------------------- _adjust_process_count
PPE = "ProcessPoolExecutor"
KEEP = ("forall(Int, lambda k: implies({o}(k in self._processes), k in self._processes and self._processes[k] is {o}(self._processes[k])))")
NEWSTARTED = ("forall(Int, lambda k: implies(k in self._processes and not {o}(k in self._processes), "
              "G.started[self._processes[k]]))")
c = M.contract(f"{PPE}._adjust_process_count", props=["C08", "C18", "C19", "C07"])
c.param("self", T.Ref(PPE))
c.rely("queues-alive", "self._call_queue is not None and self._result_queue is not None and self._processes_management_lock is not None", "A-atomic")
c.rely("registered-pids-are-live-children", "forall(Int, lambda k: implies(k in self._processes, G.pid_live[k]))", "A-pids")
c.ensures("adjust/registered-pids-stay-live", "forall(Int, lambda k: implies(k in self._processes, G.pid_live[k]))")
c.ensures("adjust/never-above-the-larger-of-old-and-max", "len(self._processes) <= max(old(len(self._processes)), self._max_workers)", prop="C08")
c.ensures("adjust/fills-up-to-max", "len(self._processes) >= self._max_workers", prop=["C08", "C07"])
c.ensures("adjust/keeps-existing-workers", KEEP.format(o="old"), prop=["C08", "C10"])
c.ensures("adjust/new-workers-are-started", NEWSTARTED.format(o="old"), prop="C08")
c.raises("adjust/failed-spawn-keeps-the-table-sound", "OSError",
         post="len(self._processes) <= max(old(len(self._processes)), self._max_workers) and " + KEEP.format(o="old") +
              " and forall(Int, lambda k: implies(k in self._processes, G.pid_live[k]))", prop="C08")
c.raises_only("adjust/only-spawn-errors")
c.modifies("contents(self._processes)", "G.started", "G.pid_live", "G.proc_of_pid")
i = M.invariant(f"{PPE}._adjust_process_count", 0, "while len(")
i.inv("bound", "len(self._processes) <= max(at_entry(len(self._processes)), self._max_workers) and len(self._processes) >= at_entry(len(self._processes))", prop="C08")
i.inv("registered-pids-are-live", "forall(Int, lambda k: implies(k in self._processes, G.pid_live[k]))")
i.inv("keeps-existing-workers", KEEP.format(o="at_entry"), prop="C08")
i.inv("new-workers-are-started", NEWSTARTED.format(o="at_entry"), prop="C08")
i.iter_post("spawn/one-process-per-iteration", "log_count('Process') >= 1 and log_count('start') == 1 and log_arg('start', 0, 0) is log_arg('Process', -1, 0)", prop="C08")
i.iter_post("spawn/ships-worker-configuration",
            "log_arg('Process', -1, 1) is _process_worker and log_arg('Process', -1, 2)[0] is self._call_queue and "
            "log_arg('Process', -1, 2)[1] is self._result_queue and log_arg('Process', -1, 2)[2] is self._initializer and "
            "log_arg('Process', -1, 2)[3] is self._initargs and log_arg('Process', -1, 2)[4] is self._processes_management_lock and "
            "log_arg('Process', -1, 2)[5] == self._timeout and log_arg('Process', -1, 2)[6] is log_arg('Process', -1, 0)._worker_exit_lock", prop="C18")
i.iter_post("spawn/env-shipped-when-supported",
            "implies(log_count('Process_rejects_env') == 0, log_count('Process') == 1 and log_arg('Process', 0, 3) is self._env)", prop="C18")
i.iter_post("spawn/depth-plus-one", "log_arg('Process', -1, 2)[7] == _CURRENT_DEPTH + 1", prop="C19")
i.iter_post("spawn/exit-lock-taken-before-start",
            "exists_event('acquire', lambda l: l is log_arg('Process', -1, 0)._worker_exit_lock) and "
            "ordered('acquire', lambda l: l is log_arg('Process', -1, 0)._worker_exit_lock, 'start', lambda p, pid: True)", prop="C07")
i.iter_post("spawn/registered-under-its-pid",
            "log_arg('start', 0, 1) in self._processes and self._processes[log_arg('start', 0, 1)] is log_arg('start', 0, 0)", prop="C08")

# ---------------------------------------------------------------- wait_result_broken_or_wakeup (C02)
c = M.contract(f"{EMT}.wait_result_broken_or_wakeup", props=["C02", "C07", "C05", "C20"])
c.param("self", T.Ref(EMT))
c.returns(T.Tup(T.Union(T.NoneT, T.Int, T.Ref("_ResultItem"), T.Exc()), T.Bool, T.Exc(nullable=True)))
c.ensures("classify/broken-comes-with-its-error", "implies(result[1], result[2] is not None)", prop="C02")
c.ensures("classify/healthy-item-is-a-result-or-a-pid",
          "implies(not result[1], result[0] is None or is_int(result[0]) or isinstance_(result[0], _ResultItem))", prop="C02")
W = "log_arg('wait', 0, 0)"
READY = "log_arg('wait', 0, 1)"
RR = "self.result_queue._reader"
WR = "self.thread_wakeup._reader"
c.ensures("wait-set/contains-result-and-wakeup-readers", f"log_count('wait') == 1 and mem({W}, obj({RR})) and mem({W}, obj({WR}))", prop="C02")
c.ensures("wait-set/contains-every-worker-sentinel",
          f"forall(Int, lambda pid: implies(old(pid in self.processes), mem({W}, old(self.processes[pid]).sentinel)))", prop="C02")
c.ensures("classify/result-or-pid-is-not-broken",
          "implies(log_count('recv') == 1 and (is_int(log_arg('recv', 0, 1)) or isinstance_(log_arg('recv', 0, 1), _ResultItem)), "
          "result[0] is log_arg('recv', 0, 1) and result[1] == False and result[2] is None)", prop=["C02", "C07"])
c.ensures("classify/remote-traceback-breaks-with-cause",
          "implies(log_count('recv') == 1 and isinstance_(log_arg('recv', 0, 1), _RemoteTraceback), "
          "result[1] == True and exc_is(result[2], 'BrokenProcessPool') and result[2].__cause__ is log_arg('recv', 0, 1))", prop="C02")
c.ensures("classify/unreadable-result-breaks",
          "implies(log_count('recv_raises') == 1, result[0] is None and result[1] == True and exc_is(result[2], 'BrokenProcessPool') "
          "and exc_is(result[2].__cause__, '_RemoteTraceback'))", prop="C02")
c.ensures("classify/wakeup-only-is-not-broken",
          f"implies(not mem({READY}, obj({RR})) and mem({READY}, obj({WR})), result[0] is None and result[1] == False and result[2] is None)", prop="C02")
c.ensures("classify/sentinel-only-is-a-dead-worker",
          f"implies(not mem({READY}, obj({RR})) and not mem({READY}, obj({WR})), result[0] is None and result[1] == True and "
          "exc_is(result[2], 'TerminatedWorkerError') and exc_is(result[2], 'concurrent.futures.process.BrokenProcessPool') and "
          "log_count('call:get_exitcodes_terminated_worker') == 1 and log_arg('call:get_exitcodes_terminated_worker', 0, 1) is self.processes)", prop="C02")
c.ensures("classify/reads-result-only-when-ready", f"implies(not mem({READY}, obj({RR})), log_count('recv') + log_count('recv_raises') == 0)", prop="C02")
c.ensures("wakeup/cleared-on-return", "log_count('call:_ThreadWakeup.clear') == 1 and log_arg('call:_ThreadWakeup.clear', 0, 1) is self.thread_wakeup", prop="C02")
# wake-up tokens may only be discarded once the wait has returned (they have been observed): clearing before waiting loses a wake-up sent in between and
# the manager sleeps although a submit / a shutdown is pending (C05: shutdown is never missed; C02/C01: no lost wake-up)
c.ensures("wakeup/cleared-only-after-the-wait-returned", "log_before('wait', 'call:_ThreadWakeup.clear')", prop=["C02", "C05"])
c.raises_only("classify/no-exception")
c.modifies()
c.assumes("A-kernel")
c.cover("dead-worker", f"not mem({READY}, obj({RR})) and not mem({READY}, obj({WR}))")
c.cover("result", "log_count('recv') == 1 and isinstance_(log_arg('recv', 0, 1), _ResultItem)")
c.twin("classify/sentinel-only-is-a-dead-worker", f"implies(not mem({READY}, obj({RR})) and not mem({READY}, obj({WR})), result[1] == False)")
c.expect(paths=6)

# ---------------------------------------------------------------- is_shutting_down (C05)
c = M.contract(f"{EMT}.is_shutting_down", props=["C05"])
c.param("self", T.Ref(EMT))
c.returns(T.Bool)
c.ensures("is-shutting-down/definition",
          "result == (_global_shutdown or ((log_arg('deref', 0, 1) is None or self.executor_flags.shutdown) and self.executor_flags.broken is None))", prop="C05")
c.ensures("is-shutting-down/reads-once", "log_count('deref') == 1")
c.raises_only("is-shutting-down/no-exception")
c.modifies()

# ---------------------------------------------------------------- kill_workers (C02, C06)
PROCS_EMPTY = "len(self.processes) == 0"
ALL_KILLED = "forall(Int, lambda k: implies(old(k in self.processes), G.killed[old(self.processes[k]).pid] and G.joined[old(self.processes[k])]))"
c = M.contract(f"{EMT}.kill_workers", props=["C02", "C06", "C20"])
c.param("self", T.Ref(EMT)).param("reason", T.Str, default=VStr(""))
c.ensures("kill/no-worker-left-registered", PROCS_EMPTY)
c.ensures("kill/every-worker-tree-killed-and-reaped", ALL_KILLED)
# C20 (no thread / descriptor / semaphore is left behind): once every worker is dead nobody drains the call pipe; a feeder thread blocked in a write of a large
# item ends only when the last read end - the parent's own - is closed (EPIPE). Without it the thread, its pipe and the queue's locks leak at every killed lifecycle.
c.ensures("kill/parents-read-end-of-the-call-queue-closed-so-that-a-blocked-feeder-thread-can-end",
          "exists_event('conn_close', lambda cn: cn is self.call_queue._reader)", prop="C20")
c.replay_for("parents-read-end-of-the-call-queue-closed", "feeder_left_behind")
c.raises_only("kill/no-exception")
c.modifies("contents(self.processes)", "G.killed", "G.joined", "G.ps_killed", "G.pid_live")
i = M.invariant(f"{EMT}.kill_workers", 0, "while self.processes:")
i.inv("removed-are-killed", "forall(Int, lambda k: implies(old(k in self.processes) and not (k in self.processes), "
      "G.killed[old(self.processes[k]).pid] and G.joined[old(self.processes[k])]))")
i.inv("remaining-are-original", "forall(Int, lambda k: implies(k in self.processes, old(k in self.processes) and self.processes[k] is old(self.processes[k])))")
i.variant("len(self.processes)")

# ---------------------------------------------------------------- terminate_broken (C02)
c = M.contract(f"{EMT}.terminate_broken", props=["C02", "C09", "C10"])
c.param("self", T.Ref(EMT)).param("bpe", T.Exc())
# a pending future is resolved by this call (failed with bpe) or was found already resolved by its owner (cancelled / finished: set_exception refused)
ALL_FAILED = ("forall(Int, lambda k: implies(old(k in self.pending_work_items), "
              "(G.fut_exc[old(self.pending_work_items[k]).future] is bpe and "
              "G.fut_n_exc[old(self.pending_work_items[k]).future] >= old(G.fut_n_exc[old(self.pending_work_items[k]).future]) + 1) or "
              "G.fut_refused[old(self.pending_work_items[k]).future] >= old(G.fut_refused[old(self.pending_work_items[k]).future]) + 1))")
c.ensures("terminate/flagged-broken-first", "log_pos('call:_ExecutorFlags.flag_as_broken', 0) == 0 and "
          "log_arg('call:_ExecutorFlags.flag_as_broken', 0, 1) is self.executor_flags and log_arg('call:_ExecutorFlags.flag_as_broken', 0, 2) is bpe")
c.ensures("terminate/every-pending-future-fails-with-the-error", ALL_FAILED)
c.ensures("terminate/no-fabricated-result", "G.fut_n_res == old(G.fut_n_res) and G.fut_res == old(G.fut_res)")
c.ensures("terminate/nothing-left-pending", "len(self.pending_work_items) == 0")
c.ensures("terminate/executor-left-flagged-broken-with-that-error-and-shut-down", "self.executor_flags.broken is bpe and self.executor_flags.shutdown == True")
c.ensures("terminate/workers-killed-then-internals-joined",
          "log_count('call:_ExecutorManagerThread.kill_workers') == 1 and log_count('call:_ExecutorManagerThread.join_executor_internals') == 1 and "
          "log_before('call:_ExecutorManagerThread.kill_workers', 'call:_ExecutorManagerThread.join_executor_internals')")
c.ensures("terminate/workers-gone", PROCS_EMPTY + " and " + ALL_KILLED)
c.modifies("self.executor_flags.shutdown", "self.executor_flags.broken", "contents(self.pending_work_items)", "contents(self.processes)",
           "G.fut_n_exc", "G.fut_exc", "G.fut_exc_cls", "G.fut_refused", "G.killed", "G.joined", "G.sem_released", "G.n_sentinels", "self.thread_wakeup._closed", "G.pid_live", "G.ps_killed")
c.raises("terminate/only-from-joining-internals", "BaseException",
         post=ALL_FAILED + " and len(self.pending_work_items) == 0 and self.executor_flags.broken is bpe and "
              "log_count('call:_ExecutorManagerThread.kill_workers') + log_count('raise:_ExecutorManagerThread.kill_workers') == 1")
c.assumes("A-atomic")
c.at_call("Future.set_exception", "no-lock-held-while-the-callbacks-of-the-future-run", "no_lock_held()", prop=["C04", "C02"])
c.replay_for("only-from-joining-internals", "cancelled_pending_future", mode="'terminate_broken'")
i = M.invariant(f"{EMT}.terminate_broken", 0, "for work_item in ")
i.inv("visited-futures-failed", "forall(Ref('_WorkItem'), lambda w: implies(mem(__seen0, w), (G.fut_exc[w.future] is bpe and "
      "G.fut_n_exc[w.future] >= old(G.fut_n_exc[w.future]) + 1) or G.fut_refused[w.future] >= old(G.fut_refused[w.future]) + 1))")
i.inv("counts-only-grow", "forall(Ref('Future'), lambda f: G.fut_n_exc[f] >= old(G.fut_n_exc[f]) and G.fut_refused[f] >= old(G.fut_refused[f]))")
i.inv("no-result-set", "G.fut_n_res == old(G.fut_n_res) and G.fut_res == old(G.fut_res)")
i.iter_post("only-pending-futures-touched-with-the-error",
            "log_count('set_exception') + log_count('set_exception_refused') == 1 and log_count('set_result') == 0 and "
            "mem(at_entry(self.pending_work_items.values()), __item) and "
            "implies(log_count('set_exception') == 1, log_arg('set_exception', 0, 1) is bpe and log_arg('set_exception', 0, 0) is __item.future) and "
            "implies(log_count('set_exception_refused') == 1, log_arg('set_exception_refused', 0, 0) is __item.future)")

# ---------------------------------------------------------------- flag_executor_shutting_down (C05, C06)
c = M.contract(f"{EMT}.flag_executor_shutting_down", props=["C05", "C06"])
c.param("self", T.Ref(EMT))
KW = "self.executor_flags.kill_workers"
FAILED_SHUTDOWN = ("forall(Int, lambda k: implies(old(k in self.pending_work_items), "
                   "(cls_id_is(G.fut_exc_cls[old(self.pending_work_items[k]).future], 'ShutdownExecutorError') and "
                   "G.fut_n_exc[old(self.pending_work_items[k]).future] >= old(G.fut_n_exc[old(self.pending_work_items[k]).future]) + 1) or "
                   "G.fut_refused[old(self.pending_work_items[k]).future] >= old(G.fut_refused[old(self.pending_work_items[k]).future]) + 1))")
c.ensures("shutdown/flagged", "self.executor_flags.shutdown == True and log_pos('call:_ExecutorFlags.flag_as_shutting_down', 0) == 0")
c.ensures("graceful/touches-no-future-and-no-worker",
          f"implies(not {KW}, {NO_FUTURE_TOUCHED} and G.killed == old(G.killed) and len(self.pending_work_items) == old(len(self.pending_work_items)) "
          "and len(self.processes) == old(len(self.processes)))", prop="C05")
c.ensures("forced/every-pending-future-fails-with-shutdown-error", f"implies({KW}, {FAILED_SHUTDOWN})", prop="C06")
c.ensures("forced/nothing-left-pending", f"implies({KW}, len(self.pending_work_items) == 0)", prop="C06")
c.ensures("forced/no-fabricated-result", "G.fut_n_res == old(G.fut_n_res) and G.fut_res == old(G.fut_res)", prop="C06")
c.ensures("forced/all-workers-killed-and-reaped", f"implies({KW}, {PROCS_EMPTY} and {ALL_KILLED})", prop="C06")
c.raises_only("shutdown/no-exception")
c.modifies("self.executor_flags.shutdown", "self.executor_flags.kill_workers", "contents(self.pending_work_items)", "contents(self.processes)",
           "G.fut_n_exc", "G.fut_exc", "G.fut_exc_cls", "G.fut_refused", "G.killed", "G.joined", "G.ps_killed", "G.pid_live")
c.assumes("A-atomic")
c.at_call("Future.set_exception", "no-lock-held-while-the-callbacks-of-the-future-run", "no_lock_held()", prop=["C06", "C05"])
c.replay_for("shutdown/no-exception", "cancelled_pending_future", mode="'shutdown'")
i = M.invariant(f"{EMT}.flag_executor_shutting_down", 0, "while self.pending_work_items:")
i.inv("removed-futures-failed", "forall(Int, lambda k: implies(old(k in self.pending_work_items) and not (k in self.pending_work_items), "
      "(cls_id_is(G.fut_exc_cls[old(self.pending_work_items[k]).future], 'ShutdownExecutorError') and "
      "G.fut_n_exc[old(self.pending_work_items[k]).future] >= old(G.fut_n_exc[old(self.pending_work_items[k]).future]) + 1) or "
      "G.fut_refused[old(self.pending_work_items[k]).future] >= old(G.fut_refused[old(self.pending_work_items[k]).future]) + 1))")
i.inv("remaining-are-original", "forall(Int, lambda k: implies(k in self.pending_work_items, old(k in self.pending_work_items) and "
      "self.pending_work_items[k] is old(self.pending_work_items[k])))")
i.inv("counts-only-grow", "forall(Ref('Future'), lambda f: G.fut_n_exc[f] >= old(G.fut_n_exc[f]))")
i.inv("refusals-only-grow", "forall(Ref('Future'), lambda f: G.fut_refused[f] >= old(G.fut_refused[f]))")
i.inv("no-result-set", "G.fut_n_res == old(G.fut_n_res) and G.fut_res == old(G.fut_res)")
i.variant("len(self.pending_work_items)")

# ---------------------------------------------------------------- get_n_children_alive / shutdown_workers / join_executor_internals
c = M.contract(f"{EMT}.get_n_children_alive", props=["C05"])
c.param("self", T.Ref(EMT))
c.returns(T.Int)
c.ensures("alive/bounded-by-registered", "0 <= result and result <= len(self.processes)")
c.ensures("alive/under-management-lock", "log_arg('acquire', 0, 0) is self.processes_management_lock and log_count('release') == 1")
c.raises_only("alive/no-exception")
c.modifies()

SQC = "call:SimpleQueue.close"
c = M.contract(f"{EMT}.shutdown_workers", props=["C05"])
c.param("self", T.Ref(EMT))
RELEASED = ("forall(Int, lambda k: implies(old(k in self.processes), G.sem_released[old(self.processes[k])._worker_exit_lock] >= "
            "old(G.sem_released[old(self.processes[k])._worker_exit_lock]) + 1))")
c.ensures("sentinels/never-more-than-registered-workers", "G.n_sentinels - old(G.n_sentinels) <= old(len(self.processes)) and G.n_sentinels >= old(G.n_sentinels)")
c.ensures("sentinels/one-per-worker-unless-none-alive",
          "G.n_sentinels - old(G.n_sentinels) == old(len(self.processes)) or "
          "tail(log_count('call:_ExecutorManagerThread.get_n_children_alive') >= 1 and log_arg('call:_ExecutorManagerThread.get_n_children_alive', -1, 0) <= 0)")
c.ensures("sentinels/every-exit-lock-released", RELEASED)
c.at_call("mp.Queue.put", "never-a-blocking-put", "False")
c.raises("sentinels/full-queue-after-cooldown", "queue.Full")
c.raises_only("sentinels/only-queue-full")
c.modifies("G.sem_released", "G.n_sentinels")
c.assumes("A-atomic")
i = M.invariant(f"{EMT}.shutdown_workers", 0, "for p in list(self.processes.values()):")
i.inv("counts-visited", "n_children_to_stop == __i0")
i.inv("visited-exit-locks-released", "forall(Ref('Process'), lambda q: implies(mem(__seen0, q), "
      "G.sem_released[q._worker_exit_lock] >= old(G.sem_released[q._worker_exit_lock]) + 1))")
i.inv("release-counts-only-grow", "forall(Ref('MPLock'), lambda l: G.sem_released[l] >= old(G.sem_released[l]))")
i = M.invariant(f"{EMT}.shutdown_workers", 1, "while (")
i.inv("sent-bounded", "0 <= n_sentinels_sent and n_sentinels_sent <= n_children_to_stop")
i.inv("sent-is-ghost-count", "G.n_sentinels == old(G.n_sentinels) + n_sentinels_sent")
i.inv("cooldown-positive", "cooldown_time > 0")
i = M.invariant(f"{EMT}.shutdown_workers", 2, "for _ in range(n_children_to_stop - n_sentinels_sent):")
i.inv("sent-advances-with-index", "n_sentinels_sent == at_entry(n_sentinels_sent) + __i2")
i.inv("sent-is-ghost-count", "G.n_sentinels == old(G.n_sentinels) + n_sentinels_sent")
i.inv("cooldown-positive", "cooldown_time > 0")

c = M.contract(f"{EMT}.join_executor_internals", props=["C05", "C20"])
c.param("self", T.Ref(EMT))
ALL_JOINED = "forall(Int, lambda k: implies(old(k in self.processes), G.joined[old(self.processes[k])]))"
c.ensures("join/closes-queues-and-wakeup-in-order",
          "tail(True) and log_tags('acquire', 'release', 'loop:*') == ['call:_ExecutorManagerThread.shutdown_workers', 'cq_close', 'cq_join_thread', "
          f"'{SQC}', 'call:_ThreadWakeup.close']")
c.ensures("join/right-objects-closed",
          "log_arg('cq_close', 0, 0) is self.call_queue and log_arg('cq_join_thread', 0, 0) is self.call_queue and "
          f"log_arg('{SQC}', 0, 1) is self.result_queue and log_arg('call:_ThreadWakeup.close', 0, 1) is self.thread_wakeup")
c.ensures("join/wakeup-closed-under-shutdown-lock",
          "ordered('acquire', lambda l: l is self.shutdown_lock, 'call:_ThreadWakeup.close', lambda r, w: True) and "
          "exists_event('acquire', lambda l: l is self.shutdown_lock)")
c.ensures("join/no-worker-left-registered", PROCS_EMPTY)
c.ensures("join/every-registered-worker-joined", ALL_JOINED)
c.ensures("join/joined-only-grows", "forall(Ref('Process'), lambda q: implies(old(G.joined[q]), G.joined[q]))")
c.raises("join/only-queue-full-from-sentinels", "queue.Full")
c.raises_only("join/only-queue-full")
c.modifies("contents(self.processes)", "G.joined", "G.sem_released", "G.n_sentinels", "self.thread_wakeup._closed", "G.pid_live")
c.assumes("A-atomic")
i = M.invariant(f"{EMT}.join_executor_internals", 0, "while True:")
i.inv("removed-are-joined", "forall(Int, lambda k: implies(old(k in self.processes) and not (k in self.processes), G.joined[old(self.processes[k])]))")
i.inv("remaining-are-original", "forall(Int, lambda k: implies(k in self.processes, old(k in self.processes) and self.processes[k] is old(self.processes[k])))")
i.inv("joined-only-grows", "forall(Ref('Process'), lambda q: implies(old(G.joined[q]), G.joined[q]))")

# ---------------------------------------------------------------- run (C02, C05)
TB = "call:_ExecutorManagerThread.terminate_broken"
WAITC = "call:_ExecutorManagerThread.wait_result_broken_or_wakeup"
PRI = "call:_ExecutorManagerThread.process_result_item"
ISD = "call:_ExecutorManagerThread.is_shutting_down"
FLAGC = "call:_ExecutorManagerThread.flag_executor_shutting_down"
JOINC = "call:_ExecutorManagerThread.join_executor_internals"
c = M.contract(f"{EMT}.run", props=["C02", "C05"])
c.param("self", T.Ref(EMT))
c.ensures("run/leaves-only-when-broken-or-drained",
          f"tail((log_count('{TB}') == 1 and log_arg('{WAITC}', -1, 0)[1] == True and log_arg('{TB}', 0, 2) is log_arg('{WAITC}', -1, 0)[2] "
          f"and log_count('{PRI}') == 0 and log_count('{JOINC}') == 0) or "
          f"(log_count('{TB}') == 0 and log_arg('{WAITC}', -1, 0)[1] == False and log_arg('{ISD}', -1, 0) == True and "
          f"len(self.pending_work_items) == 0 and log_count('{JOINC}') == 1 and log_count('{FLAGC}') == 1 and "
          f"log_before('{FLAGC}', '{JOINC}')))", prop=["C02", "C05"])
c.ensures("run/last-step-dispatches-then-waits", f"tail(log_pos('call:_ExecutorManagerThread.add_call_item_to_queue', 0) == 0 and log_pos('{WAITC}', 0) == 1)")
c.raises("run/only-from-termination-steps", "BaseException")
c.modifies_anything()
c.assumes("A-atomic")
i = M.invariant(f"{EMT}.run", 0, "while True:")
i.inv("trivial", "True")
i.iter_post("continues-only-when-not-broken", f"log_count('{TB}') == 0 and log_arg('{WAITC}', 0, 0)[1] == False and log_count('{JOINC}') == 0", prop="C02")
i.iter_post("every-received-item-is-processed",
            f"ite(log_arg('{WAITC}', 0, 0)[0] is None, log_count('{PRI}') == 0, log_count('{PRI}') == 1 and "
            f"log_arg('{PRI}', 0, 2) is log_arg('{WAITC}', 0, 0)[0])", prop=["C02", "C03"])
i.iter_post("keeps-running-while-work-is-pending",
            f"implies(log_count('{FLAGC}') == 1, len(self.pending_work_items) > 0) and "
            f"implies(log_count('{FLAGC}') == 0, log_arg('{ISD}', -1, 0) == False)", prop="C05")

# ---------------------------------------------------------------- the manager thread's constructor: discharges A-alias at its source
c = M.contract(f"{EMT}.__init__", props=["C02", "C03", "C04", "C05", "C07"])
c.param("self", T.Ref(EMT)).param("executor", T.Ref(PPE))
c.requires("executor-has-its-internals", "executor._executor_manager_thread_wakeup is not None and executor._call_queue is not None and "
           "executor._result_queue is not None and executor._processes_management_lock is not None")
c.ensures("manager/works-on-the-very-tables-of-its-executor",
          "self.processes is executor._processes and self.pending_work_items is executor._pending_work_items and "
          "self.running_work_items is executor._running_work_items and self.processes_management_lock is executor._processes_management_lock and "
          "self.thread_wakeup is executor._executor_manager_thread_wakeup and self.shutdown_lock is executor._shutdown_lock and "
          "self.executor_flags is executor._flags and self.call_queue is executor._call_queue and self.result_queue is executor._result_queue and "
          "self.work_ids_queue is executor._work_ids")
c.ensures("manager/holds-only-a-weak-reference-to-its-executor", "as_(select(G.referent, self.executor_reference), 'ProcessPoolExecutor') is executor")
c.raises_only("manager/no-exception")
c.modifies("self.thread_wakeup", "self.shutdown_lock", "self.executor_reference", "self.executor_flags", "self.processes", "self.call_queue", "self.result_queue",
           "self.work_ids_queue", "self.pending_work_items", "self.running_work_items", "self.processes_management_lock", "self.daemon", "G.referent")

# the callback run when the executor object is collected: the manager thread must be woken (it then sees `executor is None` and shuts down)
c = S.contract(f"{PE}:{EMT}.__init__.weakref_cb", props=["C05"])
c.param("_", T.Obj).param("thread_wakeup", T.Ref("_ThreadWakeup")).param("shutdown_lock", T.Ref("threading.Lock"))
c.ensures("collected/wakes-the-manager-under-the-shutdown-lock",
          "log_count('call:_ThreadWakeup.wakeup') == 1 and log_arg('call:_ThreadWakeup.wakeup', 0, 1) is thread_wakeup and "
          "log_arg('acquire', 0, 0) is shutdown_lock and log_pos('acquire', 0) < log_pos('call:_ThreadWakeup.wakeup', 0) and log_tags()[-1] == 'release'")
c.raises("collected/pipe-error-of-the-wakeup-propagates-with-the-lock-released", "Exception", post="log_tags()[-1] == 'release'")
c.modifies()

# ---------------------------------------------------------------- submit / _ensure_executor_running / shutdown
c = M.contract(f"{PPE}._start_executor_manager_thread", props=["C05", "C02"])
c.param("self", T.Ref(PPE))
c.requires("executor-has-its-internals", "self._executor_manager_thread_wakeup is not None and self._call_queue is not None and "
           "self._result_queue is not None and self._processes_management_lock is not None")
c.ensures("start/manager-exists-after", "self._executor_manager_thread is not None")
c.ensures("start/keeps-existing-manager", "implies(old(self._executor_manager_thread) is not None, self._executor_manager_thread is old(self._executor_manager_thread) and log_len() == 0)")
NEWT = "call:_ExecutorManagerThread.__init__"
c.ensures("start/new-manager-built-on-this-executor-started-and-registered-for-interpreter-exit",
          f"implies(old(self._executor_manager_thread) is None, log_count('{NEWT}') == 1 and log_arg('{NEWT}', 0, 1) is self._executor_manager_thread and "
          f"log_arg('{NEWT}', 0, 2) is self and fresh(self._executor_manager_thread) and log_count('thread_start') == 1 and "
          "log_arg('thread_start', 0, 0) is self._executor_manager_thread and log_count('wkd_set') == 1 and log_arg('wkd_set', 0, 0) is _threads_wakeups and "
          "log_arg('wkd_set', 0, 1) is self._executor_manager_thread and log_arg('wkd_set', 0, 2)[0] is self._shutdown_lock and "
          "log_arg('wkd_set', 0, 2)[1] is self._executor_manager_thread_wakeup and log_before('thread_start', 'wkd_set') and "
          "process_pool_executor_at_exit is not None)", prop="C05")
c.ensures("start/exit-hook-registered-once", "implies(old(process_pool_executor_at_exit) is not None, log_count('register_atexit') == 0 and "
          "process_pool_executor_at_exit is old(process_pool_executor_at_exit)) and "
          "implies(old(process_pool_executor_at_exit) is None and old(self._executor_manager_thread) is None, log_count('register_atexit') == 1 and "
          "log_arg('register_atexit', 0, 0) is _python_exit)", prop="C05")
c.replay_for("start/new-manager-built-on-this-executor-started-and-registered-for-interpreter-exit", "exit_hook_registered_once")
c.raises("start/thread-creation-may-fail", "RuntimeError")
c.modifies("self._executor_manager_thread", f"glob:{PE}.process_pool_executor_at_exit", "G.referent")

c = M.contract(f"{PPE}._ensure_executor_running", props=["C08", "C07", "C02", "C20"])
c.param("self", T.Ref(PPE))
c.rely("registered-pids-are-live-children", "forall(Int, lambda k: implies(k in self._processes, G.pid_live[k]))", "A-pids")
c.requires("not-shut-down", "self._processes_management_lock is not None and self._call_queue is not None and self._result_queue is not None and "
           "self._executor_manager_thread_wakeup is not None")
c.ensures("ensure/tops-up-to-max-workers", "len(self._processes) >= self._max_workers", prop=["C08", "C07"])
c.ensures("ensure/never-above-the-larger-of-old-and-max", "len(self._processes) <= max(old(len(self._processes)), self._max_workers)", prop="C08")
c.ensures("ensure/manager-running", "self._executor_manager_thread is not None")
c.at_call(f"{PE}:{PPE}._adjust_process_count", "under-management-lock", "held(self._processes_management_lock)", prop="C08")
c.ensures("ensure/adjusts-under-the-management-lock",
          "log_arg('acquire', 0, 0) is self._processes_management_lock and log_pos('acquire', 0) == 0 and log_tags()[-1] == 'release'", prop="C08")
# the manager thread waits on the sentinels of the workers it knew when it last woke up: whoever registers workers from another thread must wake it,
# otherwise the death of such a worker is never seen (C02: a death at any instant of a worker's life is detected)
c.ensures("ensure/manager-woken-after-registering-workers-so-that-it-watches-their-sentinels",
          "implies(log_count('call:ProcessPoolExecutor._adjust_process_count') >= 1, "
          "ordered('call:ProcessPoolExecutor._adjust_process_count', lambda *a: True, 'call:_ThreadWakeup.wakeup', lambda r, w: w is self._executor_manager_thread_wakeup) and "
          "exists_event('call:_ThreadWakeup.wakeup', lambda r, w: w is self._executor_manager_thread_wakeup))", prop="C02")
c.replay_for("manager-woken-after-registering-workers", "unwatched_new_worker")
# C20 / C02: a spawn that fails half-way (EAGAIN on the second of two workers) must not leave the workers already started without a manager thread: nobody
# would send them a sentinel at shutdown (they outlive the executor) nor notice their death
c.raises("ensure/failed-spawn-or-wakeup-releases-the-lock-and-leaves-no-worker-without-a-manager-thread", "Exception",
         post="log_tags()[-1] == 'release' and len(self._processes) <= max(old(len(self._processes)), self._max_workers) and "
              "implies(len(self._processes) > 0 and log_count('raise:ProcessPoolExecutor._start_executor_manager_thread') == 0, self._executor_manager_thread is not None)",
         prop=["C08", "C20", "C02"])
c.replay_for("ensure/failed-spawn-or-wakeup-releases-the-lock-and-leaves-no-worker-without-a-manager-thread", "partial_spawn_failure")
# ... and the converse (C05): when not a single worker could be spawned there is nothing to manage; a manager thread started then would wait for ever for the work item
# the failed submit left registered (F31), and shutdown(wait=True) / a with-block / interpreter exit would never return (a regression the first F23 fix introduced)
c.raises("ensure/no-manager-thread-is-started-for-a-pool-in-which-no-worker-could-be-spawned", "Exception",
         post="implies(len(self._processes) == 0 and old(self._executor_manager_thread) is None, self._executor_manager_thread is None)", prop=["C05", "C20"])
c.rely("the-pool-size-is-positive", "self._max_workers >= 1", "A-atomic")      # (the constructor and the factory reject sizes below one)
c.replay_for("ensure/no-manager-thread-is-started-for-a-pool-in-which-no-worker-could-be-spawned", "shutdown_after_total_spawn_failure")
# the remaining case, its own clause: the manager thread itself cannot be started ("can't start new thread") after workers were spawned
c.raises("ensure/a-manager-thread-that-cannot-be-started-leaves-no-worker-behind", "Exception",
         post="implies(len(self._processes) > 0 and log_count('raise:ProcessPoolExecutor._start_executor_manager_thread') >= 1, self._executor_manager_thread is not None)",
         prop=["C20", "C02"])
c.replay_for("ensure/a-manager-thread-that-cannot-be-started-leaves-no-worker-behind", "partial_spawn_failure", mode="'thread'")
c.raises_only("ensure/only-spawn-or-pipe-errors")
c.modifies("contents(self._processes)", "G.started", "G.pid_live", "G.proc_of_pid", "self._executor_manager_thread", f"glob:{PE}.process_pool_executor_at_exit", "G.referent")

c = M.contract(f"{PPE}.submit", props=["C02", "C03", "C05", "C07", "C08", "C15"])
c.param("self", T.Ref(PPE)).param("fn", T.Obj).varargs("args").kwargs("kwargs")
c.returns(T.Ref("Future"))
c.rely("registered-pids-are-live-children", "forall(Int, lambda k: implies(k in self._processes, G.pid_live[k]))", "A-pids")
c.rely("ids-queued-are-pending", "forall(Int, lambda k: implies(G.work_ids[k], k in self._pending_work_items))", "A-atomic")
c.rely("ids-below-the-counter", "forall(Int, lambda k: implies(k in self._pending_work_items, k < self._queue_count))", "A-atomic")
c.rely("flags-lock-is-the-shutdown-lock", "self._flags.shutdown_lock is self._shutdown_lock", "A-alias")
c.rely("healthy-executor-has-its-internals", "implies(not self._flags.shutdown, self._processes_management_lock is not None and self._call_queue is not None "
       "and self._result_queue is not None and self._executor_manager_thread_wakeup is not None)", "A-atomic")
UNCHANGED = ("self._queue_count == old(self._queue_count) and len(self._pending_work_items) == old(len(self._pending_work_items)) and "
             "G.work_ids == old(G.work_ids) and len(self._processes) == old(len(self._processes)) and log_count('call:_ThreadWakeup.wakeup') == 0 "
             "and log_count('call:ProcessPoolExecutor._ensure_executor_running') == 0")
c.raises("submit/broken-first-and-nothing-touched", "BaseException",
         post=f"ite(old(self._flags.broken) is not None, exc is old(self._flags.broken) and {UNCHANGED}, "
              f"ite(old(self._flags.shutdown), exc_is(exc, 'ShutdownExecutorError') and {UNCHANGED}, "
              f"ite(old(_global_shutdown), exc_is(exc, 'RuntimeError') and {UNCHANGED}, True)))", prop=["C02", "C05"])
c.raises("submit/rep-invariants-kept-when-a-spawn-fails", "OSError",
         post="forall(Int, lambda k: implies(k in self._pending_work_items, k < self._queue_count)) and "
              "forall(Int, lambda k: implies(G.work_ids[k], k in self._pending_work_items))", prop="C03")
# C03 (at most once): a submission that raises is not accepted, the caller holds no future and will retry: the work item it had already registered must not be
# run later; it is cancelled (the manager thread drops a cancelled item) before anybody could mark it running (sequentially: A-atomic). Its own clause: F31
c.raises("submit/a-submission-that-raises-leaves-no-work-item-that-will-run-later", "OSError",
         post="implies(self._queue_count == old(self._queue_count) + 1 and old(self._queue_count) in self._pending_work_items, "
              "exists_event('fut_cancel', lambda f_, ok_: f_ is self._pending_work_items[old(self._queue_count)].future and ok_))", prop="C03")
c.replay_for("submit/a-submission-that-raises-leaves-no-work-item-that-will-run-later", "submit_raises_but_task_runs")
c.ensures("submit/only-on-a-healthy-executor", "old(self._flags.broken) is None and not old(self._flags.shutdown) and not old(_global_shutdown)", prop=["C02", "C05"])
c.ensures("submit/fresh-id-maps-to-own-work-item",
          "self._queue_count == old(self._queue_count) + 1 and old(self._queue_count) in self._pending_work_items and "
          "not old(old(self._queue_count) in self._pending_work_items) and "
          "self._pending_work_items[old(self._queue_count)].future is result and self._pending_work_items[old(self._queue_count)].fn is fn and "
          "self._pending_work_items[old(self._queue_count)].args is args and self._pending_work_items[old(self._queue_count)].kwargs is kwargs and fresh(result)", prop="C03")
c.ensures("submit/other-pending-kept",
          "forall(Int, lambda k: implies(k != old(self._queue_count), (k in self._pending_work_items) == old(k in self._pending_work_items) and "
          "self._pending_work_items[k] is old(self._pending_work_items[k])))", prop="C03")
c.ensures("submit/id-queued-then-manager-woken-then-pool-topped-up",
          "G.work_ids[old(self._queue_count)] and log_count('wq_put') == 1 and log_count('call:_ThreadWakeup.wakeup') == 1 and "
          "log_count('call:ProcessPoolExecutor._ensure_executor_running') == 1 and "
          "log_before('wq_put', 'call:_ThreadWakeup.wakeup') and log_before('call:_ThreadWakeup.wakeup', 'call:ProcessPoolExecutor._ensure_executor_running')",
          prop=["C03", "C07", "C08"])
# C15: "the pickler selected when a task is *submitted* is the one its worker uses": the name has to be read inside submit(), not later by the manager thread
c.ensures("submit/reads-the-pickler-selected-at-submission", "log_count('call:get_loky_pickler_name') == 1 and "
          "self._pending_work_items[old(self._queue_count)].loky_pickler == log_arg('call:get_loky_pickler_name', 0, 0)", prop="C15")
c.replay_for("submit/reads-the-pickler-selected-at-submission", "pickler_recorded_at_dispatch")
c.ensures("submit/rep-invariants-kept", "forall(Int, lambda k: implies(G.work_ids[k], k in self._pending_work_items)) and "
          "forall(Int, lambda k: implies(k in self._pending_work_items, k < self._queue_count))", prop="C03")
c.ensures("submit/under-the-shutdown-lock", "log_arg('acquire', 0, 0) is self._flags.shutdown_lock and log_pos('acquire', 0) == 0", prop="C03")
c.ensures("submit/pool-topped-up", "len(self._processes) >= self._max_workers", prop=["C07", "C08"])
c.modifies("self._queue_count", "contents(self._pending_work_items)", "G.work_ids", "contents(self._processes)", "G.started", "G.pid_live", "G.proc_of_pid",
           "self._executor_manager_thread", f"glob:{PE}.process_pool_executor_at_exit", "G.referent")
c.cover("healthy", "True")
c.twin("submit/only-on-a-healthy-executor", "old(self._flags.shutdown)")

S.ghost("concurrent_shutdown", z3.BoolSort(), "another thread completed a shutdown() of the same executor while this call waited for a lock")
c = M.contract(f"{PPE}.shutdown", props=["C05", "C06", "C20"])
c.param("self", T.Ref(PPE)).param("wait", T.Bool, default=VBool(True)).param("kill_workers", T.Bool, default=VBool(False))
c.rely("flags-lock-is-the-shutdown-lock", "self._flags.shutdown_lock is self._shutdown_lock and self._shutdown_lock is not _global_shutdown_lock", "A-alias")
FLAGSD = "call:_ExecutorFlags.flag_as_shutting_down"
c.ensures("shutdown/flags-first-with-the-callers-kill-workers",
          f"log_pos('{FLAGSD}', 0) == 0 and log_arg('{FLAGSD}', 0, 1) is self._flags and log_arg('{FLAGSD}', 0, 2) == kill_workers and self._flags.shutdown", prop=["C05", "C06"])
c.ensures("shutdown/wakes-the-manager-under-the-shutdown-lock",
          "implies(old(self._executor_manager_thread_wakeup) is not None, log_count('call:_ThreadWakeup.wakeup') == 1 and "
          "log_arg('call:_ThreadWakeup.wakeup', 0, 1) is old(self._executor_manager_thread_wakeup) and "
          f"log_before('{FLAGSD}', 'call:_ThreadWakeup.wakeup') and "
          "ordered('acquire', lambda l: l is self._shutdown_lock, 'call:_ThreadWakeup.wakeup', lambda r, w: True) and "
          "exists_event('acquire', lambda l: l is self._shutdown_lock))", prop=["C05", "C06"])
# C06 (prompt, whatever else the process is doing): the manager thread is woken before, and without, waiting for the module-wide lock, which another thread holds
# for as long as it drains a different executor (shutdown(wait=True)) or the interpreter exits: the kill must not queue behind somebody else's tasks
c.at_call(f"{PE}:_ThreadWakeup.wakeup", "manager-woken-without-holding-or-waiting-for-the-module-wide-shutdown-lock", "not held(_global_shutdown_lock)", prop=["C06", "C05"])
c.ensures("shutdown/waits-for-the-manager-when-asked",
          "implies(wait and old(self._executor_manager_thread) is not None, log_count('thread_join') == 1 and "
          "log_arg('thread_join', 0, 0) is old(self._executor_manager_thread) and log_before('call:_ThreadWakeup.wakeup', 'thread_join'))", prop=["C05", "C06"])
c.ensures("shutdown/no-join-when-not-waiting", "implies(not wait, log_count('thread_join') == 0)", prop="C05")
c.ensures("shutdown/drops-fd-holding-references-once-the-manager-thread-is-gone",
          "implies(wait or old(self._executor_manager_thread) is None, self._executor_manager_thread is None and self._executor_manager_thread_wakeup is None and "
          "self._call_queue is None and self._result_queue is None and self._processes_management_lock is None)", prop="C20")
c.ensures("shutdown/keeps-what-a-still-running-manager-thread-needs-to-replace-a-worker",
          "implies(not wait and old(self._executor_manager_thread) is not None and not G.concurrent_shutdown, self._call_queue is old(self._call_queue) and "
          "self._result_queue is old(self._result_queue) and self._processes_management_lock is old(self._processes_management_lock))", prop=["C05", "C07"])
# a later shutdown(wait=True) / shutdown(kill_workers=True) must still be able to wake and join a manager thread that an earlier shutdown(wait=False) left running
c.ensures("shutdown/keeps-its-handle-on-a-manager-thread-it-did-not-join",
          "implies(not wait and old(self._executor_manager_thread) is not None and not G.concurrent_shutdown, self._executor_manager_thread is old(self._executor_manager_thread) and "
          "self._executor_manager_thread_wakeup is old(self._executor_manager_thread_wakeup))", prop=["C05", "C06"])
c.replay_for("keeps-its-handle-on-a-manager-thread-it-did-not-join", "second_shutdown_after_nowait")
# two threads may call shutdown at the same time (a user thread and the reusable factory replacing the instance, __exit__ and an explicit call): while this one
# waits for a lock the other one may complete and drop the five references (its own postcondition above). Rely/guarantee encoding: at every lock wait the five
# fields are havocked to "None or as they were", the ghost G.concurrent_shutdown records that this happened; the clauses about what *this* call keeps are stated
# for the runs where it did not; nothing but an error of the wake-up pipe may escape in any run
SD_FIELDS = ["self._executor_manager_thread", "self._executor_manager_thread_wakeup", "self._call_queue", "self._result_queue", "self._processes_management_lock"]
c.rely("no-other-shutdown-has-completed-in-between-yet", "not G.concurrent_shutdown", "A-yield")
c.yield_at("threading.Lock.__enter__", SD_FIELDS + ["G.concurrent_shutdown"],
           guarantee=" and ".join(f"({f_} is None or {f_} is old({f_}))" for f_ in SD_FIELDS) + " and (G.concurrent_shutdown or (" +
           " and ".join(f"{f_} is old({f_})" for f_ in SD_FIELDS) + "))", tag="A-yield")
c.raises("shutdown/only-pipe-errors-from-wakeup-also-when-another-thread-shuts-down-at-the-same-time", "Exception", post="log_count('raise:_ThreadWakeup.wakeup') == 1")
c.replay_for("shutdown/only-pipe-errors-from-wakeup-also-when-another-thread-shuts-down-at-the-same-time", "concurrent_shutdown")
c.modifies("self._flags.shutdown", "self._flags.kill_workers", "self._executor_manager_thread", "self._executor_manager_thread_wakeup",
           "self._call_queue", "self._result_queue", "self._processes_management_lock", "G.concurrent_shutdown")

# ---------------------------------------------------------------- feeder error path (C04)
c = M.contract("_SafeQueue._on_queue_feeder_error", props=["C04", "C07"])
c.param("self", T.Ref("_SafeQueue")).param("e", T.Exc()).param("obj", T.Union(T.Ref("_CallItem"), T.NoneT))
CI = "(obj is not None)"
WIDF = "obj.work_id"
FUTF = f"old(self.pending_work_items[{WIDF}]).future"
c.rely("dispatched-ids-are-running", f"implies({CI}, mem(self.running_work_items, {WIDF}))", "A-atomic")
c.rely("a-reported-item-has-a-running-unresolved-future",
       f"implies({CI} and {WIDF} in self.pending_work_items, G.fut_running[self.pending_work_items[{WIDF}].future] and "
       f"G.fut_n_exc[self.pending_work_items[{WIDF}].future] + G.fut_n_res[self.pending_work_items[{WIDF}].future] == 0)", "A-running")
c.ensures("onerror/own-future-fails-once",
          f"implies({CI} and old({WIDF} in self.pending_work_items), G.fut_n_exc[{FUTF}] == old(G.fut_n_exc[{FUTF}]) + 1 and "
          f"G.fut_n_res[{FUTF}] == old(G.fut_n_res[{FUTF}]))")
c.ensures("onerror/runtime-error-iff-too-large-else-pickling-error",
          f"implies({CI} and old({WIDF} in self.pending_work_items), "
          f"ite(exc_is(e, 'struct.error'), exc_is(as_(G.fut_exc[{FUTF}], '<exc>'), 'RuntimeError'), exc_is(as_(G.fut_exc[{FUTF}], '<exc>'), 'pickle.PicklingError')))")
c.ensures("onerror/cause-is-the-remote-traceback",
          f"implies({CI} and old({WIDF} in self.pending_work_items), exc_is(as_(G.fut_exc[{FUTF}], '<exc>').__cause__, '_RemoteTraceback'))")
c.ensures("onerror/no-other-future-touched", f"implies({CI} and old({WIDF} in self.pending_work_items), " + OTHERS_UNTOUCHED.format(fut=FUTF) + ")")
c.ensures("onerror/unknown-id-touches-no-future", f"implies({CI} and not old({WIDF} in self.pending_work_items), {NO_FUTURE_TOUCHED})")
c.ensures("onerror/id-forgotten-and-slot-freed", f"implies({CI}, {WIDF} not in self.pending_work_items and "
          f"len(self.running_work_items) == old(len(self.running_work_items)) - 1)")
c.ensures("onerror/other-pending-kept",
          f"implies({CI}, forall(Int, lambda k: implies(k != {WIDF}, (k in self.pending_work_items) == old(k in self.pending_work_items) and "
          "self.pending_work_items[k] is old(self.pending_work_items[k]))))")
c.ensures("onerror/manager-woken-under-shutdown-lock-after-failing-the-future",
          f"implies({CI}, log_count('call:_ThreadWakeup.wakeup') == 1 and log_arg('call:_ThreadWakeup.wakeup', 0, 1) is self.thread_wakeup and "
          "log_before('set_exception', 'call:_ThreadWakeup.wakeup') and "
          "ordered('acquire', lambda l: l is self.shutdown_lock, 'call:_ThreadWakeup.wakeup', lambda r, w: True) and "
          "exists_event('acquire', lambda l: l is self.shutdown_lock))")
c.ensures("onerror/not-a-task-leaves-executor-state", f"implies(not {CI}, {NO_FUTURE_TOUCHED} and len(self.pending_work_items) == old(len(self.pending_work_items)))")
c.raises("onerror/only-pipe-error-from-wakeup", "Exception", post=f"{CI}")
c.raises_only("onerror/only-exceptions")
c.modifies("contents(self.pending_work_items)", "contents(self.running_work_items)", "G.fut_n_exc", "G.fut_exc", "G.fut_exc_cls")
c.assumes("A-atomic")
c.note("`flags` (broken/shutdown) are not reachable from the queue object: untouched by construction (frame)")
c.at_call("Future.set_exception", "no-lock-held-while-the-callbacks-of-the-future-run", "no_lock_held()", prop=["C04", "C02"])
c.cover("task-too-large", f"{CI} and exc_is(e, 'struct.error') and old({WIDF} in self.pending_work_items)")
c.cover("task-unpicklable", f"{CI} and not exc_is(e, 'struct.error') and old({WIDF} in self.pending_work_items)")

# ---------------------------------------------------------------- construction (C08, C15, C19, C20)
M.glob("_system_limits_checked", T.Bool)
M.glob("_system_limited", T.Obj)
c = M.contract("_check_system_limits")
c.raises("limits/too-few-semaphores", "NotImplementedError")
c.modifies(f"glob:{PE}._system_limits_checked", f"glob:{PE}._system_limited")
c.trusted_summary = True

c = M.contract("_ThreadWakeup.__init__", props=["C20"])
c.param("self", T.Ref("_ThreadWakeup"))
c.ensures("wakeup/open-with-a-fresh-pipe", "self._closed == False and fresh(self._reader) and fresh(self._writer) and self._reader is not self._writer")
c.ensures("wakeup/one-pipe", "log_count('mp_pipe') == 1")
c.raises_only("wakeup/no-exception")
c.modifies("self._closed", "self._reader", "self._writer")

c = M.contract("_ExecutorFlags.__init__", props=["C05"])
c.param("self", T.Ref("_ExecutorFlags")).param("shutdown_lock", T.Ref("threading.Lock"))
c.ensures("flags/start-healthy", "self.shutdown == False and self.broken is None and self.kill_workers == False and self.shutdown_lock is shutdown_lock")
c.raises_only("flags/no-exception")
c.modifies("self.shutdown", "self.broken", "self.kill_workers", "self.shutdown_lock")

c = M.contract(f"{PPE}._setup_queues", props=["C08", "C15"])
c.param("self", T.Ref(PPE)).param("job_reducers", T.Obj).param("result_reducers", T.Obj).param("queue_size", T.Opt(T.Int), default=NONE)
c.requires("wakeup-exists", "self._executor_manager_thread_wakeup is not None")
c.ensures("queue/capacity-is-twice-the-workers-plus-one",
          "self._call_queue._maxsize == ite(is_none(queue_size), 2 * self._max_workers + 1, the(queue_size))", prop="C08")
c.ensures("routing/job-reducers-to-the-call-queue", "self._call_queue._reducers is job_reducers", prop="C15")
c.ensures("routing/result-reducers-to-the-result-queue", "self._result_queue._reducers is result_reducers", prop="C15")
c.ensures("queue/call-queue-shares-the-executor-tables",
          "self._call_queue.pending_work_items is self._pending_work_items and self._call_queue.running_work_items is self._running_work_items and "
          "self._call_queue.thread_wakeup is self._executor_manager_thread_wakeup and self._call_queue.shutdown_lock is self._shutdown_lock", prop="C04")
c.ensures("queue/fresh-queues", "fresh(self._call_queue) and fresh(self._result_queue) and self._call_queue._ignore_epipe == True")
c.raises_only("queue/no-exception")
c.modifies("self._call_queue", "self._result_queue")

c = M.contract(f"{PPE}.__init__", props=["C08", "C15", "C19", "C09"])
c.param("self", T.Ref(PPE)).param("max_workers", T.Opt(T.Int), default=NONE).param("job_reducers", T.Obj, default=NONE)
c.param("result_reducers", T.Obj, default=NONE).param("timeout", T.Opt(T.Real), default=NONE).param("context", T.Ref("Context", nullable=True), default=NONE)
c.param("initializer", T.Obj, default=NONE).param("initargs", T.Obj, default=NONE).param("env", T.Obj, default=NONE)
SETUP = "call:ProcessPoolExecutor._setup_queues"
CHK = "call:_check_max_depth"
c.ensures("init/max-workers-as-given-or-cpu-count",
          "self._max_workers == ite(is_none(max_workers), log_arg('call:cpu_count', 0, 0), the(max_workers)) and self._max_workers >= 1", prop="C08")
c.ensures("init/max-workers-as-given", "implies(not is_none(max_workers), self._max_workers == the(max_workers)) and self._max_workers >= 1", prop=["C08", "C09"])
c.raises("init/non-positive-max-workers-rejected", "ValueError",
         post=f"not is_none(max_workers) and the(max_workers) <= 0 and log_count('new_lock') == 0 and log_count('{SETUP}') == 0", prop="C08")
c.ensures("init/depth-checked-before-any-resource",
          f"log_count('{CHK}') == 1 and log_before('{CHK}', 'new_lock') and log_before('{CHK}', 'call:_ThreadWakeup.__init__') and log_before('{CHK}', '{SETUP}')", prop="C19")
c.raises("init/too-deep-raises-before-any-resource", "LokyRecursionError",
         post=f"log_count('new_lock') == 0 and log_count('call:_ThreadWakeup.__init__') == 0 and log_count('{SETUP}') == 0 and log_count('raise:_check_max_depth') == 1", prop="C19")
c.at_call(f"{PE}:{PPE}._adjust_process_count", "constructor-never-spawns", "False", prop="C19")
c.ensures("init/reducers-routed-with-result-defaulting-to-job",
          f"log_count('{SETUP}') == 1 and log_arg('{SETUP}', 0, 2) is job_reducers and "
          f"log_arg('{SETUP}', 0, 3) is ite(result_reducers is None, job_reducers, result_reducers)", prop="C15")
c.ensures("init/starts-healthy-and-empty",
          "self._flags.shutdown == False and self._flags.broken is None and len(self._processes) == 0 and len(self._pending_work_items) == 0 and "
          "self._queue_count == 0 and self._executor_manager_thread is None and fresh(self._flags) and fresh(self._processes) and "
          "self._flags.shutdown_lock is self._shutdown_lock", prop=["C09", "C08"])
c.ensures("init/configuration-stored", "self._timeout == timeout and self._env is env and self._context is not None", prop="C18")
c.raises("init/other-construction-errors", "Exception")
c.modifies("self._max_workers", "self._context", "self._env", "self._initializer", "self._initargs", "self._timeout", "self._executor_manager_thread",
           "self._processes", "self._queue_count", "self._pending_work_items", "self._running_work_items", "self._work_ids",
           "self._processes_management_lock", "self._shutdown_lock", "self._executor_manager_thread_wakeup", "self._flags",
           "self._call_queue", "self._result_queue", f"glob:{PE}._system_limits_checked", f"glob:{PE}._system_limited",
           "glob:loky.backend.context.physical_cores_cache")
c.cover("default-size", "is_none(max_workers)")

c = M.contract("_CallItem.__init__", props=["C15", "C03"])
c.param("self", T.Ref("_CallItem")).param("work_id", T.Int).param("fn", T.Obj).param("args", T.Obj).param("kwargs", T.Obj)
c.param("loky_pickler", T.Opt(T.Str), default=NONE)
c.ensures("callitem/carries-the-task", "self.work_id == work_id and self.fn is fn and self.args is args and self.kwargs is kwargs")
c.ensures("callitem/carries-the-pickler-recorded-at-submission-or-the-current-one-when-none-is-given",
          "ite(is_none(loky_pickler), log_count('call:get_loky_pickler_name') == 1 and self.loky_pickler == log_arg('call:get_loky_pickler_name', 0, 0), "
          "log_count('call:get_loky_pickler_name') == 0 and self.loky_pickler == loky_pickler)")
c.ensures("callitem/a-given-pickler-name-is-kept", "implies(not is_none(loky_pickler), self.loky_pickler == loky_pickler)")
c.raises_only("callitem/no-exception")
c.modifies("self.work_id", "self.fn", "self.args", "self.kwargs", "self.loky_pickler")

c = S.contracts[f"{PE}:_CallItem.__call__"]
c.ensures("callitem/selects-the-submitters-pickler-before-running-the-task",
          "log_count('call:set_loky_pickler') == 1 and log_arg('call:set_loky_pickler', 0, 1) == self.loky_pickler and "
          "log_before('call:set_loky_pickler', 'user_call')", prop="C15")
c.ensures("callitem/runs-the-task-with-its-own-arguments",
          "log_count('user_call') == 1 and log_arg('user_call', 0, 0) is self.fn and result is app_call(self.fn, self.args, self.kwargs)", prop="C03")
c.raises("callitem/task-or-pickler-errors-propagate", "BaseException")
