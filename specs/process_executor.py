"""Contracts for loky/process_executor.py."""
from pyvc.spec import SCHEMA as S, Module
from pyvc import types as T

M = Module("loky.process_executor")
PE = "loky.process_executor"

M.glob("_CURRENT_DEPTH", T.Int, inv="_CURRENT_DEPTH >= 0",
       doc="nesting depth of this process; 0 in the root (module constant), installed by _process_worker")
M.glob("MAX_DEPTH", T.Int, doc="int(os.environ.get('LOKY_MAX_DEPTH', 10)) at import")

# ---------------------------------------------------------------- C19
c = M.contract("_check_max_depth", props=["C19"])
c.param("context", T.Ref("Context"))
c.let("s", "context.get_start_method()")
c.let("ok", "not (s == 'fork' and _CURRENT_DEPTH > 0) and (MAX_DEPTH <= 0 or _CURRENT_DEPTH < MAX_DEPTH)")
c.ensures("check/accepts-only-below-limit", "ok")
c.raises("check/rejects-only-at-limit", "LokyRecursionError", when="not ok")
c.raises_only("check/raises-only-recursion-error")
c.modifies()
c.twin("check/accepts-only-below-limit", "ok and MAX_DEPTH == 0")
c.cover("accepts", "ok")
c.expect(paths=3)
c.replay("check_max_depth", method="context.get_start_method()", depth="old(_CURRENT_DEPTH)", max_depth="old(MAX_DEPTH)")
