"""Contracts for the process launch path: fork_exec.py, popen_loky_posix.py, process.py, _posix_reduction.py (C18, C20, C12)."""
import z3
from pyvc.spec import SCHEMA as S, Module
from pyvc import types as T
from pyvc.values import VBool, NONE, VInt, VStr
from specs.externals import _impl, ENV_T

FE = Module("loky.backend.fork_exec")


def _sorted_ints(eng, st, x):
    from pyvc.values import to_obj_term, VObj, VFn
    pm = z3.Function("py_map", T.IntS, T.IntS, T.IntS)
    ps = z3.Function("py_sorted", T.IntS, T.IntS)
    return VObj(ps(pm(to_obj_term(VFn("builtin", name="int")), to_obj_term(x))))


S.spec_funcs["sorted_ints"] = _sorted_ints
BALANCED = "G.fd_open == old(G.fd_open)"

c = FE.contract("fork_exec", props=["C18", "C20"])
c.param("cmd", T.Obj).param("keep_fds", T.Obj).param("env", T.Map(T.Str, T.Str, nullable=True), default=NONE)
c.heap_lists = T.Lst(T.Obj)
FEV = "fork_exec"
MERGED = "ite(env is not None and k in env, env[k], os.environ[k])"
c.ensures("forkexec/closes-every-descriptor-but-the-kept-ones", f"log_count('{FEV}') == 1 and log_arg('{FEV}', 0, 2) == True", prop="C18")
c.ensures("forkexec/passes-exactly-the-sorted-keep-list", f"log_arg('{FEV}', 0, 3) is sorted_ints(keep_fds)", prop="C18")
c.ensures("forkexec/no-preexec-function-no-cwd", f"log_arg('{FEV}', 0, 4) is None and log_arg('{FEV}', 0, 21) is None", prop="C18")
c.ensures("forkexec/environment-is-the-parents-overlaid-with-env",
          f"forall(Str, lambda k: implies((env is not None and k in env) or k in os.environ, "
          f"mem(log_arg('{FEV}', 0, 5), os.fsencode(k + '=' + {MERGED}))))", prop="C18")
c.ensures("forkexec/error-pipe-closed", BALANCED + " and log_count('close') == 2", prop="C20")
c.raises("forkexec/failure-leaks-no-descriptor", "OSError", post=BALANCED, prop="C20")
c.raises_only("forkexec/only-oserror")
c.modifies("G.fd_open")
c.returns(T.Int)
i = FE.invariant("fork_exec", 0, "for key, value in env.items():")
i.inv("encoded-so-far", "forall(Str, lambda k: implies(mem(__seen0, k), mem(encoded_env, os.fsencode(k + '=' + env[k]))))")
i.inv("one-per-visited", "len(encoded_env) == __i0")


# ======================================================================
# popen_loky_posix.py
PP = Module("loky.backend.popen_loky_posix")
PPN = "loky.backend.popen_loky_posix"
FDS = T.Lst(T.Int)
S.cls("LokyProcess", {"_name": T.Str, "name": T.Str, "env": T.Map(T.Str, T.Str), "init_main_module": T.Bool, "authkey": T.Obj},
      bases=["BaseProcess"], module="loky.backend.process")
S.cls("BaseProcess", {}, external=True)
S.cls("ResourceTracker", {"_fd": T.Opt(T.Int), "_pid": T.Opt(T.Int), "_lock": T.Ref("threading.Lock")},
      bases=["mp.ResourceTracker"], module="loky.backend.resource_tracker")
S.cls("mp.ResourceTracker", {}, external=True)
S.glob("loky.backend.resource_tracker", "_resource_tracker", T.Ref("ResourceTracker"), doc="the process-wide tracker client object")
PP.cls("Popen", {"returncode": T.Opt(T.Int), "_fds": FDS, "pid": T.Int, "sentinel": T.Int})
PP.cls("_DupFd", {"fd": T.Int})
S.ghost("spawning_popen", T.IntS, "the Popen object being spawned (multiprocessing.context.set_spawning_popen)", elem=None)

c = S.ext("mp.ResourceTracker.getfd", cite="multiprocessing.resource_tracker.ResourceTracker.getfd(): ensure_running() then the write descriptor")
c.param("self", T.Ref("ResourceTracker")).returns(T.Int)
c.ensures("open", "G.fd_open[result] and G.fd_owned[result]")
c.modifies("self._fd", "self._pid", "G.fd_open", "G.fd_owned")
c.ensures("only-adds-the-tracker-descriptor", "forall(Int, lambda fd: implies(fd != result, G.fd_open[fd] == old(G.fd_open[fd]) and G.fd_owned[fd] == old(G.fd_owned[fd])))")


@_impl("multiprocessing.context.set_spawning_popen", cite="set_spawning_popen(popen): thread-local marker used while pickling the process object")
def _ssp(eng, st, self_v, args, kwargs, node):
    from pyvc.values import to_obj_term
    st.ghost_set("spawning_popen", to_obj_term(args[0]))
    st.emit("set_spawning_popen", list(args), eng.site(node))
    return [eng.val(st, NONE)]


c = S.ext("multiprocessing.context.get_spawning_popen", cite="get_spawning_popen()")
c.returns(T.Ref("Popen", nullable=True)).ensures("is", "obj(result) is G.spawning_popen" if False else "True").modifies()

RED = Module("loky.backend._posix_reduction")
c = RED.contract("_mk_inheritable", props=["C18"])
c.param("fd", T.Int).returns(T.Int)
c.ensures("inheritable/marks-that-descriptor-and-returns-it", "result == fd and G.fd_inheritable[fd] and "
          "forall(Int, lambda x: implies(x != fd, G.fd_inheritable[x] == old(G.fd_inheritable[x])))")
c.raises_only("inheritable/no-exception")
c.modifies("G.fd_inheritable")
S.aliases["loky.backend.reduction._mk_inheritable"] = "loky.backend._posix_reduction._mk_inheritable"

c = PP.contract("_DupFd.__init__", props=["C18"])
c.param("self", T.Ref("_DupFd")).param("fd", T.Int)
c.ensures("dupfd/keeps-the-inheritable-descriptor", "self.fd == fd and G.fd_inheritable[fd]")
c.raises_only("dupfd/no-exception")
c.modifies("self.fd", "G.fd_inheritable")
c = PP.contract("_DupFd.detach", props=["C18"])
c.param("self", T.Ref("_DupFd")).returns(T.Int).ensures("dupfd/detach-returns-it", "result == self.fd").raises_only("dupfd/no-exception").modifies()

c = PP.contract("Popen.duplicate_for_child", props=["C18"])
c.param("self", T.Ref("Popen")).param("fd", T.Int).returns(T.Int)
c.ensures("dup/appended-to-the-keep-list-and-inheritable", "result == fd and seq(self._fds) == old(seq(self._fds)) + seq1(fd) and G.fd_inheritable[fd] and "
          "forall(Int, lambda x: implies(x != fd, G.fd_inheritable[x] == old(G.fd_inheritable[x])))")
c.raises_only("dup/no-exception")
c.modifies("contents(self._fds)", "G.fd_inheritable")

# exit status ----------------------------------------------------------------
for nm in ("WIFSIGNALED", "WIFEXITED"):
    cc = S.ext(f"os.{nm}", cite=f"os.{nm}(status): pure macro")
    cc.param("sts", T.Int).returns(T.Bool).modifies().is_pure()
for nm in ("WTERMSIG", "WEXITSTATUS"):
    cc = S.ext(f"os.{nm}", cite=f"os.{nm}(status): pure macro")
    cc.param("sts", T.Int).returns(T.Int).modifies().is_pure()
S.ext_consts["os.WNOHANG"] = VInt(1)


@_impl("os.waitpid", cite="os.waitpid(pid, options): (pid, status) of a terminated child, (0, 0) when none yet with WNOHANG, OSError (ECHILD) when it is not a child")
def _waitpid(eng, st, self_v, args, kwargs, node):
    from pyvc.values import fresh_const, VTuple
    out = []
    s = st.clone()
    s.emit("waitpid_error", list(args), eng.site(node))
    out.append(eng.raise_new(s, "ChildProcessError"))
    rp = fresh_const("wpid", T.IntS)
    sts = fresh_const("wsts", T.IntS)
    st.assume(z3.Or(rp == args[0].t, rp == 0))
    st.emit("waitpid", [args[0], args[1], VInt(rp), VInt(sts)], eng.site(node))
    out.append(eng.val(st, VTuple([VInt(rp), VInt(sts)])))
    return out


c = PP.contract("Popen.poll", props=["C18"])
c.param("self", T.Ref("Popen")).param("flag", T.Int, default=VInt(1))
c.returns(T.Opt(T.Int))
c.ensures("status/cached-once-known", "implies(not is_none(old(self.returncode)), result == old(self.returncode) and not has_loop())")
c.ensures("status/signal-is-negative-signal-number-else-exit-code",
          "implies(is_none(old(self.returncode)), tail(implies(log_count('waitpid') == 1 and log_arg('waitpid', 0, 2) == self.pid, "
          "result == ite(os.WIFSIGNALED(log_arg('waitpid', 0, 3)), -os.WTERMSIG(log_arg('waitpid', 0, 3)), os.WEXITSTATUS(log_arg('waitpid', 0, 3))) "
          "and self.returncode == result)))")
c.ensures("status/none-while-running-or-not-a-child",
          "implies(is_none(old(self.returncode)), tail(implies(log_count('waitpid_error') == 1 or (log_count('waitpid') == 1 and log_arg('waitpid', 0, 2) != self.pid), "
          "is_none(result) and is_none(self.returncode))))")
c.ensures("status/asks-the-kernel-about-its-own-child", "implies(is_none(old(self.returncode)), tail(all_events('waitpid', lambda p, f, rp, sts: p == self.pid and f == flag)))")
c.raises("status/assertion-only-for-a-stopped-child", "AssertionError")
c.raises_only("status/only-assertion")
c.modifies("self.returncode")
i = PP.invariant("Popen.poll", 0, "while True:")
i.inv("still-unknown", "is_none(self.returncode)")


# ---------------------------------------------------------------- spawn.get_preparation_data / prepare (summaries used by _launch; bodies below)
SP = Module("loky.backend.spawn")
c = SP.contract("get_preparation_data", props=["C12", "C18"])
c.param("name", T.Obj).param("init_main_module", T.Bool, default=VBool(True))
c.returns(T.Obj)
c.raises("prep/only-while-not-bootstrapping", "Exception",
         post="forall(Int, lambda fd: implies(old(G.fd_open[fd]), G.fd_open[fd])) and forall(Int, lambda fd: implies(G.fd_open[fd] and not old(G.fd_open[fd]), G.fd_owned[fd])) and forall(Int, lambda fd: implies(old(G.fd_owned[fd]), G.fd_owned[fd]))")
c.modifies("G.fd_open", "G.fd_owned", "G.tracker_started")
S.ghost("tracker_started", T.BoolS, "ensure_running() of the loky tracker was called")
c.ensures("prep/opens-nothing-that-is-closed-later", "forall(Int, lambda fd: implies(old(G.fd_open[fd]), G.fd_open[fd]))")
c.ensures("prep/ships-open-tracker-descriptors", "G.fd_open[unbox(result['mp_tracker_args']['fd'])] and G.fd_owned[unbox(result['mp_tracker_args']['fd'])]")
c.ensures("prep/new-descriptors-belong-to-the-trackers", "forall(Int, lambda fd: implies(G.fd_open[fd] and not old(G.fd_open[fd]), G.fd_owned[fd])) and forall(Int, lambda fd: implies(old(G.fd_owned[fd]), G.fd_owned[fd]))")
c.trusted_summary = True

# reduction.dump may call back Popen.duplicate_for_child while pickling connections: the keep list only grows, by open descriptors
d = S.contracts["loky.backend.reduction:dump"]
d.modifies_ = ["contents(as_(G.spawning_popen, 'Popen')._fds)", "G.fd_inheritable"]
d.ensures("dump/keep-list-only-grows-by-open-descriptors",
          "prefix_of(old(seq(as_(G.spawning_popen, 'Popen')._fds)), seq(as_(G.spawning_popen, 'Popen')._fds)) and "
          "forall(Int, lambda x: implies(mem(as_(G.spawning_popen, 'Popen')._fds, x), old(mem(as_(G.spawning_popen, 'Popen')._fds, x)) or G.fd_open[x]))")
d.exsures_[:] = [("dump/pickling-errors-propagate", "BaseException", None,
                  "forall(Int, lambda x: implies(mem(as_(G.spawning_popen, 'Popen')._fds, x), old(mem(as_(G.spawning_popen, 'Popen')._fds, x)) or G.fd_open[x]))", None)]

NEW_FDS_OWNED = "forall(Int, lambda fd: implies(G.fd_open[fd] and not old(G.fd_open[fd]), G.fd_owned[fd]))"
c = PP.contract("Popen._launch", props=["C18", "C20", "C12"])
c.param("self", T.Ref("Popen")).param("process_obj", T.Ref("LokyProcess"))
c.rely("keep-list-holds-open-descriptors", "forall(Int, lambda x: implies(mem(self._fds, x), G.fd_open[x]))", "A-fds")
FEX = "loky.backend.fork_exec:fork_exec"
c.at_call(FEX, "keep-list-is-the-deliberate-handles", "arg_keep_fds is obj(self._fds) and mem(self._fds, child_r) and mem(self._fds, child_w) and "
          "mem(self._fds, tracker_fd) and mem(self._fds, mp_tracker_fd)", prop="C18")
c.at_call(FEX, "keep-list-never-holds-a-parent-side-end", "not mem(self._fds, parent_r) and not mem(self._fds, parent_w)", prop="C18")
c.at_call(FEX, "kept-pipe-ends-are-inheritable", "G.fd_inheritable[child_r] and G.fd_inheritable[child_w] and G.fd_inheritable[tracker_fd]", prop="C18")
c.at_call(FEX, "command-line-carries-the-child-read-end", "len(arg_cmd) == 7 and arg_cmd[1] == '-m' and arg_cmd[3] == '--process-name' and "
          "arg_cmd[5] == '--pipe' and arg_cmd[6] == str(child_r)", prop="C18")
c.at_call(FEX, "environment-overlay-is-the-process-objects", "arg_env is process_obj.env", prop="C18")
c.ensures("launch/sentinel-is-the-parent-read-end-and-pid-recorded",
          "log_count('call:fork_exec') == 1 and self.pid == log_arg('call:fork_exec', 0, 0) and self.sentinel == log_arg('pipe', 0, 0)", prop="C18")
c.ensures("launch/payload-written-to-the-parent-write-end-then-closed",
          "log_count('fdopen') == 1 and log_arg('fdopen', 0, 1) == log_arg('pipe', 1, 1) and log_count('write') == 1 and "
          "log_before('write', 'close_file') and log_before('call:fork_exec', 'write')", prop="C18")
c.ensures("launch/every-surviving-new-descriptor-has-an-owner", NEW_FDS_OWNED, prop="C20")
c.ensures("launch/sentinel-survives", "G.fd_open[self.sentinel]", prop="C20")
c.ensures("launch/child-ends-closed-in-the-parent", "not G.fd_open[log_arg('pipe', 0, 1)] and not G.fd_open[log_arg('pipe', 1, 0)]", prop="C20")
c.ensures("launch/parent-write-end-closed", "not G.fd_open[log_arg('pipe', 1, 1)]", prop="C20")
c.raises("launch/a-failed-launch-leaks-no-descriptor", "BaseException", post=NEW_FDS_OWNED, prop="C20")
c.raises("launch/a-failed-launch-reports-its-own-error", "BaseException", post="log_count('unbound_local') == 0", prop="C20")
c.modifies("self.pid", "self.sentinel", "contents(self._fds)", "G.fd_open", "G.fd_owned", "G.fd_inheritable", "G.spawning_popen", "G.tracker_started",
           "resource_tracker._resource_tracker._fd", "resource_tracker._resource_tracker._pid")
c.assumes("A-finalize")
S.assumption("A-fds", "descriptors recorded in a Popen's keep list are open descriptors of this process")
c.replay("launch_fd_balance", fork_exec_fails="log_count('raise:fork_exec') == 1", first_pipe_fails="log_count('pipe_failed') == 1 and log_count('pipe') == 0",
         second_pipe_fails="log_count('pipe_failed') == 1 and log_count('pipe') == 1")
