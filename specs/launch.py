"""Contracts for the process launch path: fork_exec.py, popen_loky_posix.py, process.py, _posix_reduction.py (C18, C20, C12)."""
import z3
from pyvc.spec import SCHEMA as S, Module
from pyvc import types as T
from pyvc.values import VBool, NONE, VInt, VStr
from specs.externals import _impl, ENV_T

FE = Module("loky.backend.fork_exec")


def _sorted_ints(eng, st, x):
    from pyvc.values import to_obj_term, VObj, VFn
    pm = z3.Function("py_map", T.IntS, T.IntS, T.IntS)
    ps = z3.Function("py_sorted", T.IntS, T.IntS)
    return VObj(ps(pm(to_obj_term(VFn("builtin", name="int")), to_obj_term(x))))


S.spec_funcs["sorted_ints"] = _sorted_ints
BALANCED = "G.fd_open == old(G.fd_open)"

c = FE.contract("fork_exec", props=["C18", "C20", "C19"])   # C19: LOKY_MAX_DEPTH reaches nested workers through the environment the child is given
c.param("cmd", T.Obj).param("keep_fds", T.Obj).param("env", T.Map(T.Str, T.Str, nullable=True), default=NONE)
c.heap_lists = T.Lst(T.Obj)
FEV = "fork_exec"
MERGED = "ite(env is not None and k in env, env[k], os.environ[k])"
c.ensures("forkexec/closes-every-descriptor-but-the-kept-ones", f"log_count('{FEV}') == 1 and log_arg('{FEV}', 0, 2) == True", prop="C18")
c.ensures("forkexec/passes-exactly-the-sorted-keep-list", f"log_arg('{FEV}', 0, 3) is sorted_ints(keep_fds)", prop="C18")
c.ensures("forkexec/no-preexec-function-no-cwd", f"log_arg('{FEV}', 0, 4) is None and log_arg('{FEV}', 0, 21) is None", prop="C18")
c.ensures("forkexec/environment-is-the-parents-overlaid-with-env",
          f"forall(Str, lambda k: implies((env is not None and k in env) or k in os.environ, "
          f"mem(log_arg('{FEV}', 0, 5), os.fsencode(k + '=' + {MERGED}))))", prop=["C18", "C19"])
c.ensures("forkexec/error-pipe-closed", BALANCED + " and log_count('close') == 2", prop="C20")
c.raises("forkexec/failure-leaks-no-descriptor", "OSError", post=BALANCED, prop="C20")
c.raises_only("forkexec/only-oserror")
c.modifies("G.fd_open")
c.returns(T.Int)
i = FE.invariant("fork_exec", 0, "for key, value in env.items():")
i.inv("encoded-so-far", "forall(Str, lambda k: implies(mem(__seen0, k), mem(encoded_env, os.fsencode(k + '=' + env[k]))))")
i.inv("one-per-visited", "len(encoded_env) == __i0")


# ======================================================================
# popen_loky_posix.py
PP = Module("loky.backend.popen_loky_posix")
PPN = "loky.backend.popen_loky_posix"
FDS = T.Lst(T.Int)
S.cls("LokyProcess", {"_name": T.Str, "name": T.Str, "env": T.Map(T.Str, T.Str), "init_main_module": T.Bool, "authkey": T.Obj},
      bases=["BaseProcess"], module="loky.backend.process")
S.cls("BaseProcess", {}, external=True)
S.cls("ResourceTracker", {"_fd": T.Opt(T.Int), "_pid": T.Opt(T.Int), "_lock": T.Ref("threading.Lock")},
      bases=["mp.ResourceTracker"], module="loky.backend.resource_tracker")
S.cls("mp.ResourceTracker", {}, external=True)
S.glob("loky.backend.resource_tracker", "_resource_tracker", T.Ref("ResourceTracker"), doc="the process-wide tracker client object")
PP.cls("Popen", {"returncode": T.Opt(T.Int), "_fds": FDS, "pid": T.Int, "sentinel": T.Int})
PP.cls("_DupFd", {"fd": T.Int})
S.ghost("spawning_popen", T.IntS, "the Popen object being spawned (multiprocessing.context.set_spawning_popen)", elem=None)

c = S.ext("mp.ResourceTracker.getfd", cite="multiprocessing.resource_tracker.ResourceTracker.getfd(): ensure_running() then the write descriptor")
c.param("self", T.Ref("ResourceTracker")).returns(T.Int)
c.ensures("open", "G.fd_open[result] and self._fd == result")
c.modifies("self._fd", "self._pid", "G.fd_open")
c.ensures("only-adds-the-tracker-descriptor", "forall(Int, lambda fd: implies(fd != result and G.tracker_stable, G.fd_open[fd] == old(G.fd_open[fd])))")


@_impl("multiprocessing.context.set_spawning_popen", cite="set_spawning_popen(popen): thread-local marker used while pickling the process object")
def _ssp(eng, st, self_v, args, kwargs, node):
    from pyvc.values import to_obj_term
    st.ghost_set("spawning_popen", to_obj_term(args[0]))
    st.emit("set_spawning_popen", list(args), eng.site(node))
    return [eng.val(st, NONE)]


c = S.ext("multiprocessing.context.get_spawning_popen", cite="get_spawning_popen()")
c.returns(T.Ref("Popen", nullable=True)).ensures("is", "obj(result) is G.spawning_popen" if False else "True").modifies()

RED = Module("loky.backend._posix_reduction")
c = RED.contract("_mk_inheritable", props=["C18"])
c.param("fd", T.Int).returns(T.Int)
c.ensures("inheritable/marks-that-descriptor-and-returns-it", "result == fd and G.fd_inheritable[fd] and "
          "forall(Int, lambda x: implies(x != fd, G.fd_inheritable[x] == old(G.fd_inheritable[x])))")
c.raises_only("inheritable/no-exception")
c.modifies("G.fd_inheritable")
S.aliases["loky.backend.reduction._mk_inheritable"] = "loky.backend._posix_reduction._mk_inheritable"

c = PP.contract("_DupFd.__init__", props=["C18"])
c.param("self", T.Ref("_DupFd")).param("fd", T.Int)
c.ensures("dupfd/keeps-the-inheritable-descriptor", "self.fd == fd and G.fd_inheritable[fd]")
c.raises_only("dupfd/no-exception")
c.modifies("self.fd", "G.fd_inheritable")
c = PP.contract("_DupFd.detach", props=["C18"])
c.param("self", T.Ref("_DupFd")).returns(T.Int).ensures("dupfd/detach-returns-it", "result == self.fd").raises_only("dupfd/no-exception").modifies()

c = PP.contract("Popen.duplicate_for_child", props=["C18"])
c.param("self", T.Ref("Popen")).param("fd", T.Int).returns(T.Int)
c.ensures("dup/appended-to-the-keep-list-and-inheritable", "result == fd and seq(self._fds) == old(seq(self._fds)) + seq1(fd) and G.fd_inheritable[fd] and "
          "forall(Int, lambda x: implies(x != fd, G.fd_inheritable[x] == old(G.fd_inheritable[x])))")
c.raises_only("dup/no-exception")
c.modifies("contents(self._fds)", "G.fd_inheritable")

# exit status ----------------------------------------------------------------
for nm in ("WIFSIGNALED", "WIFEXITED"):
    cc = S.ext(f"os.{nm}", cite=f"os.{nm}(status): pure macro")
    cc.param("sts", T.Int).returns(T.Bool).modifies().is_pure()
for nm in ("WTERMSIG", "WEXITSTATUS"):
    cc = S.ext(f"os.{nm}", cite=f"os.{nm}(status): pure macro")
    cc.param("sts", T.Int).returns(T.Int).modifies().is_pure()
S.ext_consts["os.WNOHANG"] = VInt(1)


@_impl("os.waitpid", cite="os.waitpid(pid, options): (pid, status) of a terminated child, (0, 0) when none yet with WNOHANG, OSError (ECHILD) when it is not a child")
def _waitpid(eng, st, self_v, args, kwargs, node):
    from pyvc.values import fresh_const, VTuple
    out = []
    if isinstance(args[0], type(NONE)):
        return [eng.raise_new(st, "TypeError")]
    s = st.clone()
    s.emit("waitpid_error", list(args), eng.site(node))
    out.append(eng.raise_new(s, "ChildProcessError"))
    rp = fresh_const("wpid", T.IntS)
    sts = fresh_const("wsts", T.IntS)
    st.assume(z3.Or(rp == args[0].t, rp == 0))
    st.emit("waitpid", [args[0], args[1], VInt(rp), VInt(sts)], eng.site(node))
    out.append(eng.val(st, VTuple([VInt(rp), VInt(sts)])))
    return out


c = PP.contract("Popen.poll", props=["C18"])
c.param("self", T.Ref("Popen")).param("flag", T.Int, default=VInt(1))
c.returns(T.Opt(T.Int))
c.ensures("status/cached-once-known", "implies(not is_none(old(self.returncode)), result == old(self.returncode) and not has_loop())")
c.ensures("status/signal-is-negative-signal-number-else-exit-code",
          "implies(is_none(old(self.returncode)), tail(implies(log_count('waitpid') == 1 and log_arg('waitpid', 0, 2) == self.pid, "
          "result == ite(os.WIFSIGNALED(log_arg('waitpid', 0, 3)), -os.WTERMSIG(log_arg('waitpid', 0, 3)), os.WEXITSTATUS(log_arg('waitpid', 0, 3))) "
          "and self.returncode == result)))")
c.ensures("status/none-while-running-or-not-a-child",
          "implies(is_none(old(self.returncode)), tail(implies(log_count('waitpid_error') == 1 or (log_count('waitpid') == 1 and log_arg('waitpid', 0, 2) != self.pid), "
          "is_none(result) and is_none(self.returncode))))")
c.ensures("status/asks-the-kernel-about-its-own-child", "implies(is_none(old(self.returncode)), tail(all_events('waitpid', lambda p, f, rp, sts: p == self.pid and f == flag)))")
c.raises("status/assertion-only-for-a-stopped-child", "AssertionError")
c.raises_only("status/only-assertion")
c.modifies("self.returncode")
i = PP.invariant("Popen.poll", 0, "while True:")
i.inv("still-unknown", "is_none(self.returncode)")


# ---------------------------------------------------------------- spawn.get_preparation_data / prepare (summaries used by _launch; bodies below)
SP = Module("loky.backend.spawn")
c = SP.contract("get_executable")
c.returns(T.Str).modifies()
c.trusted_summary = True
c = SP.contract("get_preparation_data", props=["C12", "C18"])
c.param("name", T.Obj).param("init_main_module", T.Bool, default=VBool(True))
c.returns(T.Obj)
NEWTR = "forall(Int, lambda fd: implies(G.fd_open[fd] and not old(G.fd_open[fd]), loky_tracker()._fd == fd or unbox(mp_tracker()._fd) == fd))"
KEEPOPEN = "implies(G.tracker_stable, forall(Int, lambda fd: implies(old(G.fd_open[fd]), G.fd_open[fd])))"
c.raises("prep/only-while-not-bootstrapping", "Exception", post=KEEPOPEN + " and " + NEWTR + " and implies(G.tracker_stable and not is_none(old(loky_tracker()._fd)), loky_tracker()._fd == old(loky_tracker()._fd))")
c.modifies("G.fd_open", "G.tracker_started", "loky_tracker()._fd", "loky_tracker()._pid", "mp_tracker()._fd", "mp_tracker()._pid")
S.ghost("tracker_started", T.BoolS, "ensure_running() of the loky tracker was called")
S.ghost("tracker_stable", T.BoolS, "configuration: the tracker processes stay alive during the call (A-tracker-stable)")
S.assumption("A-tracker-stable", "the resource tracker does not die between two consecutive liveness probes of one launch")
c.ensures("prep/keeps-open-descriptors-open-while-the-tracker-lives", KEEPOPEN)
c.ensures("prep/ships-an-open-mp-tracker-descriptor", "G.fd_open[unbox(result['mp_tracker_args']['fd'])] and result['mp_tracker_args']['fd'] is mp_tracker()._fd")
c.ensures("prep/new-descriptors-are-the-trackers", NEWTR)
STABLE_FD = "implies(G.tracker_stable and not is_none(old(loky_tracker()._fd)), loky_tracker()._fd == old(loky_tracker()._fd))"
c.ensures("prep/a-living-tracker-keeps-its-descriptor", STABLE_FD)
c.trusted_summary = True

# reduction.dump may call back Popen.duplicate_for_child while pickling connections: the keep list only grows, by open descriptors
d = S.contracts["loky.backend.reduction:dump"]
d.modifies_ = ["contents(as_(G.spawning_popen, 'Popen')._fds)", "G.fd_inheritable"]
S.contracts["loky.backend.reduction:dumps"].modifies_ = ["contents(as_(G.spawning_popen, 'Popen')._fds)", "G.fd_inheritable"]
d.ensures("dump/keep-list-only-grows-by-open-descriptors",
          "prefix_of(old(seq(as_(G.spawning_popen, 'Popen')._fds)), seq(as_(G.spawning_popen, 'Popen')._fds)) and "
          "forall(Int, lambda x: implies(mem(as_(G.spawning_popen, 'Popen')._fds, x), old(mem(as_(G.spawning_popen, 'Popen')._fds, x)) or G.fd_open[x]))")
NOSPAWN = ("implies(G.spawning_popen == 0, seq(as_(G.spawning_popen, 'Popen')._fds) == old(seq(as_(G.spawning_popen, 'Popen')._fds)) and "
           "G.fd_inheritable == old(G.fd_inheritable))")
d.ensures("dump/no-callback-effect-outside-a-spawn", NOSPAWN)
dd = S.contracts["loky.backend.reduction:dumps"]
dd.ensures("dumps/no-callback-effect-outside-a-spawn", NOSPAWN)
dd.exsures_[:] = [("dumps/pickling-errors-propagate", "BaseException", None, NOSPAWN, None)]
for k_ in ("loky.backend.queues:SimpleQueue.put", "loky.backend.queues:Queue._feed"):
    S.contracts[k_].rely("no-process-is-being-pickled", "G.spawning_popen == 0", "A-spawn")
S.assumption("A-spawn", "queues do not send objects while a process object is being pickled for launch (the spawning-popen marker is only set around that pickling)")
d.exsures_[:] = [("dump/pickling-errors-propagate", "BaseException", None,
                  "forall(Int, lambda x: implies(mem(as_(G.spawning_popen, 'Popen')._fds, x), old(mem(as_(G.spawning_popen, 'Popen')._fds, x)) or G.fd_open[x])) and " + NOSPAWN, None)]

OWNED = "(G.fd_owned[fd] or loky_tracker()._fd == fd or unbox(mp_tracker()._fd) == fd)"
NEW_FDS_OWNED = "forall(Int, lambda fd: implies(G.fd_open[fd] and not old(G.fd_open[fd]), " + OWNED + "))"
c = PP.contract("Popen._launch", props=["C18", "C20", "C12", "C02"])
c.param("self", T.Ref("Popen")).param("process_obj", T.Ref("LokyProcess"))
c.rely("keep-list-holds-open-descriptors", "forall(Int, lambda x: implies(mem(self._fds, x), G.fd_open[x]))", "A-fds")
c.rely("the-trackers-do-not-die-during-the-launch", "G.tracker_stable", "A-tracker-stable")
FEX = "loky.backend.fork_exec:fork_exec"
c.at_call(FEX, "keep-list-is-the-deliberate-handles", "arg_keep_fds is obj(self._fds) and mem(self._fds, child_r) and mem(self._fds, child_w) and "
          "mem(self._fds, tracker_fd) and mem(self._fds, mp_tracker_fd)", prop="C18")
c.at_call(FEX, "keep-list-never-holds-a-parent-side-end", "not mem(self._fds, parent_r) and not mem(self._fds, parent_w)", prop="C18")
c.at_call(FEX, "kept-pipe-ends-are-inheritable", "G.fd_inheritable[child_r] and G.fd_inheritable[child_w] and G.fd_inheritable[tracker_fd]", prop="C18")
c.at_call(FEX, "command-line-carries-the-child-read-end", "len(arg_cmd) == 7 and arg_cmd[1] == '-m' and arg_cmd[3] == '--process-name' and "
          "arg_cmd[5] == '--pipe' and arg_cmd[6] == str(child_r)", prop="C18")
c.at_call(FEX, "environment-overlay-is-the-process-objects", "arg_env is process_obj.env", prop="C18")
c.ensures("launch/sentinel-is-the-parent-read-end-and-pid-recorded",
          "log_count('call:fork_exec') == 1 and self.pid == log_arg('call:fork_exec', 0, 0) and self.sentinel == log_arg('pipe', 0, 0)", prop="C18")
c.ensures("launch/payload-written-to-the-parent-write-end-then-closed",
          "log_count('fdopen') == 1 and log_arg('fdopen', 0, 1) == log_arg('pipe', 1, 1) and log_count('write') == 1 and "
          "log_before('write', 'close_file') and log_before('call:fork_exec', 'write')", prop="C18")
# C02 / C18 ("at any instant of its life"; "liveness reported faithfully"): a child that dies before it has read its payload must make the write fail (EPIPE),
# which needs every copy of the read end closed in the parent *before* the write; with a copy still open and a payload above the pipe buffer the write, and
# submit() with the shutdown and management locks held, blocks for ever
c.at_call("File.write", "the-parent-holds-no-copy-of-the-childs-read-end-while-it-writes-the-payload", "not G.fd_open[log_arg('pipe', 1, 0)]", prop=["C18", "C02"])
c.replay_for("the-parent-holds-no-copy-of-the-childs-read-end-while-it-writes-the-payload", "worker_dies_before_reading_payload")
c.ensures("launch/every-surviving-new-descriptor-has-an-owner", NEW_FDS_OWNED, prop="C20")
c.ensures("launch/sentinel-survives", "G.fd_open[self.sentinel]", prop="C20")
c.ensures("launch/child-ends-closed-in-the-parent", "not G.fd_open[log_arg('pipe', 0, 1)] and not G.fd_open[log_arg('pipe', 1, 0)]", prop="C20")
c.ensures("launch/parent-write-end-closed", "not G.fd_open[log_arg('pipe', 1, 1)]", prop="C20")
c.raises("launch/a-failed-launch-leaks-no-descriptor", "BaseException", post=NEW_FDS_OWNED, prop="C20")
c.raises("launch/a-failed-launch-reports-its-own-error", "BaseException", post="log_count('unbound_local') == 0", prop="C20")
c.modifies("self.pid", "self.sentinel", "contents(self._fds)", "G.fd_open", "G.fd_owned", "G.fd_inheritable", "G.spawning_popen", "G.tracker_started",
           "resource_tracker._resource_tracker._fd", "resource_tracker._resource_tracker._pid", "G.sig_blocked", "G.tracker_spawns", "G.pid_live", "G.joined",
           "mp_tracker()._fd", "mp_tracker()._pid")
c.assumes("A-finalize")
S.assumption("A-fds", "descriptors recorded in a Popen's keep list are open descriptors of this process")
c.replay("launch_fd_balance", fork_exec_fails="log_count('raise:fork_exec') == 1", first_pipe_fails="log_count('pipe_failed') == 1 and log_count('pipe') == 0",
         second_pipe_fails="log_count('pipe_failed') == 1 and log_count('pipe') == 1")


# ======================================================================
# process.py
PR = Module("loky.backend.process")
c = S.ext("BaseProcess.__init__", cite="multiprocessing.process.BaseProcess.__init__(group, target, name, args, kwargs, daemon)")
c.param("self", T.Ref("BaseProcess")).kwargs("kw").modifies()
S.classes["LokyProcess"].fields.update({"_target": T.Obj, "_args": T.Obj})
S.cls("LokyInitMainProcess", {}, bases=["LokyProcess"], module="loky.backend.process")

c = PR.contract("LokyProcess.__init__", props=["C18"])
c.param("self", T.Ref("LokyProcess")).param("group", T.Obj, default=NONE).param("target", T.Obj, default=NONE).param("name", T.Obj, default=NONE)
c.param("args", T.Obj, default=NONE).param("kwargs", T.Obj, default=NONE).param("daemon", T.Obj, default=NONE)
c.param("init_main_module", T.Bool, default=VBool(False)).param("env", T.Map(T.Str, T.Str, nullable=True), default=NONE)
c.ensures("process/main-module-not-reloaded-unless-asked", "self.init_main_module == init_main_module", prop="C18")
c.ensures("process/env-overlay-kept", "implies(env is not None, self.env is env) and implies(env is None, len(self.env) == 0 and fresh(self.env))", prop="C18")
c.raises_only("process/no-exception")
c.modifies("self.env", "self.authkey", "self.init_main_module")

c = PR.contract("LokyInitMainProcess.__init__", props=["C18"])
c.param("self", T.Ref("LokyInitMainProcess")).param("group", T.Obj, default=NONE).param("target", T.Obj, default=NONE).param("name", T.Obj, default=NONE)
c.param("args", T.Obj, default=NONE).param("kwargs", T.Obj, default=NONE).param("daemon", T.Obj, default=NONE)
c.param("env", T.Map(T.Str, T.Str, nullable=True), default=NONE)
c.ensures("process/init-main-variant-reloads-main", "self.init_main_module == True", prop="C18")
c.ensures("process/env-overlay-kept", "implies(env is not None, self.env is env) and implies(env is None, len(self.env) == 0 and fresh(self.env))", prop="C18")
c.raises_only("process/no-exception")
c.modifies("self.env", "self.authkey", "self.init_main_module")

# ---------------------------------------------------------------- Popen.__init__ / wait
c = PP.contract("Popen.__init__", props=["C18"])
c.param("self", T.Ref("Popen")).param("process_obj", T.Ref("LokyProcess"))
c.ensures("popen/launches-once-with-an-empty-keep-list-to-start-with", "log_count('call:Popen._launch') == 1 and log_arg('call:Popen._launch', 0, 2) is process_obj")
c.raises("popen/launch-errors-propagate", "BaseException")
c.modifies("self.returncode", "self._fds", "self.pid", "self.sentinel", "G.fd_open", "G.fd_owned", "G.fd_inheritable", "G.spawning_popen", "G.tracker_started",
           "resource_tracker._resource_tracker._fd", "resource_tracker._resource_tracker._pid", "G.sig_blocked", "G.tracker_spawns", "G.pid_live", "G.joined",
           "mp_tracker()._fd", "mp_tracker()._pid")
for nm in ("sys.stdout.flush", "sys.stderr.flush"):
    S.ext(nm, cite="file.flush()").modifies().is_quiet()

c = PP.contract("Popen.wait", props=["C18"])
c.param("self", T.Ref("Popen")).param("timeout", T.Opt(T.Real), default=NONE)
c.returns(T.Opt(T.Int))
c.ensures("wait/known-status-returned-at-once", "implies(not is_none(old(self.returncode)), result == old(self.returncode) and log_count('wait') == 0)")
c.ensures("wait/none-when-the-sentinel-did-not-become-ready-in-time",
          "implies(is_none(old(self.returncode)) and log_count('wait') == 1 and len(log_arg('wait', 0, 1)) == 0, "
          "is_none(result) and log_count('call:Popen.poll') == 0)")
c.ensures("wait/otherwise-the-exit-status-from-poll",
          "implies(is_none(old(self.returncode)) and (log_count('wait') == 0 or len(log_arg('wait', 0, 1)) > 0), "
          "log_count('call:Popen.poll') == 1 and result == log_arg('call:Popen.poll', 0, 0))")
# the sentinel becomes ready (descriptors closed) a little before the process is waitable: once it fired, the status is collected with a *blocking* waitpid,
# otherwise join(t) returns with the worker reported alive and without exit code although it is gone (only a zero timeout never blocks)
c.ensures("wait/blocks-for-the-status-once-the-sentinel-fired",
          "implies(log_count('call:Popen.poll') == 1 and (is_none(timeout) or the(timeout) != 0.0), log_arg('call:Popen.poll', 0, 2) == 0)")
c.ensures("wait/only-a-timed-wait-polls-the-sentinel", "(log_count('wait') == 1) == (is_none(old(self.returncode)) and not is_none(timeout))")
c.ensures("wait/waits-on-its-own-sentinel", "all_events('wait', lambda a, r: mem(a, self.sentinel) and len(a) == 1)")
c.raises("wait/poll-assertion", "AssertionError")
c.modifies("self.returncode")


# ======================================================================
# spawn.py: what the child is told (C12: the tracker; C18: the main module)
S.classes["BaseProcess"].fields.update({"name": T.Obj, "authkey": T.Obj})
c = S.ext("multiprocessing.process.current_process", cite="multiprocessing.process.current_process(): the object of this process")
c.returns(T.Ref("BaseProcess")).modifies().is_pure()
S.ext_consts["multiprocessing.util._logger"] = NONE
c = S.ext("os.getcwd", cite="os.getcwd()")
c.returns(T.Str).modifies()
for nm in ("isabs",):
    cc = S.ext(f"os.path.{nm}", cite=f"os.path.{nm}(p): pure")
    cc.param("p", T.Obj).returns(T.Bool).modifies().is_pure()
for nm in ("normpath", "basename"):
    cc = S.ext(f"os.path.{nm}", cite=f"os.path.{nm}(p): pure")
    cc.param("p", T.Obj).returns(T.Obj).modifies().is_pure()
cc = S.ext("os.path.join", cite="os.path.join(a, b): pure")
cc.param("a", T.Obj).param("b", T.Obj).returns(T.Obj).modifies().is_pure()
cc = S.ext("os.chdir", cite="os.chdir(path): not tracked")
cc.param("p", T.Obj).modifies().is_quiet()
S.cls("mp.TrackerClient", {"_fd": T.Obj, "_pid": T.Obj}, external=True)
S.glob("<ext>", "multiprocessing.resource_tracker._resource_tracker", T.Ref("mp.TrackerClient"), doc="multiprocessing's own tracker client")
cc = S.ext("mp.TrackerClient.ensure_running", cite="multiprocessing.resource_tracker.ResourceTracker.ensure_running(): starts multiprocessing's tracker if needed")
cc.param("self", T.Ref("mp.TrackerClient")).event("mp_ensure_running", "self").modifies("self._fd", "self._pid")

for nm in ("_fixup_main_from_name", "_fixup_main_from_path"):
    cc = SP.contract(nm, props=["C18"])
    cc.param("x", T.Obj)
    cc.raises("fixup/errors-propagate", "BaseException")
    cc.modifies()
    cc.trusted_summary = True
SP.glob("old_main_modules", T.Obj)
SP.glob("WINEXE", T.Bool, const=VBool(False))
SP.glob("WINSERVICE", T.Bool, const=VBool(False))
cc = SP.contract("_check_not_importing_main")
cc.raises("prep/not-while-bootstrapping", "RuntimeError")
cc.modifies()
cc.trusted_summary = True

S.spec_funcs["loky_tracker"] = lambda eng, st: eng.glob_value(st, "loky.backend.resource_tracker", "_resource_tracker")[0][1]
S.spec_funcs["mp_tracker"] = lambda eng, st: eng.glob_value(st, "<ext>", "multiprocessing.resource_tracker._resource_tracker")[0][1]
mpc = S.contracts["mp.TrackerClient.ensure_running"]
mpc.modifies_ = ["self._fd", "self._pid", "G.fd_open"]
mpc.ensures("open", "G.fd_open[unbox(self._fd)]")
mpc.ensures("only-adds", "forall(Int, lambda fd: implies(fd != unbox(self._fd), G.fd_open[fd] == old(G.fd_open[fd])))")

S.contracts["loky.backend.spawn:get_preparation_data"].trusted_summary = False
c = S.contracts["loky.backend.spawn:get_preparation_data"]
c.exsures_[:] = []
ER = "call:ResourceTracker.ensure_running"
c.ensures("inherit/tracker-started-before-its-coordinates-are-read", f"log_count('{ER}') == 1", prop="C12")
c.ensures("inherit/ships-the-trackers-pid-and-descriptor-as-they-are-after-that",
          "result['tracker_args']['pid'] == loky_tracker()._pid and result['tracker_args']['fd'] == loky_tracker()._fd", prop="C12")
c.ensures("inherit/ships-multiprocessings-tracker-too", "log_count('mp_ensure_running') == 1 and 'mp_tracker_args' in result", prop="C12")
c.ensures("main/not-shipped-unless-asked", "implies(not init_main_module, 'init_main_from_name' not in result and 'init_main_from_path' not in result)", prop="C18")
c.ensures("main/name-or-path-when-asked", "implies(init_main_module and 'init_main_from_name' in result, 'init_main_from_path' not in result)", prop="C18")
c.raises("prep/only-start-up-errors", "BaseException", post=KEEPOPEN + " and " + NEWTR + " and " + STABLE_FD)
c.modifies_ = ["G.fd_open", "G.sig_blocked", "G.tracker_spawns", "G.pid_live", "G.joined", "G.tracker_started",
               "loky_tracker()._fd", "loky_tracker()._pid", "mp_tracker()._fd", "mp_tracker()._pid"]


c = SP.contract("prepare", props=["C12", "C18", "C13"])
c.param("data", T.Obj).param("parent_sentinel", T.Obj, default=NONE)
FIX = "(log_count('call:_fixup_main_from_name') + log_count('call:_fixup_main_from_path') + log_count('raise:_fixup_main_from_name') + log_count('raise:_fixup_main_from_path'))"
c.ensures("inherit/installs-the-parents-tracker",
          "implies('tracker_args' in data, loky_tracker()._pid == unbox(data['tracker_args']['pid']) and loky_tracker()._fd == unbox(data['tracker_args']['fd']))", prop="C12")
c.ensures("inherit/leaves-the-tracker-alone-otherwise", "implies('tracker_args' not in data, loky_tracker()._pid == old(loky_tracker()._pid) and loky_tracker()._fd == old(loky_tracker()._fd))", prop="C12")
c.ensures("main/never-reloaded-unless-the-parent-asked",
          f"implies('init_main_from_name' not in data and 'init_main_from_path' not in data, {FIX} == 0)", prop="C18")
c.ensures("main/reloaded-at-most-once", f"{FIX} <= 1", prop="C18")
INSTALLED = ("implies('tracker_args' in data, loky_tracker()._pid == unbox(data['tracker_args']['pid']) and loky_tracker()._fd == unbox(data['tracker_args']['fd']))")
for fx in ("_fixup_main_from_name", "_fixup_main_from_path"):
    c.at_call(f"loky.backend.spawn:{fx}", "the-parents-tracker-is-installed-before-the-main-module-is-re-run", INSTALLED, prop=["C12", "C13"])   # C13: a semaphore created by the re-run main module must go to the tree's tracker, not to a private one that dies with the worker
c.raises("prepare/errors-of-the-fix-up-or-logging-propagate", "BaseException",
         post=f"implies('init_main_from_name' not in data and 'init_main_from_path' not in data, {FIX} == 0)", prop="C18")
c.modifies("loky_tracker()._fd", "loky_tracker()._pid", f"glob:loky.backend.spawn.old_main_modules", "mp_tracker()._fd", "mp_tracker()._pid",
           "process.current_process().name", "process.current_process().authkey")
c.assumes("A-user")
S.cls("Logger", {"handlers": T.Ref("HandlerList")}, external=True)
S.cls("HandlerList", {}, external=True)
S.cls("Handler", {}, external=True)
S.ext("multiprocessing.util.get_logger", cite="util.get_logger(): multiprocessing's logger").returns(T.Ref("Logger")).modifies().is_pure()
S.ext("Logger.setLevel", cite="Logger.setLevel(level): logging configuration, not tracked").param("self", T.Ref("Logger")).param("level", T.Obj).modifies().is_quiet()
S.ext("HandlerList.__getitem__", cite="list indexing").param("self", T.Ref("HandlerList")).param("i", T.Obj).returns(T.Ref("Handler")).modifies().is_pure()
S.ext("Handler.setFormatter", cite="Handler.setFormatter(fmt): logging configuration, not tracked").param("self", T.Ref("Handler")).param("fmt", T.Obj).modifies().is_quiet()

# ======================================================================
# initializers.py (C18: every worker runs the configured initializer first)
IN = Module("loky.initializers")
IN.cls("_ChainedInitializer", {"_initializers": T.Lst(T.Obj)})
S.contracts["loky.initializers:_prepare_initializer"].trusted_summary = False
c = S.contracts["loky.initializers:_prepare_initializer"]
VZ = "log_arg('call:_make_viztracer_initializer_and_initargs', 0, 0)"
c.ensures("prepare/the-user-initializer-comes-first-with-its-own-arguments",
          f"log_count('call:_make_viztracer_initializer_and_initargs') == 1 and "
          f"ite(initializer is None, ite({VZ}[0] is None, result[0] is None, result[0] is {VZ}[0] and result[1] is {VZ}[1]), "
          f"ite({VZ}[0] is None, result[0] is initializer and result[1] is initargs, "
          f"cls_is(result[0], '_ChainedInitializer') and len(as_(result[0], '_ChainedInitializer')._initializers) == 2 and "
          f"as_(result[0], '_ChainedInitializer')._initializers[0] is initializer and as_(result[0], '_ChainedInitializer')._initializers[1] is {VZ}[0] and "
          f"len(result[1]) == 2 and result[1][0] is initargs and result[1][1] is {VZ}[1]))", prop="C18")
c.exsures_[:] = []
c.raises("prepare/non-callable-rejected-before-anything-else", "TypeError", post="initializer is not None and not callable_(initializer) and log_len() == 0", prop="C18")
c.raises_only("prepare/only-typeerror")
c = IN.contract("_make_viztracer_initializer_and_initargs")
c.returns(T.Tup(T.Obj, T.Obj)).modifies()
c.trusted_summary = True
c.note("optional third-party profiler (viztracer): its API is outside the claim")
# _chain_initializers has no contract: its body is executed at its only call site (two pairs: exact unrolling)
c = IN.contract("_ChainedInitializer.__init__", props=["C18"])
c.param("self", T.Ref("_ChainedInitializer")).param("initializers", T.Lst(T.Obj))
c.ensures("chained/keeps-the-list", "self._initializers is initializers")
c.raises_only("chained/no-exception")
c.modifies("self._initializers")
S.ext("logging.Formatter", cite="logging.Formatter(fmt)").param("fmt", T.Obj).returns(T.Obj).modifies()
