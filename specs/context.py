"""Contracts for loky/backend/context.py (C17: cpu_count)."""
from pyvc.spec import SCHEMA as S, Module
from pyvc import types as T
from pyvc.values import VStr

M = Module("loky.backend.context")
CTX = "loky.backend.context"

M.glob("physical_cores_cache", T.Union(T.NoneT, T.Int, VStr("not found")),
       inv="implies(is_int(physical_cores_cache), physical_cores_cache >= 1)",
       doc="None (not probed) | int >= 1 (probed) | 'not found' (probe failed): the only assignment is in _count_physical_cores")

V2F = "'/sys/fs/cgroup/cpu.max'"
QF = "'/sys/fs/cgroup/cpu/cpu.cfs_quota_us'"
PF = "'/sys/fs/cgroup/cpu/cpu.cfs_period_us'"


def oracle_lets(c, os_):
    """The reference (taken from the property sentence) as spec lets over
    the symbolic configuration; `os_` is the expression of the OS count."""
    c.let("aff", "ite(cfg('hasattr:os.sched_getaffinity') and not G.cfg_sched_raises, G.cfg_aff, "
                 f"ite(cfg('have:psutil') and cfg('hasattr:psutil.Process.cpu_affinity'), G.cfg_psutil_aff, {os_}))")
    cgroup_lets(c, os_)
    c.let("lk", f"ite(env_has('LOKY_MAX_CPU_COUNT'), int_of_str(env_val('LOKY_MAX_CPU_COUNT')), {os_})")


def cgroup_lets(c, os_):
    c.let("v2", f"os.path.exists({V2F})")
    c.let("v1", f"os.path.exists({QF}) and os.path.exists({PF})")
    c.let("toks", f"split_ws(strip(file_text({V2F})))")
    c.let("q_tok", f"ite(v2, toks[0], strip(file_text({QF})))")
    c.let("p_tok", f"ite(v2, toks[1], strip(file_text({PF})))")
    c.let("limited", "(v2 or v1) and q_tok != 'max'")
    c.let("Q", "int_of_str(q_tok)")
    c.let("P", "int_of_str(p_tok)")
    c.let("cg", f"ite(limited and Q > 0 and P > 0, ceil_div(Q, P), {os_})")
    # well-formedness of the kernel files (precondition, with covers)
    c.rely("cgroup-v2-two-tokens", "implies(v2, len(toks) == 2)", "A-env")
    c.rely("cgroup-tokens-are-integers", "implies(limited, str_is_int(q_tok) and str_is_int(p_tok))", "A-env")


def env_req(c):
    c.rely("override-is-integer", "implies(env_has('LOKY_MAX_CPU_COUNT'), str_is_int(env_val('LOKY_MAX_CPU_COUNT')))", "A-env")


# ------------------------------------------------------------------ cgroup
c = M.contract("_cpu_count_cgroup", props=["C17"])
c.param("os_cpu_count", T.Int)
cgroup_lets(c, "os_cpu_count")
c.returns(T.Int)
c.ensures("cgroup/spec", "result == cg")
c.raises_only("cgroup/no-exception")
c.modifies()
c.twin("cgroup/spec", "result == cg + 1")
c.cover("v2-limited", "v2 and limited and Q > 0 and P > 0")
c.cover("v2-max", "v2 and not limited")
c.cover("v1-limited", "not v2 and v1 and limited and Q > 0 and P > 0")
c.cover("v1-disabled", "not v2 and v1 and limited and Q <= 0")
c.cover("none", "not v2 and not v1")
c.cover("fractional", "limited and Q > 0 and P > 0 and Q % P != 0")
c.expect(paths=7)
c.assumes("A-float")
c.replay("cpu_count_cgroup", only_physical="False", os_none="is_none(os.cpu_count())", os="the(os.cpu_count())", os_arg="os_cpu_count",
         have_sched="cfg('hasattr:os.sched_getaffinity')", sched_raises="G.cfg_sched_raises", aff="G.cfg_aff",
         have_psutil="cfg('have:psutil')", psutil_has_aff="cfg('hasattr:psutil.Process.cpu_affinity')", psutil_aff="G.cfg_psutil_aff",
         v2="os.path.exists('/sys/fs/cgroup/cpu.max')", v1q="os.path.exists('/sys/fs/cgroup/cpu/cpu.cfs_quota_us')",
         v1p="os.path.exists('/sys/fs/cgroup/cpu/cpu.cfs_period_us')",
         q_is_max="ite(os.path.exists('/sys/fs/cgroup/cpu.max'), split_ws(strip(file_text('/sys/fs/cgroup/cpu.max')))[0], strip(file_text('/sys/fs/cgroup/cpu/cpu.cfs_quota_us'))) == 'max'",
         Q="int_of_str(ite(os.path.exists('/sys/fs/cgroup/cpu.max'), split_ws(strip(file_text('/sys/fs/cgroup/cpu.max')))[0], strip(file_text('/sys/fs/cgroup/cpu/cpu.cfs_quota_us'))))",
         P="int_of_str(ite(os.path.exists('/sys/fs/cgroup/cpu.max'), split_ws(strip(file_text('/sys/fs/cgroup/cpu.max')))[1], strip(file_text('/sys/fs/cgroup/cpu/cpu.cfs_period_us'))))",
         env_has="env_has('LOKY_MAX_CPU_COUNT')", LK="int_of_str(env_val('LOKY_MAX_CPU_COUNT'))")

# ---------------------------------------------------------------- affinity
c = M.contract("_cpu_count_affinity", props=["C17"])
c.param("os_cpu_count", T.Int)
c.let("aff", "ite(cfg('hasattr:os.sched_getaffinity') and not G.cfg_sched_raises, G.cfg_aff, "
             "ite(cfg('have:psutil') and cfg('hasattr:psutil.Process.cpu_affinity'), G.cfg_psutil_aff, os_cpu_count))")
c.returns(T.Int)
c.ensures("affinity/spec", "result == aff")
c.ensures("affinity/positive", "implies(os_cpu_count >= 1, result >= 1)")
c.raises_only("affinity/no-exception")
c.modifies()
c.twin("affinity/spec", "result == os_cpu_count")
c.cover("sched", "cfg('hasattr:os.sched_getaffinity') and not G.cfg_sched_raises")
c.cover("psutil", "not cfg('hasattr:os.sched_getaffinity') and cfg('have:psutil') and cfg('hasattr:psutil.Process.cpu_affinity')")
c.cover("sched-raises-then-psutil", "cfg('hasattr:os.sched_getaffinity') and G.cfg_sched_raises and cfg('have:psutil')")
c.cover("neither", "not cfg('hasattr:os.sched_getaffinity') and not cfg('have:psutil')")
c.expect(paths=5)
c.assumes("A-warn")
c.replay("cpu_count_affinity", only_physical="False", os_none="is_none(os.cpu_count())", os="the(os.cpu_count())", os_arg="os_cpu_count",
         have_sched="cfg('hasattr:os.sched_getaffinity')", sched_raises="G.cfg_sched_raises", aff="G.cfg_aff",
         have_psutil="cfg('have:psutil')", psutil_has_aff="cfg('hasattr:psutil.Process.cpu_affinity')", psutil_aff="G.cfg_psutil_aff",
         v2="os.path.exists('/sys/fs/cgroup/cpu.max')", v1q="os.path.exists('/sys/fs/cgroup/cpu/cpu.cfs_quota_us')",
         v1p="os.path.exists('/sys/fs/cgroup/cpu/cpu.cfs_period_us')",
         q_is_max="ite(os.path.exists('/sys/fs/cgroup/cpu.max'), split_ws(strip(file_text('/sys/fs/cgroup/cpu.max')))[0], strip(file_text('/sys/fs/cgroup/cpu/cpu.cfs_quota_us'))) == 'max'",
         Q="int_of_str(ite(os.path.exists('/sys/fs/cgroup/cpu.max'), split_ws(strip(file_text('/sys/fs/cgroup/cpu.max')))[0], strip(file_text('/sys/fs/cgroup/cpu/cpu.cfs_quota_us'))))",
         P="int_of_str(ite(os.path.exists('/sys/fs/cgroup/cpu.max'), split_ws(strip(file_text('/sys/fs/cgroup/cpu.max')))[1], strip(file_text('/sys/fs/cgroup/cpu/cpu.cfs_period_us'))))",
         env_has="env_has('LOKY_MAX_CPU_COUNT')", LK="int_of_str(env_val('LOKY_MAX_CPU_COUNT'))")

# -------------------------------------------------------------------- user
c = M.contract("_cpu_count_user", props=["C17"])
c.param("os_cpu_count", T.Int)
oracle_lets(c, "os_cpu_count")
env_req(c)
c.returns(T.Int)
c.ensures("user/min-of-three", "result == min(aff, cg, lk)")
c.raises_only("user/no-exception")
c.modifies()
c.twin("user/min-of-three", "result == min(aff, cg)")
c.cover("override-binding", "env_has('LOKY_MAX_CPU_COUNT') and lk < aff and lk < cg")
c.cover("override-zero-or-negative", "env_has('LOKY_MAX_CPU_COUNT') and lk <= 0")
c.replay("cpu_count_user", only_physical="False", os_none="is_none(os.cpu_count())", os="the(os.cpu_count())", os_arg="os_cpu_count",
         have_sched="cfg('hasattr:os.sched_getaffinity')", sched_raises="G.cfg_sched_raises", aff="G.cfg_aff",
         have_psutil="cfg('have:psutil')", psutil_has_aff="cfg('hasattr:psutil.Process.cpu_affinity')", psutil_aff="G.cfg_psutil_aff",
         v2="os.path.exists('/sys/fs/cgroup/cpu.max')", v1q="os.path.exists('/sys/fs/cgroup/cpu/cpu.cfs_quota_us')",
         v1p="os.path.exists('/sys/fs/cgroup/cpu/cpu.cfs_period_us')",
         q_is_max="ite(os.path.exists('/sys/fs/cgroup/cpu.max'), split_ws(strip(file_text('/sys/fs/cgroup/cpu.max')))[0], strip(file_text('/sys/fs/cgroup/cpu/cpu.cfs_quota_us'))) == 'max'",
         Q="int_of_str(ite(os.path.exists('/sys/fs/cgroup/cpu.max'), split_ws(strip(file_text('/sys/fs/cgroup/cpu.max')))[0], strip(file_text('/sys/fs/cgroup/cpu/cpu.cfs_quota_us'))))",
         P="int_of_str(ite(os.path.exists('/sys/fs/cgroup/cpu.max'), split_ws(strip(file_text('/sys/fs/cgroup/cpu.max')))[1], strip(file_text('/sys/fs/cgroup/cpu/cpu.cfs_period_us'))))",
         env_has="env_has('LOKY_MAX_CPU_COUNT')", LK="int_of_str(env_val('LOKY_MAX_CPU_COUNT'))")

# ---------------------------------------------------------- physical cores
c = M.contract("_count_physical_cores_linux", props=["C17"])
c.returns(T.Int)
c.ensures("probe/nonneg", "result >= 0")
c.raises("probe/any-exception", "Exception")
c.raises_only("probe/only-exceptions")
c.modifies()
c.note("weak on purpose: the probe's *value* is configuration; cpu_count is proved for every value and every failure")

c = M.contract("_count_physical_cores", props=["C17"]).inlined()
c.touch("physical_cores_cache")
c.ensures("cache/hit-returns-cache", "implies(not is_none(old(physical_cores_cache)), "
          "result[0] == old(physical_cores_cache) and result[1] is None and physical_cores_cache == old(physical_cores_cache))")
c.ensures("cache/written", "physical_cores_cache == result[0]")
c.ensures("found/at-least-one", "implies(is_int(result[0]), result[0] >= 1)")
c.ensures("notfound/marker", "implies(not is_int(result[0]), result[0] == 'not found')")
c.ensures("exception/only-on-first-failure", "implies(result[1] is not None, is_none(old(physical_cores_cache)) and result[0] == 'not found')")
c.ensures("probe/at-most-once", "log_count('call:_count_physical_cores_linux') + log_count('raise:_count_physical_cores_linux') == ite(is_none(old(physical_cores_cache)), 1, 0)")
c.raises_only("cores/no-exception")
c.modifies(f"glob:{CTX}.physical_cores_cache")
c.twin("cache/written", "physical_cores_cache == old(physical_cores_cache)")
c.cover("cached-int", "is_int(old(physical_cores_cache))")
c.cover("cached-notfound", "old(physical_cores_cache) == 'not found'")
c.cover("probe-zero", "is_none(old(physical_cores_cache)) and result[1] is not None")
c.expect(paths=5)

# --------------------------------------------------------------- cpu_count
c = M.contract("cpu_count", props=["C17"])
c.param("only_physical_cores", T.Bool, default=__import__("pyvc.values", fromlist=["VBool"]).VBool(False))
c.touch("physical_cores_cache")
c.let("os_raw", "os.cpu_count()")
c.let("os_n", "ite(is_none(os_raw) or the(os_raw) == 0, 1, the(os_raw))")
oracle_lets(c, "os_n")
env_req(c)
c.let("user", "min(aff, cg, lk)")
c.let("limit", "min(os_n, user)")
c.let("logical", "max(limit, 1)")
PROBED_OK = "(log_count('call:_count_physical_cores_linux') == 1 and log_arg('call:_count_physical_cores_linux', 0, 0) >= 1)"
c.returns(T.Int)
c.ensures("logical/min-of-limits", "implies(not only_physical_cores, result == logical)")
c.ensures("at-least-one", "result >= 1")
c.ensures("physical/user-limit-wins", "implies(only_physical_cores and user < os_n, result == logical)")
c.ensures("physical/cached", "implies(only_physical_cores and user >= os_n and is_int(old(physical_cores_cache)), "
          "result == old(physical_cores_cache) and log_count('warn') == 0)")
c.ensures("physical/cached-failure-silent", "implies(only_physical_cores and user >= os_n and old(physical_cores_cache) == 'not found', "
          "result == logical and log_count('warn') == 0)")
c.ensures("physical/probe-success", "implies(only_physical_cores and user >= os_n and is_none(old(physical_cores_cache)) and " + PROBED_OK + ", "
          "result == log_arg('call:_count_physical_cores_linux', 0, 0) and log_count('warn') == 0)")
c.ensures("physical/fallback-one-warning", "implies(only_physical_cores and user >= os_n and is_none(old(physical_cores_cache)) and not " + PROBED_OK + ", "
          "result == logical and log_count('warn') == 1 and physical_cores_cache == 'not found')")
c.ensures("logical/no-probe", "implies(not only_physical_cores or user < os_n, "
          "log_count('call:_count_physical_cores_linux') + log_count('raise:_count_physical_cores_linux') == 0 and log_count('warn') == 0)")
c.raises_only("cpu_count/no-exception")
c.modifies(f"glob:{CTX}.physical_cores_cache")
c.twin("logical/min-of-limits", "implies(not only_physical_cores, result == os_n)")
c.twin("physical/fallback-one-warning", "implies(only_physical_cores and user >= os_n and is_none(old(physical_cores_cache)) and not " + PROBED_OK + ", log_count('warn') == 0)")
c.cover("os-none", "is_none(os_raw)")
c.cover("physical-probe-fails", "only_physical_cores and user >= os_n and is_none(old(physical_cores_cache)) and not " + PROBED_OK)
c.cover("physical-probe-ok", "only_physical_cores and user >= os_n and is_none(old(physical_cores_cache)) and " + PROBED_OK)
c.cover("override-larger-than-machine", "env_has('LOKY_MAX_CPU_COUNT') and lk > os_n")
c.expect(paths=8)
c.assumes("A-float", "A-warn")
c.replay("cpu_count", cache="old(physical_cores_cache)",
         probe="log_arg('call:_count_physical_cores_linux', 0, 0)",
         probe_raises="log_count('raise:_count_physical_cores_linux') > 0",
         only_physical="only_physical_cores", os_none="is_none(os.cpu_count())", os="the(os.cpu_count())", os_arg="0",
         have_sched="cfg('hasattr:os.sched_getaffinity')", sched_raises="G.cfg_sched_raises", aff="G.cfg_aff",
         have_psutil="cfg('have:psutil')", psutil_has_aff="cfg('hasattr:psutil.Process.cpu_affinity')", psutil_aff="G.cfg_psutil_aff",
         v2="os.path.exists('/sys/fs/cgroup/cpu.max')", v1q="os.path.exists('/sys/fs/cgroup/cpu/cpu.cfs_quota_us')",
         v1p="os.path.exists('/sys/fs/cgroup/cpu/cpu.cfs_period_us')",
         q_is_max="ite(os.path.exists('/sys/fs/cgroup/cpu.max'), split_ws(strip(file_text('/sys/fs/cgroup/cpu.max')))[0], strip(file_text('/sys/fs/cgroup/cpu/cpu.cfs_quota_us'))) == 'max'",
         Q="int_of_str(ite(os.path.exists('/sys/fs/cgroup/cpu.max'), split_ws(strip(file_text('/sys/fs/cgroup/cpu.max')))[0], strip(file_text('/sys/fs/cgroup/cpu/cpu.cfs_quota_us'))))",
         P="int_of_str(ite(os.path.exists('/sys/fs/cgroup/cpu.max'), split_ws(strip(file_text('/sys/fs/cgroup/cpu.max')))[1], strip(file_text('/sys/fs/cgroup/cpu/cpu.cfs_period_us'))))",
         env_has="env_has('LOKY_MAX_CPU_COUNT')", LK="int_of_str(env_val('LOKY_MAX_CPU_COUNT'))")


# ---------------------------------------------------------------- get_context
c = M.contract("get_context")
c.param("method", T.Obj, default=__import__("pyvc.values", fromlist=["NONE"]).NONE)
c.returns(T.Ref("Context"))
c.raises("context/unknown-method", "ValueError", when="method is not None")
c.modifies()
c.note("thin wrapper over multiprocessing.get_context: summary only (which context is returned is not needed by any property)")
c.trusted_summary = True
