"""Trusted contracts of the standard library / OS / third-party functions
that loky calls.  Every entry is an *assumption* (listed in the evidence as
trusted base), with the CPython documentation it paraphrases."""
import z3
from pyvc.spec import SCHEMA as S
from pyvc import types as T
from pyvc.values import VStr, VInt, VBool, VConst, NONE

# ---- logging: evaluated for their arguments, then no-ops that do not raise
for name in ("debug", "info", "sub_debug"):
    c = S.ext(f"multiprocessing.util.{name}", cite="multiprocessing.util: logging helper; treated as a no-op (DESIGN 2.2)")
    c.param("msg", T.Obj).varargs("args")
    c.modifies()

S.ext_modules = {"os", "sys", "multiprocessing", "multiprocessing.util", "signal", "warnings", "math",
                 "traceback", "subprocess", "psutil", "threading", "queue", "os.path", "gc", "faulthandler",
                 "time", "struct", "weakref", "itertools", "errno", "shutil", "pickle", "copyreg", "types",
                 "io", "functools", "inspect", "tempfile", "_multiprocessing", "multiprocessing.process",
                 "cloudpickle", "_posixsubprocess", "socket", "runpy", "textwrap", "importlib"}
S.aliases.update({
    "multiprocessing.queues.Full": "queue.Full",
    "multiprocessing.queues.Empty": "queue.Empty",
    "concurrent.futures.process.BrokenProcessPool": "concurrent.futures.process.BrokenProcessPool",
})
S.optional_modules = {}
S.ext_consts = {}
S.class_attrs = {}
S.config_hasattr = {}

# multiprocessing contexts -------------------------------------------------
S.cls("Context", {}, external=True)
c = S.ext("Context.get_start_method", cite="multiprocessing.context.BaseContext.get_start_method: returns the name of the start method; pure")
c.param("self", T.Ref("Context")).returns(T.Str).modifies().is_pure()
