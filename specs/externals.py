"""Trusted contracts of the standard library / OS / third-party functions
that loky calls.  Every entry is an *assumption* (listed in the evidence as
trusted base), with the CPython documentation it paraphrases."""
import z3
from pyvc.spec import SCHEMA as S
from pyvc import types as T
from pyvc.values import VStr, VInt, VBool, VConst, NONE

# ---- logging: evaluated for their arguments, then no-ops that do not raise
for name in ("debug", "info", "sub_debug"):
    c = S.ext(f"multiprocessing.util.{name}", cite="multiprocessing.util: logging helper; treated as a no-op (DESIGN 2.2)")
    c.param("msg", T.Obj).varargs("args")
    c.modifies()

S.ext_modules = {"os", "sys", "multiprocessing", "multiprocessing.util", "signal", "warnings", "math",
                 "traceback", "subprocess", "psutil", "threading", "queue", "os.path", "gc", "faulthandler",
                 "time", "struct", "weakref", "itertools", "errno", "shutil", "pickle", "copyreg", "types",
                 "io", "functools", "inspect", "tempfile", "_multiprocessing", "multiprocessing.process",
                 "cloudpickle", "_posixsubprocess", "socket", "runpy", "textwrap", "importlib"}
S.aliases.update({
    "multiprocessing.queues.Full": "queue.Full",
    "multiprocessing.queues.Empty": "queue.Empty",
    "concurrent.futures.process.BrokenProcessPool": "concurrent.futures.process.BrokenProcessPool",
})
S.optional_modules = {}
S.ext_consts = {}
S.class_attrs = {}
S.config_hasattr = {}

# multiprocessing contexts -------------------------------------------------
S.cls("Context", {}, external=True)
c = S.ext("Context.get_start_method", cite="multiprocessing.context.BaseContext.get_start_method: returns the name of the start method; pure")
c.param("self", T.Ref("Context")).returns(T.Str).modifies().is_pure()


# =========================================================================
# configuration of the host as ghost constants (never modified): the
# quantifier "for all configurations" of C17 ranges over them
def _impl(key, cite=""):
    """Register a trusted external whose behaviour is given by a Python
    function over the symbolic state (listed like any other assumption)."""
    def deco(fn):
        c = S.ext(key, cite=cite)
        c.impl = lambda eng, st, self_v, args, kwargs, node, fn=fn: fn(eng, st, self_v, args, kwargs, node)
        return fn
    return deco


S.ghost("cfg_aff", T.IntS, "size of os.sched_getaffinity(0)")
S.ghost("cfg_sched_raises", T.BoolS, "os.sched_getaffinity raises NotImplementedError")
S.ghost("cfg_psutil_aff", T.IntS, "size of psutil.Process().cpu_affinity()")
S.config_hasattr["os.sched_getaffinity"] = z3.Bool("cfg!hasattr:os.sched_getaffinity")
S.config_hasattr["psutil.Process.cpu_affinity"] = z3.Bool("cfg!hasattr:psutil.Process.cpu_affinity")
S.optional_modules["psutil"] = True

c = S.ext("os.cpu_count", cite="os.cpu_count(): 'Return the number of logical CPUs in the system. Returns None if undetermined.'")
c.returns(T.Opt(T.Int)).ensures("nonneg", "is_none(result) or the(result) >= 0").modifies().is_pure()

c = S.ext("os.sched_getaffinity", cite="os.sched_getaffinity(pid): set of CPUs the process is restricted to (non-empty); may be unavailable")
c.param("pid", T.Int).returns(T.Obj).modifies()
c.ensures("size", "len(result) == G.cfg_aff and G.cfg_aff >= 1 and not G.cfg_sched_raises")
c.may_raise.append(("NotImplementedError", "G.cfg_sched_raises"))

S.cls("psutil.Process", {"pid": T.Int}, external=True)
c = S.ext("psutil.Process", cite="psutil.Process(pid=None): handle on a process")
c.param("pid", T.Obj, default=NONE).returns(T.Ref("psutil.Process"), fresh=True).modifies()
c = S.ext("psutil.Process.cpu_affinity", cite="psutil.Process.cpu_affinity(): list of eligible CPUs (non-empty)")
c.param("self", T.Ref("psutil.Process")).returns(T.Obj).modifies()
c.ensures("size", "len(result) == G.cfg_psutil_aff and G.cfg_psutil_aff >= 1")

c = S.ext("os.path.exists", cite="os.path.exists(path): pure predicate of the file system (assumed stable during the call)")
c.param("path", T.Str).returns(T.Bool).modifies().is_pure()

# files: content is a pure function of the path
S.cls("File", {"path": T.Str, "fd": T.Int, "closed": T.Bool}, external=True)
_file_text = z3.Function("file_text", T.StrS, T.StrS)
S.spec_funcs["file_text"] = lambda eng, st, p: VStr(_file_text(p.t))


@_impl("builtins.open", cite="open(path): text file object; its read() returns the content (a function of the path)")
def _open(eng, st, self_v, args, kwargs, node):
    from pyvc.values import VRef
    path = args[0]
    f = st.new_obj("File")
    if isinstance(path, VStr):
        st.write_field(f, "path", path)
        st.write_field(f, "fd", VInt(-1))
    else:
        st.write_field(f, "fd", path)
    st.write_field(f, "closed", VBool(False))
    st.emit("open", [f, path], eng.site(node))
    return [eng.val(st, f)]


@_impl("File.__enter__", cite="file objects are their own context managers")
def _fenter(eng, st, self_v, args, kwargs, node):
    return [eng.val(st, self_v)]


@_impl("File.__exit__", cite="file.__exit__ closes the file and propagates exceptions")
def _fexit(eng, st, self_v, args, kwargs, node):
    st.write_field(self_v, "closed", VBool(True))
    st.emit("close_file", [self_v], eng.site(node))
    return [eng.val(st, VBool(False))]


@_impl("File.read", cite="file.read(): whole content")
def _fread(eng, st, self_v, args, kwargs, node):
    p, _ = st.read_field(self_v, "path")
    return [eng.val(st, VStr(_file_text(p.t)))]


@_impl("math.ceil", cite="math.ceil(x): smallest integer >= x.  A-float: q/p of two ints is taken as the exact rational")
def _ceil(eng, st, self_v, args, kwargs, node):
    from pyvc.values import VReal
    v = args[0]
    if isinstance(v, VInt):
        return [eng.val(st, v)]
    t = v.t
    # ceil(ToReal(a) / ToReal(b)) on integers: exact integer ceiling
    if z3.is_app(t) and t.decl().kind() == z3.Z3_OP_DIV:
        a, b = t.children()
        if z3.is_app(a) and a.decl().kind() == z3.Z3_OP_TO_REAL and z3.is_app(b) and b.decl().kind() == z3.Z3_OP_TO_REAL:
            ai, bi = a.children()[0], b.children()[0]
            eng.abstractions.add("math.ceil(q / p) on integers is the mathematical ceiling (A-float)")
            pos = -((-ai) / bi)       # b > 0
            neg = -(ai / (-bi))       # b < 0: ceil(a/b) = ceil((-a)/(-b)) = -floor(a/(-b))
            return [eng.val(st, VInt(z3.If(bi > 0, pos, neg)))]
    return [eng.val(st, VInt(-z3.ToInt(-t)))]


# environment --------------------------------------------------------------
# os.environ is a dictionary str -> str living at a fixed address; its content is arbitrary (configuration)
from pyvc.values import VRef as _VRef
ENV_T = T.Map(T.Str, T.Str)
ENVIRON = _VRef(z3.IntVal(-1001), ENV_T.cls, ENV_T)
S.ext_consts["os.environ"] = ENVIRON
S.spec_funcs["env_has"] = lambda eng, st, k: VBool(st.map_has(ENVIRON, k.t))
S.spec_funcs["env_val"] = lambda eng, st, k: st.map_get(ENVIRON, k.t)

@_impl("warnings.warn", cite="warnings.warn(message, category=UserWarning): issues a warning; raises it instead when the filters turn it into an error (-W error). "
                            "A-warn: contracts that do not opt into `warn_may_raise` assume the process does not run with warnings as errors")
def _warn(eng, st, self_v, args, kwargs, node):
    out = []
    c_ = getattr(eng, "cur_contract", None)
    if c_ is not None and getattr(c_, "warn_may_raise", False):
        s = st.clone()
        s.emit("warn_raised", [args[0] if args else NONE], eng.site(node))
        out.append(eng.raise_new(s, "UserWarning"))
    st.emit("warn", [args[0] if args else kwargs.get("message", NONE)], eng.site(node))
    out.append(eng.val(st, NONE))
    return out


S.assumption("A-warn", "warnings.warn does not raise (the process does not run with -W error)")

c = S.ext("traceback.print_tb", cite="traceback.print_tb: prints, no other effect")
c.param("tb", T.Obj).modifies()

c = S.ext("psutil.Process.memory_info", cite="psutil.Process.memory_info(): named tuple with rss. A-psutil: probing one's own pid does not fail")
c.param("self", T.Ref("psutil.Process")).returns(T.Ref("MemInfo"), fresh=True).modifies()
S.cls("MemInfo", {"rss": T.Int}, external=True)
S.assumption("A-psutil", "psutil's memory probe of the worker's own pid does not raise")

S.cls("CompletedProcess", {"stdout": T.Str, "returncode": T.Int}, external=True)
c = S.ext("subprocess.run", cite="subprocess.run(...): runs a command; may raise OSError/SubprocessError (any Exception)")
c.param("args", T.Obj).kwargs("kw")
c.returns(T.Ref("CompletedProcess"), fresh=True).modifies()
c.may_raise.append(("Exception", None))


# =========================================================================
# threading / multiprocessing primitives used by the executor
S.ghost("fut_n_exc", z3.ArraySort(T.IntS, T.IntS), "per future: number of set_exception calls")
S.ghost("fut_exc", z3.ArraySort(T.IntS, T.IntS), "per future: the exception last set", elem="obj")
S.ghost("fut_running", z3.ArraySort(T.IntS, T.BoolS), "per future: set RUNNING by set_running_or_notify_cancel() (it can then no longer be cancelled)")
S.ghost("fut_refused", z3.ArraySort(T.IntS, T.IntS), "per future: number of set_result/set_exception calls refused with InvalidStateError (already cancelled or finished)")
S.ghost("fut_exc_cls", z3.ArraySort(T.IntS, T.IntS), "per future: class id of the exception last set (recorded when it was set)")
S.ghost("fut_n_res", z3.ArraySort(T.IntS, T.IntS), "per future: number of set_result calls")
S.ghost("fut_res", z3.ArraySort(T.IntS, T.IntS), "per future: the result last set", elem="obj")
S.ghost("joined", z3.ArraySort(T.IntS, T.BoolS), "processes on which join() was called")
S.ghost("killed", z3.ArraySort(T.IntS, T.BoolS), "pids that were sent SIGKILL (or found already gone)")
S.ghost("sem_released", z3.ArraySort(T.IntS, T.IntS), "per semaphore: number of release() calls")
S.ghost("n_sentinels", T.IntS, "number of None sentinels successfully put on the call queue")
S.ghost("started", z3.ArraySort(T.IntS, T.BoolS), "processes on which start() was called")
S.ghost("proc_of_pid", z3.ArraySort(T.IntS, T.IntS), "pid -> the process object started under it", elem="obj")
S.ghost("pid_live", z3.ArraySort(T.IntS, T.BoolS), "pids of children that were started and not yet reaped")
S.assumption("A-pids", "the keys of an executor's process table are pids of started, un-reaped children; the OS never gives a new child the pid of an un-reaped one")


def _held_push(st, lock):
    st.held.append(lock.t)


def _held_pop(st, lock):
    for i in range(len(st.held) - 1, -1, -1):
        if st.held[i].eq(lock.t):
            del st.held[i]
            return
    # released without being held on this path: keep going (Python would raise for some kinds)


for LK in ("threading.Lock", "threading.RLock", "MPLock"):
    S.cls(LK, {}, external=True)

    @_impl(f"{LK}.__enter__", cite=f"{LK}: context manager acquires (blocking) and returns True")
    def _lenter(eng, st, self_v, args, kwargs, node):
        _held_push(st, self_v)
        st.emit("acquire", [self_v], eng.site(node))
        return [eng.val(st, VBool(True))]

    @_impl(f"{LK}.__exit__", cite=f"{LK}: context manager releases on every exit")
    def _lexit(eng, st, self_v, args, kwargs, node):
        _held_pop(st, self_v)
        st.emit("release", [self_v], eng.site(node))
        return [eng.val(st, NONE)]

    @_impl(f"{LK}.acquire", cite=f"{LK}.acquire(block=True, timeout=None): True when acquired; a non-blocking or timed call may return False")
    def _lacq(eng, st, self_v, args, kwargs, node):
        block = args[0] if args else kwargs.get("block", kwargs.get("blocking", VBool(True)))
        timeout = args[1] if len(args) > 1 else kwargs.get("timeout", NONE)
        can_fail = z3.Or(z3.Not(eng.truth(block, st)), z3.BoolVal(not isinstance(timeout, type(NONE))))
        got = z3.Bool(__import__("pyvc.values", fromlist=["fresh_name"]).fresh_name("acq"))
        st.assume(z3.Implies(z3.Not(can_fail), got))
        out = []
        for b, s in eng.branch(st, got):
            if b:
                _held_push(s, self_v)
            s.emit("acquire" if b else "acquire_failed", [self_v, block, timeout], eng.site(node))
            out.append(eng.val(s, VBool(b)))
        return out

    @_impl(f"{LK}.release", cite=f"{LK}.release()")
    def _lrel(eng, st, self_v, args, kwargs, node):
        _held_pop(st, self_v)
        g = st.ghost_get("sem_released")
        st.ghost_set("sem_released", z3.Store(g, self_v.t, z3.Select(g, self_v.t) + 1))
        st.emit("release", [self_v], eng.site(node))
        return [eng.val(st, NONE)]

# futures -------------------------------------------------------------------
S.cls("Future", {}, external=True)


def _fut_refusal(eng, st, self_v, node, tag):
    """InvalidStateError outcome of set_result / set_exception: possible unless the future is known RUNNING and unresolved
    (a PENDING future may have been cancelled by its owner at any time; a finished one refuses for sure)."""
    done = z3.Select(st.ghost_get("fut_n_exc"), self_v.t) + z3.Select(st.ghost_get("fut_n_res"), self_v.t) >= 1
    can_fail = z3.Or(z3.Not(z3.Select(st.ghost_get("fut_running"), self_v.t)), done)
    s = st.clone()
    s.assume(can_fail)
    g = s.ghost_get("fut_refused")
    s.ghost_set("fut_refused", z3.Store(g, self_v.t, z3.Select(g, self_v.t) + 1))
    s.emit(tag, [self_v], eng.site(node))
    st.assume(z3.Not(done))
    return eng.raise_new(s, "concurrent.futures.InvalidStateError")


@_impl("Future.set_exception", cite="concurrent.futures.Future.set_exception(exc): resolves the future with exc and runs the callbacks (which loky's Future shields); "
                                    "InvalidStateError when the future is already cancelled or finished")
def _fut_set_exc(eng, st, self_v, args, kwargs, node):
    e = args[0]
    from pyvc.values import to_obj_term
    out = [_fut_refusal(eng, st, self_v, node, "set_exception_refused")]
    n = st.ghost_get("fut_n_exc")
    st.ghost_set("fut_n_exc", z3.Store(n, self_v.t, z3.Select(n, self_v.t) + 1))
    st.ghost_set("fut_exc", z3.Store(st.ghost_get("fut_exc"), self_v.t, to_obj_term(e)))
    from pyvc.values import VRef as _VR, VObj as _VO
    if isinstance(e, (_VR, _VO)):
        ecls, _ = st.read_field(_VR(e.t, "<exc>"), "cls")
        st.ghost_set("fut_exc_cls", z3.Store(st.ghost_get("fut_exc_cls"), self_v.t, ecls.t))
    st.emit("set_exception", [self_v, e], eng.site(node))
    out.append(eng.val(st, NONE))
    return out


@_impl("Future.set_result", cite="concurrent.futures.Future.set_result(r); InvalidStateError when the future is already cancelled or finished")
def _fut_set_res(eng, st, self_v, args, kwargs, node):
    from pyvc.values import to_obj_term
    out = [_fut_refusal(eng, st, self_v, node, "set_result_refused")]
    n = st.ghost_get("fut_n_res")
    st.ghost_set("fut_n_res", z3.Store(n, self_v.t, z3.Select(n, self_v.t) + 1))
    st.ghost_set("fut_res", z3.Store(st.ghost_get("fut_res"), self_v.t, to_obj_term(args[0])))
    st.emit("set_result", [self_v, args[0]], eng.site(node))
    out.append(eng.val(st, NONE))
    return out


@_impl("Future.set_running_or_notify_cancel", cite="Future.set_running_or_notify_cancel(): False iff the future was cancelled (then it can never run), True and RUNNING otherwise")
def _fut_set_running(eng, st, self_v, args, kwargs, node):
    from pyvc.values import fresh_name
    ok = z3.Bool(fresh_name("set_running"))
    out = []
    for b, s in eng.branch(st, ok):
        if b:
            s.ghost_set("fut_running", z3.Store(s.ghost_get("fut_running"), self_v.t, z3.BoolVal(True)))
        s.emit("set_running", [self_v, VBool(b)], eng.site(node))
        out.append(eng.val(s, VBool(b)))
    return out


c = S.ext("Future.cancelled", cite="Future.cancelled(): whether the future is cancelled right now (volatile: the owner may cancel a pending future at any time)")
c.param("self", T.Ref("Future")).returns(T.Bool).event("fut_cancelled", "self", "result").modifies()
@_impl("Future.cancel", cite="Future.cancel(): True and CANCELLED (not yet notified) iff the future was pending or already cancelled; False once it is running or finished")
def _fut_cancel(eng, st, self_v, args, kwargs, node):
    from pyvc.values import fresh_name
    ok = z3.Bool(fresh_name("cancelled"))
    running = z3.Select(st.ghost_get("fut_running"), self_v.t)
    done = z3.Select(st.ghost_get("fut_n_exc"), self_v.t) + z3.Select(st.ghost_get("fut_n_res"), self_v.t) >= 1
    st.assume(ok == z3.Not(z3.Or(running, done)))      # exactly: True iff the future was still pending (or already cancelled)
    out = []
    for b, s in eng.branch(st, ok):
        s.emit("fut_cancel", [self_v, VBool(b)], eng.site(node))
        out.append(eng.val(s, VBool(b)))
    return out


c = S.ext("inspect.isroutine", cite="inspect.isroutine(obj): functions, methods, builtins; False for callable instances and functools.partial objects")
c.param("obj", T.Obj).returns(T.Bool).modifies()
c = S.ext("Future", cite="Future(): a new pending future")
c.returns(T.Ref("Future"), fresh=True).modifies()
c.ensures("pending", "not G.fut_running[result] and G.fut_n_exc[result] == 0 and G.fut_n_res[result] == 0")
S.classes["Future"].module = "loky._base"
S.classes["Future"].src_name = "Future"
S.src_class[("loky._base", "Future")] = "Future"

# connections ---------------------------------------------------------------
S.cls("Connection", {"closed_": T.Bool}, external=True)
c = S.ext("Connection.send_bytes", cite="Connection.send_bytes(buf): may raise OSError (EPIPE...) or ValueError/struct.error for oversized messages")
c.param("self", T.Ref("Connection")).param("buf", T.Obj).event("send_bytes", "self", "buf").modifies()
c.may_raise.append(("Exception", None))
c = S.ext("Connection.close", cite="Connection.close()")
c.param("self", T.Ref("Connection")).event("conn_close", "self").modifies()
c = S.ext("Connection.poll", cite="Connection.poll(timeout=0.0): whether data is available")
c.param("self", T.Ref("Connection")).param("timeout", T.Obj, default=NONE).returns(T.Bool).modifies()
c = S.ext("Connection.recv_bytes", cite="Connection.recv_bytes()")
c.param("self", T.Ref("Connection")).returns(T.Obj).modifies()
c = S.ext("Connection.fileno", cite="Connection.fileno()")
c.param("self", T.Ref("Connection")).returns(T.Int).modifies().is_pure()

c = S.ext("time.time", cite="time.time(): seconds since the epoch (a real)")
c.returns(T.Real).modifies()
c = S.ext("time.sleep", cite="time.sleep(s)")
c.param("s", T.Obj).event("sleep", "s").modifies()
c = S.ext("os.getpid", cite="os.getpid(): the pid of this process (constant)")
c.returns(T.Int).modifies().is_pure()
c = S.ext("gc.collect", cite="gc.collect()")
c.param("gen", T.Obj, default=NONE).returns(T.Int).modifies()
c = S.ext("traceback.format_exc", cite="traceback.format_exc(): text of the exception being handled")
c.returns(T.Str).modifies()
c = S.ext("traceback.format_exception", cite="traceback.format_exception(type, value, tb): list of strings")
c.param("a", T.Obj).param("b", T.Obj, default=NONE).param("c", T.Obj, default=NONE).returns(T.Obj).modifies()
c = S.ext("traceback.print_exc", cite="traceback.print_exc()")
c.modifies()
c = S.ext("faulthandler.is_enabled", cite="faulthandler.is_enabled()")
c.returns(T.Bool).modifies()
c = S.ext("faulthandler.enable", cite="faulthandler.enable()")
c.modifies().event("faulthandler_enable")
for nm in ("critical", "exception", "warning", "info", "debug"):
    c = S.ext(f"concurrent.futures._base.LOGGER.{nm}", cite="logging: no effect on program state")
    c.param("msg", T.Obj).varargs("a").kwargs("kw").modifies()


@_impl("sys.exit", cite="sys.exit(code): raises SystemExit")
def _sys_exit(eng, st, self_v, args, kwargs, node):
    st.emit("sys_exit", list(args), eng.site(node))
    return [eng.raise_new(st, "SystemExit", args[0] if args else None)]


@_impl("sys.exc_info", cite="sys.exc_info(): (type, value, traceback) of the exception being handled")
def _exc_info(eng, st, self_v, args, kwargs, node):
    from pyvc.values import VTuple, VObj, fresh_const
    return [eng.val(st, VTuple([VObj(fresh_const("ei", T.IntS)), st.cur_exc if st.cur_exc is not None else NONE,
                                 VObj(fresh_const("tb", T.IntS))]))]


@_impl("sys.excepthook", cite="sys.excepthook(type, value, tb): reports; user-replaceable, so it may raise anything")
def _excepthook(eng, st, self_v, args, kwargs, node):
    from pyvc.values import VFn
    st.emit("excepthook", list(args), eng.site(node))
    return eng.call_user(VFn("opaque", t=z3.IntVal(-2001)), [], {}, st, node)


# =========================================================================
# work-id queue, weak references, wait(), processes, contexts
S.ghost("work_ids", z3.ArraySort(T.IntS, T.BoolS), "content of the executor's queue.Queue of work ids (as a set)")
S.ghost("referent", z3.ArraySort(T.IntS, T.IntS), "weakref -> its referent (fixed; liveness is volatile)", elem="obj")


@_impl("queue.Queue.get", cite="queue.Queue.get(block=False): next id or queue.Empty")
def _wq_get(eng, st, self_v, args, kwargs, node):
    from pyvc.values import fresh_const
    out = []
    s = st.clone()
    s.emit("wq_get_empty", [self_v], eng.site(node))
    out.append(eng.raise_new(s, "queue.Empty"))
    k = fresh_const("wid", T.IntS)
    g = st.ghost_get("work_ids")
    st.assume(z3.Select(g, k))
    st.ghost_set("work_ids", z3.Store(g, k, z3.BoolVal(False)))
    st.emit("wq_get", [self_v, VInt(k)], eng.site(node))
    out.append(eng.val(st, VInt(k)))
    return out


@_impl("queue.Queue.put", cite="queue.Queue.put(x) on an unbounded queue: never blocks, never fails")
def _wq_put(eng, st, self_v, args, kwargs, node):
    g = st.ghost_get("work_ids")
    st.ghost_set("work_ids", z3.Store(g, args[0].t, z3.BoolVal(True)))
    st.emit("wq_put", [self_v, args[0]], eng.site(node))
    return [eng.val(st, NONE)]


c = S.ext("queue.Queue", cite="queue.Queue(): new empty queue")
c.returns(T.Ref("queue.Queue"), fresh=True).modifies()


@_impl("weakref.ref", cite="weakref.ref(obj, callback=None): a new weak reference to obj (does not keep it alive); the callback runs when obj is collected")
def _wr_new(eng, st, self_v, args, kwargs, node):
    from pyvc.values import to_obj_term
    r = st.new_obj("weakref.ref")
    st.ghost_set("referent", z3.Store(st.ghost_get("referent"), r.t, to_obj_term(args[0])))
    st.emit("weakref_new", [r] + list(args), eng.site(node))
    return [eng.val(st, r)]


@_impl("weakref.ref.__call__", cite="weakref.ref(): the referent or None once collected (volatile)")
def _deref(eng, st, self_v, args, kwargs, node):
    from pyvc.values import fresh_const, VRef
    # the referent is fixed (ghost map weakref -> object); what is volatile is whether it is still alive
    t = z3.Select(st.ghost_get("referent"), self_v.t)
    st.assume(z3.And(t > 0, t < st.alloc))
    dead = z3.Bool(__import__("pyvc.values", fromlist=["fresh_name"]).fresh_name("collected"))
    out = []
    for b, s in eng.branch(st, dead):
        v = NONE if b else VRef(t, "ProcessPoolExecutor")
        s.emit("deref", [self_v, v], eng.site(node))
        out.append(eng.val(s, v))
    return out


@_impl("multiprocessing.connection.wait", cite="multiprocessing.connection.wait(objs): blocks until at least one is ready; returns a non-empty sublist of its argument")
def _wait(eng, st, self_v, args, kwargs, node):
    from pyvc.values import fresh_const, VAbs
    from pyvc.state import QHyp
    arg = args[0]
    a = arg if isinstance(arg, VAbs) else eng.as_abs(arg, st)
    timeout = args[1] if len(args) > 1 else kwargs.get("timeout", NONE)
    sort = a.elem.comps[0]
    mem = fresh_const("ready", z3.ArraySort(sort, T.BoolS))
    n = fresh_const("nready", T.IntS)
    st.assume(n >= 0)
    if isinstance(timeout, type(NONE)):
        w = fresh_const("ready_wit", sort)
        st.assume(z3.And(n >= 1, z3.Select(mem, w), z3.Select(a.mem, w)))
    st.qhyps.append(QHyp(sort, lambda k, mem=mem, am=a.mem: z3.Implies(z3.Select(mem, k), z3.Select(am, k)), "ready-subset"))
    res = VAbs(mem, n, a.elem)
    st.emit("wait", [a, res], eng.site(node))
    return [eng.val(st, res)]


@_impl("Connection.recv", cite="Connection.recv(): the next unpickled object: here a _ResultItem, a pid (int) or a _RemoteTraceback; unpickling may raise anything")
def _recv(eng, st, self_v, args, kwargs, node):
    from pyvc.values import fresh_const
    out = []
    # raises
    s = st.clone()
    e = s.new_obj("<exc>")
    ct = fresh_const("exccls", T.IntS)
    s.assume(S.exc_valid(ct, "BaseException"))
    s.write_field(e, "cls", VInt(ct))
    s.emit("recv_raises", [self_v, e], eng.site(node))
    s.notes.append("recv raises")
    out.append(("exc", s, e))
    # a pid
    s = st.clone()
    pid = VInt(fresh_const("pid", T.IntS))
    s.emit("recv", [self_v, pid], eng.site(node))
    s.notes.append("recv:pid")
    out.append(eng.val(s, pid))
    # a _RemoteTraceback
    s = st.clone()
    rt = s.new_obj("<exc>")
    s.write_field(rt, "cls", VInt(S.exc_ids["_RemoteTraceback"]) if "_RemoteTraceback" in S.exc_ids else VInt(S.exc_ids["Exception"]))
    s.emit("recv", [self_v, rt], eng.site(node))
    s.notes.append("recv:RemoteTraceback")
    out.append(eng.val(s, rt))
    # a result item
    item = st.new_obj("_ResultItem")
    st.emit("recv", [self_v, item], eng.site(node))
    st.notes.append("recv:ResultItem")
    out.append(eng.val(st, item))
    return out


@_impl("Process.join", cite="BaseProcess.join(): waits for the child and reaps it")
def _pjoin(eng, st, self_v, args, kwargs, node):
    g = st.ghost_get("joined")
    st.ghost_set("joined", z3.Store(g, self_v.t, z3.BoolVal(True)))
    pid, _ = st.read_field(self_v, "pid")
    st.ghost_set("pid_live", z3.Store(st.ghost_get("pid_live"), pid.t, z3.BoolVal(False)))
    st.emit("join", [self_v], eng.site(node))
    return [eng.val(st, NONE)]


S.ghost("proc_up", z3.ArraySort(T.IntS, T.BoolS), "per Process object: the child is running (set and cleared only by the environment; is_alive() is True then)")


@_impl("Process.is_alive", cite="BaseProcess.is_alive(): volatile; certainly True while the child is running")
def _p_is_alive(eng, st, self_v, args, kwargs, node):
    from pyvc.values import fresh_const
    r = z3.Or(z3.Select(st.ghost_get("proc_up"), self_v.t), fresh_const("alive", T.BoolS))
    return [eng.val(st, VBool(r))]


@_impl("Process.kill", cite="BaseProcess.kill(): SIGKILL to the child")
def _pkill(eng, st, self_v, args, kwargs, node):
    pid, _ = st.read_field(self_v, "pid")
    st.ghost_set("killed", z3.Store(st.ghost_get("killed"), pid.t, z3.BoolVal(True)))
    st.emit("proc_kill", [self_v], eng.site(node))
    return [eng.val(st, NONE)]


@_impl("Process.start", cite="BaseProcess.start(): spawns the child; pid is set and is not the pid of another live child; OSError (EAGAIN/ENOMEM/EMFILE) when the spawn fails")
def _pstart(eng, st, self_v, args, kwargs, node):
    from pyvc.values import fresh_const
    failed = st.clone()
    failed.emit("start_failed", [self_v], eng.site(node))
    failed.notes.append("Process.start raises OSError")
    fail_out = eng.raise_new(failed, "OSError")
    pid = fresh_const("newpid", T.IntS)
    live = st.ghost_get("pid_live")
    st.assume(z3.Not(z3.Select(live, pid)))       # A-pids (kernel)
    st.ghost_set("pid_live", z3.Store(live, pid, z3.BoolVal(True)))
    st.ghost_set("proc_of_pid", z3.Store(st.ghost_get("proc_of_pid"), pid, self_v.t))
    st.write_field(self_v, "pid", VInt(pid))
    g = st.ghost_get("started")
    st.ghost_set("started", z3.Store(g, self_v.t, z3.BoolVal(True)))
    st.emit("start", [self_v, VInt(pid)], eng.site(node))
    return [fail_out, eng.val(st, NONE)]


@_impl("Context.Process", cite="ctx.Process(target=, args=, env=): a new, unstarted process object; contexts other than loky reject env= with TypeError")
def _ctx_process(eng, st, self_v, args, kwargs, node):
    out = []
    if "env" in kwargs:
        s = st.clone()
        s.notes.append("Process(env=) TypeError")
        s.emit("Process_rejects_env", [], eng.site(node))
        out.append(eng.raise_new(s, "TypeError"))
    p = st.new_obj("Process")
    st.emit("Process", [p, kwargs.get("target", NONE), kwargs.get("args", NONE), kwargs.get("env", NONE)], eng.site(node))
    out.append(eng.val(st, p))
    return out


for nm in ("BoundedSemaphore", "Lock", "Semaphore", "RLock"):
    c = S.ext(f"Context.{nm}", cite=f"ctx.{nm}(...): a new primitive")
    c.param("self", T.Ref("Context")).param("value", T.Obj, default=NONE).returns(T.Ref("MPLock"), fresh=True).modifies()
c = S.ext("threading.Lock", cite="threading.Lock(): a new lock")
c.returns(T.Ref("threading.Lock"), fresh=True).modifies()
c = S.ext("threading.RLock", cite="threading.RLock(): a new lock")
c.returns(T.Ref("threading.RLock"), fresh=True).modifies()


c = S.ext("threading.Thread.__init__", cite="Thread.__init__(name=..., daemon=None): a thread object, not started")
c.param("self", T.Ref("threading.Thread")).param("name", T.Obj, default=NONE).param("daemon", T.Obj, default=NONE).event("thread_init", "self", "name").modifies()


c = S.ext("threading.Thread.start", cite="Thread.start(): starts the thread; RuntimeError when threads cannot be started (interpreter shutting down / resources)")
c.param("self", T.Ref("threading.Thread")).event("thread_start", "self").modifies()
c.may_raise.append(("RuntimeError", None))
c = S.ext("threading._register_atexit", cite="threading._register_atexit(func): func runs before the interpreter joins its non-daemon threads")
c.param("func", T.Obj).returns(T.Obj).event("register_atexit", "func").ensures("returns-nothing", "result is None").modifies()   # (it appends to a list: no handle)


@_impl("threading.Thread.join", cite="Thread.join(): blocks until the thread ends")
def _tjoin(eng, st, self_v, args, kwargs, node):
    st.emit("thread_join", [self_v], eng.site(node))
    return [eng.val(st, NONE)]


@_impl("WeakKeyDict.pop", cite="WeakKeyDictionary.pop(key, default)")
def _wkd_pop(eng, st, self_v, args, kwargs, node):
    from pyvc.values import VObj, fresh_const
    st.emit("wkd_pop", [self_v] + list(args), eng.site(node))
    return [eng.val(st, VObj(fresh_const("wkd", T.IntS)))]


@_impl("WeakKeyDict.__setitem__", cite="WeakKeyDictionary[key] = value")
def _wkd_set(eng, st, self_v, args, kwargs, node):
    st.emit("wkd_set", [self_v] + list(args), eng.site(node))
    return [eng.val(st, NONE)]


@_impl("multiprocessing.Pipe", cite="multiprocessing.Pipe(duplex=False): (reader, writer) connection pair, two new descriptors")
def _mp_pipe(eng, st, self_v, args, kwargs, node):
    from pyvc.values import VTuple
    r = st.new_obj("Connection")
    w = st.new_obj("Connection")
    st.emit("mp_pipe", [r, w], eng.site(node))
    return [eng.val(st, VTuple([r, w]))]


for nm in ("BoundedSemaphore", "Lock", "Semaphore", "RLock"):
    S.contracts[f"Context.{nm}"].event("new_lock", "self")


_decodable = z3.Function("py_decodable_ascii", T.StrS, T.BoolS)
S.spec_funcs["decodable"] = lambda eng, st, s_: VBool(_decodable(z3.Function("py_str_strip", T.StrS, T.StrS)(s_.t)))

S.cls("BytesIO", {}, external=True)
c = S.ext("io.BytesIO", cite="io.BytesIO(): in-memory buffer")
c.returns(T.Ref("BytesIO"), fresh=True).modifies()
c = S.ext("BytesIO.getbuffer", cite="BytesIO.getbuffer()")
c.param("self", T.Ref("BytesIO")).returns(T.Obj).modifies()
c = S.ext("BytesIO.getvalue", cite="BytesIO.getvalue()")
c.param("self", T.Ref("BytesIO")).returns(T.Obj).modifies()


# =========================================================================
# file descriptors: ownership accounting for C18 / C20
S.ghost("fd_open", z3.ArraySort(T.IntS, T.BoolS), "descriptors currently open in this process")
S.ghost("fd_owned", z3.ArraySort(T.IntS, T.BoolS), "descriptors whose closing has been handed to a finalizer / an owning object")
S.ghost("fd_inheritable", z3.ArraySort(T.IntS, T.BoolS), "descriptors marked inheritable")


@_impl("os.pipe", cite="os.pipe(): two new descriptors (read, write), not inheritable; OSError (EMFILE/ENFILE) when none is available")
def _os_pipe(eng, st, self_v, args, kwargs, node):
    from pyvc.values import fresh_const, VTuple
    out = []
    s = st.clone()
    s.emit("pipe_failed", [], eng.site(node))
    s.notes.append(f"os.pipe@{eng.site(node)} raises OSError")
    out.append(eng.raise_new(s, "OSError"))
    r, w = fresh_const("fd_r", T.IntS), fresh_const("fd_w", T.IntS)
    op = st.ghost_get("fd_open")
    st.assume(z3.And(r >= 3, w >= 3, r != w, z3.Not(z3.Select(op, r)), z3.Not(z3.Select(op, w))))
    st.ghost_set("fd_open", z3.Store(z3.Store(op, r, z3.BoolVal(True)), w, z3.BoolVal(True)))
    st.emit("pipe", [VInt(r), VInt(w)], eng.site(node))
    out.append(eng.val(st, VTuple([VInt(r), VInt(w)])))
    return out


@_impl("os.close", cite="os.close(fd): the descriptor is closed")
def _os_close(eng, st, self_v, args, kwargs, node):
    fd = args[0]
    st.ghost_set("fd_open", z3.Store(st.ghost_get("fd_open"), fd.t, z3.BoolVal(False)))
    st.emit("close", [fd], eng.site(node))
    return [eng.val(st, NONE)]


@_impl("os.set_inheritable", cite="os.set_inheritable(fd, flag)")
def _set_inh(eng, st, self_v, args, kwargs, node):
    st.ghost_set("fd_inheritable", z3.Store(st.ghost_get("fd_inheritable"), args[0].t, eng.truth(args[1], st)))
    st.emit("set_inheritable", list(args), eng.site(node))
    return [eng.val(st, NONE)]


@_impl("os.fdopen", cite="os.fdopen(fd, mode): a file object owning the descriptor (closing the file closes it)")
def _fdopen(eng, st, self_v, args, kwargs, node):
    f = st.new_obj("File")
    st.write_field(f, "fd", args[0])
    st.write_field(f, "path", VStr(""))
    st.write_field(f, "closed", VBool(False))
    st.emit("fdopen", [f, args[0]], eng.site(node))
    return [eng.val(st, f)]


def _fexit_fd(eng, st, self_v, args, kwargs, node):
    fd, _ = st.read_field(self_v, "fd")
    st.write_field(self_v, "closed", VBool(True))
    op = st.ghost_get("fd_open")
    st.ghost_set("fd_open", z3.If(fd.t >= 0, z3.Store(op, fd.t, z3.BoolVal(False)), op))
    st.emit("close_file", [self_v, fd], eng.site(node))
    return [eng.val(st, VBool(False))]


S.contracts["File.__exit__"].impl = _fexit_fd
S.contracts["File.close"] = S.contracts["File.__exit__"]
c = S.ext("File.write", cite="file.write(data): may raise OSError")
c.param("self", T.Ref("File")).param("data", T.Obj).event("write", "self", "data").modifies()
c.may_raise.append(("OSError", None))


@_impl("multiprocessing.util.Finalize", cite="util.Finalize(obj, callback, args, ...): callback(*args) runs when obj is collected or at exit (A-finalize)")
def _finalize(eng, st, self_v, args, kwargs, node):
    from pyvc.values import VObj, fresh_const, VFn, VTuple
    obj = args[0] if args else NONE
    cb = args[1] if len(args) > 1 else kwargs.get("callback", NONE)
    cargs = args[2] if len(args) > 2 else kwargs.get("args", VTuple([]))
    if isinstance(cb, VFn) and cb.kind == "ext" and cb.name == "os.close" and isinstance(cargs, VTuple) and cargs.items:
        fd = cargs.items[0]
        st.ghost_set("fd_owned", z3.Store(st.ghost_get("fd_owned"), fd.t, z3.BoolVal(True)))
    st.emit("finalize", [obj, cb, cargs], eng.site(node))
    return [eng.val(st, VObj(fresh_const("finalizer", T.IntS)))]


c = S.ext("os.fsencode", cite="os.fsencode(s): bytes of the string (a function of it)")
c.param("s", T.Obj).returns(T.Obj).modifies().is_pure()
S.ghost("fork_exec_n", T.IntS, "number of _posixsubprocess.fork_exec calls")


@_impl("_posixsubprocess.fork_exec", cite="_posixsubprocess.fork_exec(args, executable_list, close_fds, pass_fds, cwd, env, ..., preexec_fn, [allow_vfork]): pid of the child, OSError when the fork/exec fails")
def _pfe(eng, st, self_v, args, kwargs, node):
    from pyvc.values import fresh_const, VTuple
    out = []
    packed = [a.v if hasattr(a, "v") and not isinstance(a, type(NONE)) and a.__class__.__name__ == "Star" else a for a in args]
    s = st.clone()
    s.emit("fork_exec", packed, eng.site(node))
    s.emit("fork_exec_failed", [], eng.site(node))
    s.notes.append(f"fork_exec@{eng.site(node)} raises OSError")
    out.append(eng.raise_new(s, "OSError"))
    st.emit("fork_exec", packed, eng.site(node))
    pid = VInt(fresh_const("childpid", T.IntS))
    st.assume(pid.t > 0)
    out.append(eng.val(st, pid))
    return out


S.ext_consts["subprocess._USE_VFORK"] = __import__("pyvc.values", fromlist=["VConst"]).VConst("subprocess._USE_VFORK")


# iterators and generators (C03 part A) --------------------------------------
S.cls("Iterator", {}, external=True)
S.cls("ISlice", {"it": T.Ref("Iterator"), "n": T.Int}, external=True)
S.ghost("it_seq", z3.ArraySort(T.IntS, z3.SeqSort(T.IntS)), "per iterator object: the finite sequence of items (object ids) it runs over (A-iter)")
S.ghost("it_pos", z3.ArraySort(T.IntS, T.IntS), "per iterator object: number of items already consumed")
S.ghost("gen_items", z3.SeqSort(T.IntS), "generator under verification: the values yielded so far (object ids)")
S.ghost("gen_flat", z3.SeqSort(T.IntS), "generator of sequences under verification: concatenation of everything yielded so far")
S.ghost("gen_n", T.IntS, "generator of sequences under verification: number of yields so far")


@_impl("itertools.islice", cite="itertools.islice(it, n): lazily the next n items of it (fewer when it ends); consumed here only through tuple(...)")
def _islice(eng, st, self_v, args, kwargs, node):
    o = st.new_obj("ISlice")
    st.write_field(o, "it", args[0])
    st.write_field(o, "n", args[1])
    return [eng.val(st, o)]
