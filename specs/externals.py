"""Trusted contracts of the standard library / OS / third-party functions
that loky calls.  Every entry is an *assumption* (listed in the evidence as
trusted base), with the CPython documentation it paraphrases."""
import z3
from pyvc.spec import SCHEMA as S
from pyvc import types as T
from pyvc.values import VStr, VInt, VBool, VConst, NONE

# ---- logging: evaluated for their arguments, then no-ops that do not raise
for name in ("debug", "info", "sub_debug"):
    c = S.ext(f"multiprocessing.util.{name}", cite="multiprocessing.util: logging helper; treated as a no-op (DESIGN 2.2)")
    c.param("msg", T.Obj).varargs("args")
    c.modifies()

S.ext_modules = {"os", "sys", "multiprocessing", "multiprocessing.util", "signal", "warnings", "math",
                 "traceback", "subprocess", "psutil", "threading", "queue", "os.path", "gc", "faulthandler",
                 "time", "struct", "weakref", "itertools", "errno", "shutil", "pickle", "copyreg", "types",
                 "io", "functools", "inspect", "tempfile", "_multiprocessing", "multiprocessing.process",
                 "cloudpickle", "_posixsubprocess", "socket", "runpy", "textwrap", "importlib"}
S.aliases.update({
    "multiprocessing.queues.Full": "queue.Full",
    "multiprocessing.queues.Empty": "queue.Empty",
    "concurrent.futures.process.BrokenProcessPool": "concurrent.futures.process.BrokenProcessPool",
})
S.optional_modules = {}
S.ext_consts = {}
S.class_attrs = {}
S.config_hasattr = {}

# multiprocessing contexts -------------------------------------------------
S.cls("Context", {}, external=True)
c = S.ext("Context.get_start_method", cite="multiprocessing.context.BaseContext.get_start_method: returns the name of the start method; pure")
c.param("self", T.Ref("Context")).returns(T.Str).modifies().is_pure()


# =========================================================================
# configuration of the host as ghost constants (never modified): the
# quantifier "for all configurations" of C17 ranges over them
def _impl(key, cite=""):
    """Register a trusted external whose behaviour is given by a Python
    function over the symbolic state (listed like any other assumption)."""
    def deco(fn):
        c = S.ext(key, cite=cite)
        c.impl = lambda eng, st, self_v, args, kwargs, node, fn=fn: fn(eng, st, self_v, args, kwargs, node)
        return fn
    return deco


S.ghost("cfg_aff", T.IntS, "size of os.sched_getaffinity(0)")
S.ghost("cfg_sched_raises", T.BoolS, "os.sched_getaffinity raises NotImplementedError")
S.ghost("cfg_psutil_aff", T.IntS, "size of psutil.Process().cpu_affinity()")
S.config_hasattr["os.sched_getaffinity"] = z3.Bool("cfg!hasattr:os.sched_getaffinity")
S.config_hasattr["psutil.Process.cpu_affinity"] = z3.Bool("cfg!hasattr:psutil.Process.cpu_affinity")
S.optional_modules["psutil"] = True

c = S.ext("os.cpu_count", cite="os.cpu_count(): 'Return the number of logical CPUs in the system. Returns None if undetermined.'")
c.returns(T.Opt(T.Int)).ensures("nonneg", "is_none(result) or the(result) >= 0").modifies().is_pure()

c = S.ext("os.sched_getaffinity", cite="os.sched_getaffinity(pid): set of CPUs the process is restricted to (non-empty); may be unavailable")
c.param("pid", T.Int).returns(T.Obj).modifies()
c.ensures("size", "len(result) == G.cfg_aff and G.cfg_aff >= 1 and not G.cfg_sched_raises")
c.may_raise.append(("NotImplementedError", "G.cfg_sched_raises"))

S.cls("psutil.Process", {"pid": T.Int}, external=True)
c = S.ext("psutil.Process", cite="psutil.Process(pid=None): handle on a process")
c.param("pid", T.Obj, default=NONE).returns(T.Ref("psutil.Process"), fresh=True).modifies()
c = S.ext("psutil.Process.cpu_affinity", cite="psutil.Process.cpu_affinity(): list of eligible CPUs (non-empty)")
c.param("self", T.Ref("psutil.Process")).returns(T.Obj).modifies()
c.ensures("size", "len(result) == G.cfg_psutil_aff and G.cfg_psutil_aff >= 1")

c = S.ext("os.path.exists", cite="os.path.exists(path): pure predicate of the file system (assumed stable during the call)")
c.param("path", T.Str).returns(T.Bool).modifies().is_pure()

# files: content is a pure function of the path
S.cls("File", {"path": T.Str, "fd": T.Int, "closed": T.Bool}, external=True)
_file_text = z3.Function("file_text", T.StrS, T.StrS)
S.spec_funcs["file_text"] = lambda eng, st, p: VStr(_file_text(p.t))


@_impl("builtins.open", cite="open(path): text file object; its read() returns the content (a function of the path)")
def _open(eng, st, self_v, args, kwargs, node):
    from pyvc.values import VRef
    path = args[0]
    f = st.new_obj("File")
    if isinstance(path, VStr):
        st.write_field(f, "path", path)
        st.write_field(f, "fd", VInt(-1))
    else:
        st.write_field(f, "fd", path)
    st.write_field(f, "closed", VBool(False))
    st.emit("open", [f, path], eng.site(node))
    return [eng.val(st, f)]


@_impl("File.__enter__", cite="file objects are their own context managers")
def _fenter(eng, st, self_v, args, kwargs, node):
    return [eng.val(st, self_v)]


@_impl("File.__exit__", cite="file.__exit__ closes the file and propagates exceptions")
def _fexit(eng, st, self_v, args, kwargs, node):
    st.write_field(self_v, "closed", VBool(True))
    st.emit("close_file", [self_v], eng.site(node))
    return [eng.val(st, VBool(False))]


@_impl("File.read", cite="file.read(): whole content")
def _fread(eng, st, self_v, args, kwargs, node):
    p, _ = st.read_field(self_v, "path")
    return [eng.val(st, VStr(_file_text(p.t)))]


@_impl("math.ceil", cite="math.ceil(x): smallest integer >= x.  A-float: q/p of two ints is taken as the exact rational")
def _ceil(eng, st, self_v, args, kwargs, node):
    from pyvc.values import VReal
    v = args[0]
    if isinstance(v, VInt):
        return [eng.val(st, v)]
    t = v.t
    # ceil(ToReal(a) / ToReal(b)) on integers: exact integer ceiling
    if z3.is_app(t) and t.decl().kind() == z3.Z3_OP_DIV:
        a, b = t.children()
        if z3.is_app(a) and a.decl().kind() == z3.Z3_OP_TO_REAL and z3.is_app(b) and b.decl().kind() == z3.Z3_OP_TO_REAL:
            ai, bi = a.children()[0], b.children()[0]
            eng.abstractions.add("math.ceil(q / p) on integers is the mathematical ceiling (A-float)")
            pos = -((-ai) / bi)       # b > 0
            neg = -(ai / (-bi))       # b < 0: ceil(a/b) = ceil((-a)/(-b)) = -floor(a/(-b))
            return [eng.val(st, VInt(z3.If(bi > 0, pos, neg)))]
    return [eng.val(st, VInt(-z3.ToInt(-t)))]


# environment --------------------------------------------------------------
from pyvc.values import VRef as _VRef
_env_has = z3.Function("env_has", T.StrS, T.BoolS)
_env_val = z3.Function("env_val", T.StrS, T.StrS)
S.cls("os.Environ", {}, external=True)
S.ext_consts["os.environ"] = _VRef(z3.IntVal(-1001), "os.Environ")
S.spec_funcs["env_has"] = lambda eng, st, k: VBool(_env_has(k.t))
S.spec_funcs["env_val"] = lambda eng, st, k: VStr(_env_val(k.t))


@_impl("os.Environ.get", cite="os.environ.get(key, default): mapping lookup; the environment is a fixed map during the call")
def _env_get(eng, st, self_v, args, kwargs, node):
    key = args[0]
    default = args[1] if len(args) > 1 else NONE
    out = []
    for b, s in eng.branch(st, _env_has(key.t)):
        out.append(eng.val(s, VStr(_env_val(key.t)) if b else default))
    return out


@_impl("os.Environ.__getitem__", cite="os.environ[key]: KeyError when absent")
def _env_getitem(eng, st, self_v, args, kwargs, node):
    key = args[0]
    out = []
    for b, s in eng.branch(st, _env_has(key.t)):
        out.append(eng.val(s, VStr(_env_val(key.t))) if b else eng.raise_new(s, "KeyError"))
    return out


S.classes["os.Environ"].contains = lambda eng, ref, x, st: _env_has(x.t)

c = S.ext("warnings.warn", cite="warnings.warn(message, category=UserWarning): issues a warning. A-warn: warnings are not turned into errors")
c.param("message", T.Obj).param("category", T.Obj, default=NONE).param("stacklevel", T.Obj, default=NONE)
c.event("warn", "message").modifies()
S.assumption("A-warn", "warnings.warn does not raise (the process does not run with -W error)")

c = S.ext("traceback.print_tb", cite="traceback.print_tb: prints, no other effect")
c.param("tb", T.Obj).modifies()

S.cls("CompletedProcess", {"stdout": T.Str, "returncode": T.Int}, external=True)
c = S.ext("subprocess.run", cite="subprocess.run(...): runs a command; may raise OSError/SubprocessError (any Exception)")
c.param("args", T.Obj).kwargs("kw")
c.returns(T.Ref("CompletedProcess"), fresh=True).modifies()
c.may_raise.append(("Exception", None))
