"""Sidecar contracts for joblib/loky (no annotation is written into /repo)."""
import importlib

MODULES = [
    "externals",
    "utils",
    "initializers",
    "reduction",
    "queues",
    "process_executor",
    "context",
    "resource_tracker",
    "cloudpickle_wrapper",
    "launch",
    "synchronize",
    "reusable_executor",
    "mapping",
    "properties",
]


def load_all():
    from pyvc.spec import SCHEMA
    for m in MODULES:
        importlib.import_module(f"specs.{m}")
    return SCHEMA
