"""Contracts for loky/cloudpickle_wrapper.py (C16)."""
import z3
from pyvc.spec import SCHEMA as S, Module
from pyvc import types as T
from pyvc.values import VBool, NONE, VObj
from specs.externals import _impl

M = Module("loky.cloudpickle_wrapper")
CW = "loky.cloudpickle_wrapper"

M.cls("CloudpickledObjectWrapper", {"_obj": T.Obj, "_keep_wrapper": T.Bool})
M.cls("CallableObjectWrapper", {}, bases=["CloudpickledObjectWrapper"])
M.cls("CloudpickledClassWrapper", {}, bases=["CloudpickledObjectWrapper"], src_path="wrap_non_picklable_objects.CloudpickledClassWrapper")
M.glob("WRAP_CACHE", T.Map(T.Obj, T.Obj))

_cp_dumps = z3.Function("cp_dumps", T.IntS, T.IntS)
_cp_loads = z3.Function("cp_loads", T.IntS, T.IntS)
S.spec_funcs["cp_dumps"] = lambda eng, st, o: VObj(_cp_dumps(__import__("pyvc.values", fromlist=["to_obj_term"]).to_obj_term(o)))
S.spec_funcs["cp_loads"] = lambda eng, st, o: VObj(_cp_loads(__import__("pyvc.values", fromlist=["to_obj_term"]).to_obj_term(o)))


@_impl("cloudpickle.dumps", cite="cloudpickle.dumps(obj): the pickle (a function of the object); PicklingError for unsupported objects")
def _dumps(eng, st, self_v, args, kwargs, node):
    from pyvc.values import to_obj_term
    out = []
    s = st.clone()
    out.append(eng.raise_new(s, "pickle.PicklingError"))
    out.append(eng.val(st, VObj(_cp_dumps(to_obj_term(args[0])))))
    return out


@_impl("functools.update_wrapper", cite="functools.update_wrapper(wrapper, wrapped): copies __module__, __name__, __qualname__, __doc__ and every entry of "
       "wrapped.__dict__ into the wrapper's own __dict__ and sets wrapper.__wrapped__: instance attributes that from then on shadow __getattr__")
def _update_wrapper(eng, st, self_v, args, kwargs, node):
    wrapper, wrapped = args[0], args[1]
    outs = eng.set_attr(wrapper, "__wrapped__", wrapped, st)       # an attribute the wrapper classes do not declare: a frame violation of the caller
    return [eng.val(o[1], wrapper) for o in outs]


@_impl("cloudpickle.loads", cite="cloudpickle.loads(data): the object; with T-deps loads(dumps(o)) behaves like o")
def _loads(eng, st, self_v, args, kwargs, node):
    from pyvc.values import to_obj_term
    out = []
    s = st.clone()
    out.append(eng.raise_new(s, "Exception"))
    out.append(eng.val(st, VObj(_cp_loads(to_obj_term(args[0])))))
    return out


c = S.ext("inspect.isclass", cite="inspect.isclass(obj): pure predicate")
c.param("obj", T.Obj).returns(T.Bool).modifies().is_pure()

# ------------------------------------------------------------------ wrapper objects
c = M.contract("CloudpickledObjectWrapper.__init__", props=["C16"])
c.param("self", T.Ref("CloudpickledObjectWrapper")).param("obj", T.Obj).param("keep_wrapper", T.Bool, default=VBool(False))
c.ensures("wrap/stores-the-object-and-the-flag", "self._obj is obj and self._keep_wrapper == keep_wrapper")
c.raises_only("wrap/no-exception")
c.modifies("self._obj", "self._keep_wrapper")

c = M.contract("CloudpickledObjectWrapper.__reduce__", props=["C16", "C03"])   # C03: a wrapped callable or argument sent again is pickled as it is *now* (the value the future holds is fn(*args) of that submission)
c.param("self", T.Ref("CloudpickledObjectWrapper"))
c.ensures("reduce/unwrapped-unless-keep-wrapper",
          "implies(not self._keep_wrapper, result[0] is loads and len(result[1]) == 1 and result[1][0] is cp_dumps(self._obj))")
c.ensures("reduce/rewrapped-when-keep-wrapper",
          "implies(self._keep_wrapper, result[0] is _reconstruct_wrapper and len(result[1]) == 2 and result[1][0] is cp_dumps(self._obj) and result[1][1] == True)")
c.raises("reduce/only-when-cloudpickle-cannot-serialise", "pickle.PicklingError")
c.raises_only("reduce/only-pickling-error")
c.modifies()
c.twin("reduce/unwrapped-unless-keep-wrapper", "result[0] is loads")

c = M.contract("CloudpickledObjectWrapper.__getattr__", props=["C16"])
c.param("self", T.Ref("CloudpickledObjectWrapper")).param("attr", T.Str)
c.ensures("forward/attribute-reads-go-to-the-object", "implies(attr != '_obj' and attr != '_keep_wrapper', result is dynattr(self._obj, attr))")
# the wrapper has an attribute iff its object has it: a read of an attribute the object lacks raises AttributeError (hasattr / duck typing see the object)
c.ensures("forward/only-attributes-the-object-has-are-returned", "implies(attr != '_obj' and attr != '_keep_wrapper', has_dynattr(self._obj, attr))")
c.raises("forward/a-missing-attribute-raises-attribute-error", "AttributeError",
         post="implies(attr != '_obj' and attr != '_keep_wrapper', not has_dynattr(self._obj, attr))")
c.modifies()
c.assumes("A-user")

c = M.contract("CallableObjectWrapper.__call__", props=["C16"])
c.param("self", T.Ref("CallableObjectWrapper")).varargs("args").kwargs("kwargs")
c.ensures("forward/calls-go-to-the-object-unchanged", "result is app_call(self._obj, args, kwargs)")
c.ensures("forward/exactly-one-call", "log_count('user_call') == 1 and log_arg('user_call', 0, 0) is self._obj")
c.raises("forward/exceptions-of-the-object-propagate", "BaseException", post="log_count('user_raise') == 1")
c.modifies()
c.assumes("A-user")

c = M.contract("_wrap_non_picklable_objects", props=["C16"])
c.param("obj", T.Obj).param("keep_wrapper", T.Bool)
c.returns(T.Ref("CloudpickledObjectWrapper"), fresh=True)
c.ensures("wrap/callable-wrapper-iff-object-callable", "isinstance_(result, CallableObjectWrapper) == callable_(obj)")
c.ensures("wrap/wraps-that-object-with-that-flag", "result._obj is obj and result._keep_wrapper == keep_wrapper")
c.ensures("wrap/a-new-wrapper", "fresh(result)")
c.raises_only("wrap/no-exception")
c.modifies()
c.twin("wrap/callable-wrapper-iff-object-callable", "isinstance_(result, CallableObjectWrapper)")
c.cover("callable", "callable_(obj)")
c.cover("not-callable", "not callable_(obj)")

c = M.contract("_reconstruct_wrapper", props=["C16"])
c.param("_pickled_object", T.Obj).param("keep_wrapper", T.Bool)
c.returns(T.Ref("CloudpickledObjectWrapper"), fresh=True)
c.ensures("reconstruct/wraps-the-unpickled-object", "result._obj is cp_loads(_pickled_object) and result._keep_wrapper == keep_wrapper")
c.ensures("reconstruct/callable-iff-unpickled-object-callable", "isinstance_(result, CallableObjectWrapper) == callable_(cp_loads(_pickled_object))")
c.raises("reconstruct/unpickling-errors-propagate", "Exception")
c.raises_only("reconstruct/only-unpickling-errors")
c.modifies()

# ------------------------------------------------------------------ wrapping a class
CCW = "wrap_non_picklable_objects.CloudpickledClassWrapper.__init__"
c = M.contract(CCW, props=["C16"])
c.param("self", T.Ref("CloudpickledClassWrapper")).varargs("args").kwargs("kwargs")
c.free("obj", T.Obj).free("keep_wrapper", T.Bool)
c.ensures("class/instance-wraps-an-instance-of-the-class", "self._obj is app_call(obj, args, kwargs) and self._keep_wrapper == keep_wrapper")
c.ensures("class/instance-callable-iff-its-object-is", "callable_(self) == callable_(self._obj)")
c.raises("class/constructor-errors-propagate", "BaseException")
c.replay("class_wrapper_callable", keep_wrapper="keep_wrapper")
c.modifies("self._obj", "self._keep_wrapper")
c.assumes("A-user")

c = M.contract("wrap_non_picklable_objects", props=["C16"])
c.param("obj", T.Obj).param("keep_wrapper", T.Bool, default=VBool(True))
c.ensures("wrap/class-yields-a-wrapper-class-named-like-it",
          "implies(inspect.isclass(obj), log_count('setattr') == 1 and log_arg('setattr', 0, 1) == '__name__' and log_arg('setattr', 0, 2) is attr(obj, '__name__'))")
c.ensures("wrap/instance-goes-through-the-object-wrapper",
          "implies(not inspect.isclass(obj), log_count('call:_wrap_non_picklable_objects') == 1 and log_arg('call:_wrap_non_picklable_objects', 0, 1) is obj "
          "and log_arg('call:_wrap_non_picklable_objects', 0, 2) == keep_wrapper and result is log_arg('call:_wrap_non_picklable_objects', 0, 0))")
c.raises_only("wrap/no-exception")
c.modifies()
