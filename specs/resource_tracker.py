"""Contracts for loky/backend/resource_tracker.py (C11, C12)."""
import ast
import z3
from pyvc.spec import SCHEMA as S, Module
from pyvc import types as T
from pyvc.values import VBool, NONE, VStr, VInt, VFn, VConst, EngineError
from specs.externals import _impl

M = Module("loky.backend.resource_tracker")
RT = "loky.backend.resource_tracker"
TYPES = ["folder", "file", "semlock"]
REG = T.Map(T.Str, T.Int)


def _cleanup_funcs(eng, st):
    """_CLEANUP_FUNCS as the module's own top-level statements build it
    (dict display, then the posix-only item): re-evaluated from the source."""
    mi = eng.repo.module(RT)
    prev = st.push_frame(RT, "<module>")
    val = None
    try:
        def run(stmts):
            nonlocal val
            for node in stmts:
                if isinstance(node, ast.Assign) and any(isinstance(t, ast.Name) and t.id == "_CLEANUP_FUNCS" for t in node.targets):
                    rs = eng.ev(node.value, st)
                    if len(rs) != 1 or rs[0][0] != "val":
                        raise EngineError("_CLEANUP_FUNCS initialiser is not a plain dict display")
                    val = rs[0][2]
                    st.frame.vars["_CLEANUP_FUNCS"] = val
                elif isinstance(node, ast.Assign) and any(isinstance(t, ast.Subscript) and isinstance(t.value, ast.Name)
                                                          and t.value.id == "_CLEANUP_FUNCS" for t in node.targets):
                    for o in eng.exec_stmt(node, st):
                        if o[0] != "next":
                            raise EngineError("_CLEANUP_FUNCS item assignment raised")
                elif isinstance(node, ast.If):
                    rs = eng.ev(node.test, st)
                    if len(rs) == 1 and rs[0][0] == "val":
                        c = z3.simplify(eng.truth(rs[0][2], st))
                        if z3.is_true(c):
                            run(node.body)
                        elif z3.is_false(c):
                            run(node.orelse)
        run(mi.tree.body)
    finally:
        fid = st.cur
        st.cur = prev
        st.frames.pop(fid, None)
    if val is None:
        raise EngineError("_CLEANUP_FUNCS not found at module level")
    return val


M.glob("_CLEANUP_FUNCS", T.Obj, factory=_cleanup_funcs,
       doc="rtype -> cleanup function; built by evaluating the module's own top-level statements (posix branch)")
M.glob("_HAVE_SIGMASK", T.Bool, const=VBool(True), doc="hasattr(signal, 'pthread_sigmask'): True on Linux (A-posix)")
M.glob("VERBOSE", T.Bool)
S.ext_consts["signal.SIGINT"] = VConst("signal.SIGINT")
S.ext_consts["signal.SIG_IGN"] = VConst("signal.SIG_IGN")
S.ext_consts["signal.SIG_BLOCK"] = VConst("signal.SIG_BLOCK")
S.ext_consts["signal.SIG_UNBLOCK"] = VConst("signal.SIG_UNBLOCK")
S.ext_consts["multiprocessing.util.DEBUG"] = VInt(10)
M.glob("_IGNORED_SIGNALS", T.Obj, const=VConst("(SIGINT, SIGTERM)"))

# ---- externals of the tracker -------------------------------------------
for g in ("cleanup_folder", "cleanup_file", "cleanup_semlock"):
    S.ghost(g, z3.ArraySort(T.StrS, T.IntS), f"number of calls of the {g[8:]} cleanup function per name")
S.ghost("cleanup_seq", T.IntS, "total number of cleanup calls (a clock)")
S.ghost("last_nonfolder_cleanup", T.IntS, "clock value of the last non-folder cleanup")
S.ghost("first_folder_cleanup_after", z3.ArraySort(T.IntS, T.IntS), "unused")


def _mk_cleanup(key, rtype, cite):
    @_impl(key, cite=cite)
    def _cl(eng, st, self_v, args, kwargs, node, rtype=rtype):
        name = args[0]
        g = f"cleanup_{rtype}"
        out = []
        for raises in (True, False):
            s = st.clone() if raises else st
            arr = s.ghost_get(g)
            s.ghost_set(g, z3.Store(arr, name.t, z3.Select(arr, name.t) + 1))
            s.ghost_set("cleanup_seq", s.ghost_get("cleanup_seq") + 1)
            s.emit("cleanup", [VStr(rtype), name], eng.site(node))
            if raises:
                e = s.new_obj("<exc>")
                ct = __import__("pyvc.values", fromlist=["fresh_const"]).fresh_const("exccls", T.IntS)
                s.assume(S.exc_valid(ct, "Exception"))
                s.write_field(e, "cls", VInt(ct))
                s.notes.append(f"cleanup({rtype}) raises")
                out.append(("exc", s, e))
            else:
                out.append(eng.val(s, NONE))
        return out
    return _cl


_mk_cleanup("shutil.rmtree", "folder", "shutil.rmtree(path): removes the tree; any OSError (an Exception) may be raised")
_mk_cleanup("os.unlink", "file", "os.unlink(path): removes the file; OSError may be raised")
_mk_cleanup("_multiprocessing.sem_unlink", "semlock", "sem_unlink(name): removes the named semaphore; OSError may be raised")


def _cleanup_count(eng, st, rtype, name):
    t = rtype.t
    return VInt(z3.If(t == "folder", z3.Select(st.ghost_get("cleanup_folder"), name.t),
                      z3.If(t == "file", z3.Select(st.ghost_get("cleanup_file"), name.t),
                            z3.Select(st.ghost_get("cleanup_semlock"), name.t))))


S.spec_funcs["cleanups"] = _cleanup_count

c = S.ext("signal.signal", cite="signal.signal(signum, handler)")
c.param("signum", T.Obj).param("handler", T.Obj).event("signal", "signum", "handler").modifies()
c = S.ext("multiprocessing.util.log_to_stderr", cite="util.log_to_stderr(level): logging configuration, not tracked")
c.param("level", T.Obj, default=NONE).modifies().is_quiet()
for nm in ("sys.stdin.close", "sys.stdout.close"):
    c = S.ext(nm, cite="file.close() of stdin/stdout in the tracker: errors are swallowed by the caller and not modelled; the standard streams are opened with "
              "closefd=False, closing the object leaves descriptors 0 / 1 open")
    c.modifies().is_quiet()
for nm, no in (("sys.stdin.fileno", 0), ("sys.stdout.fileno", 1)):
    c = S.ext(nm, cite="file.fileno() of a standard stream: descriptor 0 / 1")
    c.returns(T.Int).ensures("std", f"result == {no}").modifies().is_quiet()


@_impl("File.readline", cite="file.readline(): the next line (arbitrary bytes), b'' at end of file")
def _readline(eng, st, self_v, args, kwargs, node):
    from pyvc.values import fresh_const
    line = VStr(fresh_const("line", T.StrS), is_bytes=True)
    st.emit("readline", [self_v, line], eng.site(node))
    return [eng.val(st, line)]


# ---- reference step (from the property sentence) --------------------------
def cnt(t, n, pre=False):
    e = f"ite({n} in registry[{t}], registry[{t}][{n}], 0)"
    return f"pre({e})" if pre else e


LINE = "log_arg('readline', 0, 1)"
DEC = f"strip({LINE})"
FIELDS = f"split({DEC}, ':')"
c = M.contract("main", props=["C11", "C12", "C13"])
c.param("fd", T.Int).param("verbose", T.Obj, default=VInt(0))
c.heap_dicts(REG)
c.ensures("main/ignores-sigint-and-sigterm-before-reading",
          "log_count('signal') == 2 and log_arg('signal', 0, 0) is obj(signal.SIGINT) and log_arg('signal', 1, 0) is obj(signal.SIGTERM) and "
          "log_arg('signal', 0, 1) is obj(signal.SIG_IGN) and log_arg('signal', 1, 1) is obj(signal.SIG_IGN) and "
          "log_before('signal', 'open')", prop="C12")
# C12 (every tree shape, daemons included): os.pipe() hands out the lowest free numbers, so when the launcher runs with stdin or stdout closed the request pipe
# *is* descriptor 0 or 1 of the tracker: whatever main() does to its standard streams before reading, the descriptor it was given is still open when it opens it
c.rely("the-request-pipe-is-open-when-the-tracker-starts", "G.fd_open[fd]", "A-fds")
c.at_call("builtins.open", "the-request-pipe-is-still-open-when-the-tracker-starts-reading-it", "G.fd_open[fd]", prop="C12")
c.raises("main/only-a-failing-warning-or-open-escapes", "BaseException")
c.modifies("G.cleanup_folder", "G.cleanup_file", "G.cleanup_semlock", "G.cleanup_seq", "G.fd_open", "G.sig_blocked")
c.assumes("A-warn", "A-kernel")   # inside the request loop a raised warning is caught by the loop's error barrier; the sweep (own contract) does not assume A-warn

i = M.invariant("main", 1, "while True:")
for t in TYPES:
    i.inv(f"counts-positive/{t}", f"forall(Str, lambda n: implies(n in registry['{t}'], registry['{t}'][n] >= 1))", prop="C11")
i.inv("registry-tables-are-distinct", "registry['folder'] is not registry['file'] and registry['folder'] is not registry['semlock'] and registry['file'] is not registry['semlock']", prop="C11")

# parsed request as the oracle reads it (>= 3 fields; name may contain ':')
OK_LINE = f"(decodable({LINE}) and len({FIELDS}) >= 3)"
CMD = f"{FIELDS}[0]"
RTYPE = f"{FIELDS}[-1]"
NAME = f"join(':', {FIELDS}[1:-1])"
KNOWN = f"({RTYPE} in _CLEANUP_FUNCS)"
CNT0 = f"(lambda nm_, rt_: pre(ite(nm_ in registry[rt_], registry[rt_][nm_], 0)))({NAME}, {RTYPE})"
CNT1 = f"ite({NAME} in registry[{RTYPE}], registry[{RTYPE}][{NAME}], 0)"
NOT_EOF = f"{LINE} != b''"
REPORTED = "log_count('excepthook')"
NO_CLEANUP = "log_count('cleanup') == 0"


def others_unchanged(except_name=True):
    parts = []
    for t in TYPES:
        if except_name:
            parts.append(f"forall(Str, lambda n2: implies(not ({RTYPE} == '{t}' and n2 == {NAME}), "
                         f"(n2 in registry['{t}']) == pre(n2 in registry['{t}']) and registry['{t}'][n2] == pre(registry['{t}'][n2])))")
        else:
            parts.append(f"forall(Str, lambda n2: (n2 in registry['{t}']) == pre(n2 in registry['{t}']) and registry['{t}'][n2] == pre(registry['{t}'][n2]))")
    return " and ".join(parts)


i.iter_post("step/PROBE-changes-nothing",
            f"implies({OK_LINE} and {CMD} == 'PROBE', {others_unchanged(False)} and {NO_CLEANUP} and {REPORTED} == 0)", prop="C11")
i.iter_post("step/REGISTER-increments-only-that-count",
            f"implies({OK_LINE} and {CMD} == 'REGISTER' and {KNOWN}, {CNT1} == {CNT0} + 1 and {others_unchanged()} and {NO_CLEANUP} and {REPORTED} == 0)", prop=["C11", "C13"])   # C13: what is registered is what the end-of-life sweep destroys
i.iter_post("step/UNREGISTER-forgets-only-that-name",
            f"implies({OK_LINE} and {CMD} == 'UNREGISTER' and {KNOWN} and {CNT0} > 0, {CNT1} == 0 and {others_unchanged()} and {NO_CLEANUP} and {REPORTED} == 0)", prop="C11")
i.iter_post("step/MAYBE_UNLINK-above-one-only-decrements",
            f"implies({OK_LINE} and {CMD} == 'MAYBE_UNLINK' and {KNOWN} and {CNT0} > 1, {CNT1} == {CNT0} - 1 and {others_unchanged()} and {NO_CLEANUP} and {REPORTED} == 0)", prop="C11")
i.iter_post("step/MAYBE_UNLINK-at-one-destroys-exactly-once",
            f"implies({OK_LINE} and {CMD} == 'MAYBE_UNLINK' and {KNOWN} and {CNT0} == 1, {CNT1} == 0 and {others_unchanged()} and "
            f"log_count('cleanup') == 1 and log_arg('cleanup', 0, 0) == {RTYPE} and log_arg('cleanup', 0, 1) == {NAME} and {REPORTED} == 0)", prop="C11")
i.iter_post("step/invalid-request-is-reported-and-skipped",
            f"implies({NOT_EOF} and not ({OK_LINE} and ({CMD} == 'PROBE' or ({KNOWN} and ({CMD} == 'REGISTER' or "
            f"(({CMD} == 'UNREGISTER' or {CMD} == 'MAYBE_UNLINK') and {CNT0} > 0))))), "
            f"{others_unchanged(False)} and {NO_CLEANUP} and {REPORTED} == 1)", prop="C11")
i.iter_post("step/one-request-per-iteration-and-never-leaves-on-error", "log_count('readline') == 1", prop="C11")
# the tracker stops serving only at end of file (every writer gone): a blank or malformed request is not the end of the stream
i.on_break("left-only-when-readline-returned-the-empty-bytes-of-end-of-file", f"log_count('readline') == 1 and {LINE} == b''", prop=["C11", "C12", "C13"])

# ---- end-of-life sweep ------------------------------------------------------
UR = f"{RT}:main._unlink_resources"
c = S.contract(UR, props=["C11", "C13"])
c.param("rtype_registry", REG).param("rtype", T.Str)
c.free("verbose", T.Obj)
c.requires("known-type", "rtype in _CLEANUP_FUNCS")
c.ensures("sweep/every-registered-name-destroyed-exactly-once",
          "forall(Str, lambda n: implies(n in rtype_registry, cleanups(rtype, n) == old(cleanups(rtype, n)) + 1))")
c.ensures("sweep/nothing-else-destroyed",
          "forall(Str, lambda n: implies(not (n in rtype_registry), cleanups(rtype, n) == old(cleanups(rtype, n)))) and "
          "implies(rtype != 'folder', G.cleanup_folder == old(G.cleanup_folder)) and implies(rtype != 'file', G.cleanup_file == old(G.cleanup_file)) and "
          "implies(rtype != 'semlock', G.cleanup_semlock == old(G.cleanup_semlock))")
c.ensures("sweep/a-failing-cleanup-does-not-stop-the-rest", "True")
c.raises_only("sweep/no-exception")
c.modifies("G.cleanup_folder", "G.cleanup_file", "G.cleanup_semlock", "G.cleanup_seq")
# the tracker is started with the parent's interpreter flags (-W error included): inside the sweep a warning may be raised instead of printed
c.warn_may_raise = True
c.replay_for("sweep/no-exception", "tracker_sweep_w_error")
i2 = S.invariant(UR, 0, "for name in rtype_registry:")
i2.inv("visited-destroyed-once", "forall(Str, lambda n: implies(mem(__seen0, n), cleanups(rtype, n) == old(cleanups(rtype, n)) + 1))")
i2.inv("unvisited-untouched", "forall(Str, lambda n: implies(not mem(__seen0, n), cleanups(rtype, n) == old(cleanups(rtype, n))))")
i2.inv("other-types-untouched", "implies(rtype != 'folder', G.cleanup_folder == old(G.cleanup_folder)) and implies(rtype != 'file', G.cleanup_file == old(G.cleanup_file)) and "
       "implies(rtype != 'semlock', G.cleanup_semlock == old(G.cleanup_semlock))")
i2.iter_post("one-cleanup-of-this-name-per-iteration", "log_count('cleanup') == 1 and log_arg('cleanup', 0, 0) == rtype and log_arg('cleanup', 0, 1) == name")

c = S.contracts[f"{RT}:main"]
CALL = "call:main._unlink_resources"
c.ensures("sweep/every-type-swept-once-folders-last",
          f"tail(count_events('{CALL}', lambda r, reg, t: t == 'file') == 1 and count_events('{CALL}', lambda r, reg, t: t == 'semlock') == 1 and "
          f"count_events('{CALL}', lambda r, reg, t: t == 'folder') == 1 and log_count('{CALL}') == 3 and "
          f"ordered('{CALL}', lambda r, reg, t: t != 'folder', '{CALL}', lambda r, reg, t: t == 'folder'))", prop=["C11", "C13"])
c.at_call(UR, "sweeps-the-table-of-its-type", "arg_rtype_registry is registry[arg_rtype]", prop=["C11", "C13"])
c.ensures("loop/left-only-at-end-of-file", "tail(True) and has_loop()", prop=["C11", "C12", "C13"])

S.contracts[f"{RT}:main"].replay_for("loop1/preserve", "tracker_step")
S.contracts[f"{RT}:main"].replay_for("loop1/iteration/step", "tracker_step", nfields=f"len({FIELDS})", cmd=CMD, rtype=RTYPE, name=NAME,
                                  pre_count=CNT0)


# ======================================================================
# client side: ensure_running / maybe_unlink (C12, C20, C11)
S.ghost("sig_blocked", T.BoolS, "SIGINT/SIGTERM currently blocked in this thread by ensure_running")
S.ghost("tracker_spawns", T.IntS, "number of tracker processes spawned")


@_impl("mp.ResourceTracker._check_alive", cite="multiprocessing.resource_tracker.ResourceTracker._check_alive(): writes a PROBE line; False iff the write fails (tracker dead)")
def _check_alive(eng, st, self_v, args, kwargs, node):
    from pyvc.values import fresh_name
    alive = z3.Bool(fresh_name("tracker_alive"))
    st.assume(z3.Implies(st.ghost_get("tracker_stable"), alive))
    out = []
    for b, s in eng.branch(st, alive):
        s.emit("probe", [self_v, VBool(b)], eng.site(node))
        out.append(eng.val(s, VBool(b)))
    return out


@_impl("mp.ResourceTracker._send", cite="ResourceTracker._send(cmd, name, rtype): one os.write of '<cmd>:<name>:<rtype>\\n' (<= 512 bytes) to the tracker pipe")
def _send(eng, st, self_v, args, kwargs, node):
    st.emit("send", [self_v] + list(args), eng.site(node))
    return [eng.val(st, NONE)]


c = S.ext("multiprocessing.util._args_from_interpreter_flags", cite="util._args_from_interpreter_flags(): command-line flags reproducing the interpreter settings")
c.returns(T.Obj).modifies()
c = S.ext("sys.stderr.fileno", cite="sys.stderr.fileno(): descriptor of stderr; may raise when stderr is not a real file")
c.returns(T.Int).modifies()
c.ensures("stderr/its-descriptor-is-open", "G.fd_open[result]")   # A-fds: a file object that reports a descriptor owns an open one
c.may_raise.append(("Exception", None))


@_impl("signal.pthread_sigmask", cite="signal.pthread_sigmask(how, mask): blocks / unblocks the signals for this thread")
def _sigmask(eng, st, self_v, args, kwargs, node):
    from pyvc.values import VConst
    how = args[0]
    if isinstance(how, VConst) and how.name == "signal.SIG_BLOCK":
        st.ghost_set("sig_blocked", z3.BoolVal(True))
    elif isinstance(how, VConst) and how.name == "signal.SIG_UNBLOCK":
        st.ghost_set("sig_blocked", z3.BoolVal(False))
    st.emit("sigmask", list(args), eng.site(node))
    return [eng.val(st, NONE)]


c = M.contract("spawnv_passfds")
c.param("path", T.Obj).param("args", T.Obj).param("passfds", T.Obj)
c.returns(T.Int)
c.ensures("spawn/counts", "G.tracker_spawns == old(G.tracker_spawns) + 1")
c.raises("spawn/may-fail", "BaseException", post="G.tracker_spawns == old(G.tracker_spawns)")
c.modifies("G.tracker_spawns")
c.trusted_summary = True
c.note("thin wrapper over multiprocessing.util.spawnv_passfds (fork+exec with the given descriptors kept)")

RTC = "ResourceTracker"
c = M.contract(f"{RTC}.ensure_running", props=["C12", "C20", "C13"])
c.param("self", T.Ref(RTC))
c.rely("the-recorded-descriptor-is-open", "implies(not is_none(self._fd), G.fd_open[the(self._fd)] and not is_none(self._pid))", "A-fds")
c.ensures("ensure/alive-tracker-is-left-alone",
          "implies(not is_none(old(self._fd)) and log_count('probe') == 1 and log_arg('probe', 0, 1), "
          "self._fd == old(self._fd) and self._pid == old(self._pid) and G.tracker_spawns == old(G.tracker_spawns) and G.fd_open == old(G.fd_open))", prop="C12")
c.ensures("ensure/dead-or-missing-tracker-is-relaunched",
          "implies(is_none(old(self._fd)) or (log_count('probe') == 1 and not log_arg('probe', 0, 1)), "
          "G.tracker_spawns == old(G.tracker_spawns) + 1 and not is_none(self._fd) and not is_none(self._pid) and "
          "self._fd == log_arg('pipe', 0, 1) and self._pid == log_arg('call:spawnv_passfds', 0, 0))", prop="C12")
c.ensures("ensure/dead-tracker-descriptor-closed-and-reaped-with-a-warning",
          "implies(not is_none(old(self._fd)) and log_count('probe') == 1 and not log_arg('probe', 0, 1), "
          "log_count('warn') == 1 and log_arg('close', 0, 0) == old(the(self._fd)) and log_before('close', 'pipe') is not None and "
          "log_pos('close', 0) < log_pos('warn', 0) and log_count('waitpid') + log_count('waitpid_error') == 1)", prop="C12")
c.ensures("ensure/signals-blocked-around-the-spawn-and-unblocked-after",
          "ite(log_count('call:spawnv_passfds') + log_count('raise:spawnv_passfds') >= 1, not G.sig_blocked, G.sig_blocked == old(G.sig_blocked)) and "
          "implies(log_count('call:spawnv_passfds') == 1, "
          "ordered('sigmask', lambda how, m: how is obj(signal.SIG_BLOCK), 'call:spawnv_passfds', lambda *a: True) and "
          "exists_event('sigmask', lambda how, m: how is obj(signal.SIG_BLOCK)) and "
          "ordered('call:spawnv_passfds', lambda *a: True, 'sigmask', lambda how, m: how is obj(signal.SIG_UNBLOCK)))", prop="C12")
c.ensures("ensure/read-end-closed-in-the-parent-write-end-kept",
          "implies(log_count('pipe') == 1, not G.fd_open[log_arg('pipe', 0, 0)] and G.fd_open[log_arg('pipe', 0, 1)])", prop=["C12", "C20"])
# the tracker ends its life on end-of-file of the request pipe: it must not hold a write end itself (it would wait for itself for ever)
c.at_call(f"{RT}:spawnv_passfds", "the-write-end-of-the-request-pipe-is-not-handed-to-the-tracker", "not (log_arg('pipe', 0, 1) in arg_passfds)", prop="C12")
c.ensures("ensure/under-the-tracker-lock", "log_arg('acquire', 0, 0) is self._lock and log_pos('acquire', 0) == 0 and log_tags()[-1] == 'release'", prop=["C12", "C13"])
NEWFD = "forall(Int, lambda fd: implies(G.fd_open[fd] and not old(G.fd_open[fd]), not is_none(self._fd) and fd == the(self._fd)))"
c.ensures("ensure/only-the-new-write-end-stays-open", NEWFD, prop="C20")
c.ensures("ensure/closes-nothing-but-a-dead-trackers-descriptor",
          "forall(Int, lambda fd: implies(old(G.fd_open[fd]) and not G.fd_open[fd], not is_none(old(self._fd)) and fd == old(the(self._fd)) and "
          "log_count('probe') == 1 and not log_arg('probe', 0, 1)))", prop="C20")
c.ensures("ensure/a-living-tracker-is-kept", "implies(G.tracker_stable and not is_none(old(self._fd)), self._fd == old(self._fd) and self._pid == old(self._pid) "
          "and G.fd_open == old(G.fd_open) and G.tracker_spawns == old(G.tracker_spawns))", prop="C12")
c.ensures("ensure/stable-tracker-means-no-descriptor-closed", "implies(G.tracker_stable, forall(Int, lambda fd: implies(old(G.fd_open[fd]), G.fd_open[fd])))", prop="C20")
c.raises("ensure/a-failed-spawn-leaks-nothing-and-unblocks-signals-and-a-stderr-without-a-descriptor-never-prevents-the-launch", "BaseException",
         post="ite(log_count('raise:spawnv_passfds') >= 1, not G.sig_blocked, G.sig_blocked == old(G.sig_blocked)) and "
              "forall(Int, lambda fd: implies(G.fd_open[fd], old(G.fd_open[fd]))) and log_tags()[-1] == 'release' and "
              "implies(G.tracker_stable, forall(Int, lambda fd: implies(old(G.fd_open[fd]), G.fd_open[fd]))) and "
              "implies(G.tracker_stable and not is_none(old(self._fd)), self._fd == old(self._fd)) and "
              "implies(not is_none(self._fd), G.fd_open[the(self._fd)] and not is_none(self._pid)) and "
              # self-healing must not depend on what sys.stderr happens to be (captured, closed, replaced): a stderr without a descriptor is not passed,
              # never a reason to fail (one clause: several `raises` of one class would be separate outcomes at the call sites)
              "implies(log_count('raise:sys.stderr.fileno') == 1, log_arg('raise:sys.stderr.fileno', 0, 0) is not exc)", prop=["C12", "C20"])
REP = "implies(not is_none(self._fd), G.fd_open[the(self._fd)] and not is_none(self._pid))"
c.ensures("ensure/recorded-descriptor-is-open-on-return", REP, prop=["C12", "C20"])   # on exceptional exits: last conjunct of the raises clause below
c.modifies("self._fd", "self._pid", "G.fd_open", "G.sig_blocked", "G.tracker_spawns", "G.pid_live", "G.joined")
c.assumes("A-warn", "A-kernel")
c.cover("relaunch", "not is_none(old(self._fd)) and log_count('probe') == 1 and not log_arg('probe', 0, 1)")
c.twin("ensure/alive-tracker-is-left-alone", "G.tracker_spawns == old(G.tracker_spawns)")

c = M.contract(f"{RTC}.maybe_unlink", props=["C11"])
c.param("self", T.Ref(RTC)).param("name", T.Obj).param("rtype", T.Obj)
c.ensures("client/ensures-the-tracker-then-sends-one-MAYBE_UNLINK",
          "log_count('call:ResourceTracker.ensure_running') == 1 and log_count('send') == 1 and "
          "log_before('call:ResourceTracker.ensure_running', 'send') and log_arg('send', 0, 1) == 'MAYBE_UNLINK' and "
          "log_arg('send', 0, 2) is name and log_arg('send', 0, 3) is rtype and log_arg('send', 0, 0) is self")
c.raises("client/tracker-start-may-fail", "BaseException")
c.modifies("self._fd", "self._pid", "G.fd_open", "G.sig_blocked", "G.tracker_spawns", "G.pid_live", "G.joined")
