"""Contracts for the map() machinery of loky/process_executor.py (C03 part A: map(fn, *its, chunksize=c) == list(map(fn, *its)))."""
import z3
from pyvc.spec import SCHEMA as S, Module
from pyvc import types as T
from pyvc.values import VBool, NONE, VInt, VStr, VSeq, VRef
from pyvc.state import QHyp

M = Module("loky.process_executor")
PE = "loky.process_executor"
SEQ = z3.SeqSort(T.IntS)
LST = T.Lst(T.Obj)

S.assumption("A-iter", "an iterator is a finite sequence of items consumed from the front (zip(*iterables) runs over py_zip(iterables); the results iterator handed to "
                       "_chain_from_iterable_of_lists is the sequence of lists it will produce); infinite or failing iterables are outside the claim")


# ---- spec vocabulary over sequences of object ids -------------------------------------------------
def _seqterm(eng, st, v):
    if isinstance(v, VSeq):
        return v.t
    if isinstance(v, VRef) and isinstance(v.T, T.Lst):
        return st.lst_get(v)
    raise Exception(f"not a sequence: {v!r}")


S.spec_funcs["subseq"] = lambda eng, st, s, a, n: VSeq(z3.SubSeq(_seqterm(eng, st, s), a.t, n.t), T.Obj)
S.spec_funcs["cat"] = lambda eng, st, a, b: VSeq(z3.Concat(_seqterm(eng, st, a), _seqterm(eng, st, b)), T.Obj)
S.spec_funcs["gen_items"] = lambda eng, st: VSeq(st.ghost_get("gen_items"), T.Obj)
S.spec_funcs["gen_flat"] = lambda eng, st: VSeq(st.ghost_get("gen_flat"), T.Obj)
S.spec_funcs["zipped"] = lambda eng, st, it: VSeq(z3.Select(st.ghost_get("it_seq"), it.t), T.Obj)
S.spec_funcs["consumed"] = lambda eng, st, it: VInt(z3.Select(st.ghost_get("it_pos"), it.t))

_FLAT = z3.Function("flat_prefix", z3.ArraySort(T.IntS, SEQ), SEQ, T.IntS, SEQ)


def _flatpre(eng, st, lists, n):
    """Concatenation of the contents (in the state where this is evaluated) of the first n lists of `lists`: the left fold that *defines* flattening:
    flat_prefix(A, L, 0) = [] and flat_prefix(A, L, k+1) = flat_prefix(A, L, k) ++ A[L[k]]."""
    items = st.lst_arrays(LST)
    A = items[0] if isinstance(items, (tuple, list)) else items
    L = lists.t
    st.assume(_FLAT(A, L, z3.IntVal(0)) == z3.Empty(SEQ))
    st.qhyps.append(QHyp(T.IntS, lambda k, A=A, L=L: z3.Implies(k >= 0, _FLAT(A, L, k + 1) == z3.Concat(_FLAT(A, L, k), z3.Select(A, L[k]))),
                         "flat-prefix-unfold"))
    return VSeq(_FLAT(A, L, n.t), T.Obj)


S.spec_funcs["flatpre"] = _flatpre


def _reversed_of(eng, st, s):
    """The sequence list.reverse() leaves behind (same uninterpreted function and pointwise axiom as the engine's model of list.reverse)."""
    t = _seqterm(eng, st, s)
    f = z3.Function(f"seq_rev_{t.sort().name()}", t.sort(), t.sort())
    r = f(t)
    st.assume(z3.Length(r) == z3.Length(t))
    st.qhyps.append(QHyp(T.IntS, lambda k, r=r, t=t: z3.Implies(z3.And(k >= 0, k < z3.Length(t)), r[k] == t[z3.Length(t) - 1 - k]), "reverse-pointwise"))
    return VSeq(r, T.Obj)


S.spec_funcs["reversed_of"] = _reversed_of

# ---- _get_chunks: the chunks, concatenated, are the zipped argument tuples; every chunk has 1..chunksize items -------------------
c = M.contract("_get_chunks", props=["C03"])
c.param("chunksize", T.Int).varargs("iterables")
c.is_generator("chunks")
c.requires("positive-chunk-size", "chunksize >= 1")
Z = "zipped(log_arg('new_iterator', 0, 0))"
c.ensures("chunks/concatenated-they-are-exactly-the-zipped-arguments-in-order",
          "log_count('new_iterator') == 1 and gen_flat() == cat(old(gen_flat()), " + Z + ")")
c.raises_only("chunks/no-exception")
c.modifies("G.gen_flat", "G.gen_n", "G.it_seq", "G.it_pos")
c.assumes("A-iter")
i = M.invariant("_get_chunks", 0, "while True:")
i.inv("yielded-so-far-is-the-consumed-prefix",
      "consumed(it) >= 0 and consumed(it) <= len(zipped(it)) and gen_flat() == cat(old(gen_flat()), subseq(zipped(it), 0, consumed(it))) and "
      "zipped(it) == at_entry(zipped(it))")
i.iter_post("every-chunk-has-between-one-and-chunksize-items-and-only-the-last-may-be-short",
            "log_count('yield') <= 1 and implies(log_count('yield') == 1, len(log_arg('yield', 0, 0)) >= 1 and len(log_arg('yield', 0, 0)) <= chunksize and "
            "(len(log_arg('yield', 0, 0)) == chunksize or consumed(it) == len(zipped(it))))")

# ---- not under contract (DESIGN.md section 10.2): _process_chunk ([fn(*args) for args in chunk]: the obligation is an equality of two seq.map terms that
# no installed solver decides), _chain_from_iterable_of_lists (reverse/pop flattening: invariants over flat_prefix / reversed_of were written and the
# obligations generated from the real loops, but z3 5.1, z3 4.8 and cvc5 all time out on them, 40 s each) and ProcessPoolExecutor.map itself (composition
# of generators through concurrent.futures.Executor.map). The spec vocabulary above (flatpre, reversed_of) is kept for a later attempt.
