"""Contracts for loky/backend/queues.py."""
import z3
from pyvc.spec import SCHEMA as S, Module
from pyvc import types as T
from pyvc.values import VBool, NONE, VRef, VInt
from specs.externals import _impl

M = Module("loky.backend.queues")
Q = "loky.backend.queues"

# base classes from multiprocessing (trusted)
S.cls("mp.Queue", {
    "_maxsize": T.Int, "_reader": T.Ref("Connection"), "_writer": T.Ref("Connection"),
    "_rlock": T.Ref("MPLock"), "_wlock": T.Ref("MPLock", nullable=True), "_sem": T.Ref("MPLock"),
    "_opid": T.Int, "_ignore_epipe": T.Bool, "_buffer": T.Obj, "_notempty": T.Obj, "_thread": T.Obj,
    "_joincancelled": T.Bool, "_jointhread": T.Obj, "_close": T.Obj, "_send_bytes": T.Obj,
}, external=True)
S.cls("mp.SimpleQueue", {
    "_reader": T.Ref("Connection"), "_writer": T.Ref("Connection"),
    "_rlock": T.Ref("MPLock"), "_wlock": T.Ref("MPLock", nullable=True),
}, external=True)

M.cls("Queue", {"_reducers": T.Obj}, bases=["mp.Queue"])
M.cls("SimpleQueue", {"_reducers": T.Obj}, bases=["mp.SimpleQueue"])

c = S.ext("mp.Queue.__init__", cite="multiprocessing.queues.Queue.__init__(maxsize, ctx=): creates the pipe, locks and the bounded semaphore")
c.param("self", T.Ref("mp.Queue")).param("maxsize", T.Int, default=VInt(0)).param("ctx", T.Obj, default=NONE)
c.ensures("maxsize", "self._maxsize == maxsize")
c.modifies("self._maxsize", "self._reader", "self._writer", "self._rlock", "self._wlock", "self._sem", "self._opid",
           "self._ignore_epipe", "self._buffer", "self._notempty", "self._thread", "self._joincancelled", "self._jointhread",
           "self._close", "self._send_bytes")
c = S.ext("mp.SimpleQueue.__init__", cite="multiprocessing.queues.SimpleQueue.__init__(ctx=)")
c.param("self", T.Ref("mp.SimpleQueue")).param("ctx", T.Obj, default=NONE)
c.modifies("self._reader", "self._writer", "self._rlock", "self._wlock")

c = S.ext("mp.Queue.full", cite="Queue.full(): whether the bounded semaphore is exhausted")
c.param("self", T.Ref("mp.Queue")).returns(T.Bool).event("cq_full", "self", "result").modifies()
c = S.ext("mp.Queue.close", cite="Queue.close(): no more data from this process; flushes through the feeder thread")
c.param("self", T.Ref("mp.Queue")).event("cq_close", "self").modifies()
c = S.ext("mp.Queue.join_thread", cite="Queue.join_thread(): runs the join finalizer of the feeder thread when there is one; in the process that created the queue "
          "(the executor's parent) there is none and the call returns at once: the feeder thread ends by itself once it has read the close sentinel")
c.param("self", T.Ref("mp.Queue")).event("cq_join_thread", "self").modifies()


@_impl("mp.Queue.put", cite="Queue.put(obj, block=True, timeout=None): queue.Full only when non-blocking/timed and no free slot; the object is handed to the feeder thread")
def _q_put(eng, st, self_v, args, kwargs, node):
    obj = args[0]
    block = args[1] if len(args) > 1 else kwargs.get("block", VBool(True))
    timeout = args[2] if len(args) > 2 else kwargs.get("timeout", NONE)
    may_full = z3.Or(z3.Not(eng.truth(block, st)), z3.BoolVal(not isinstance(timeout, type(NONE))))
    out = []
    if eng.feasible(st, may_full):
        s2 = st.clone()
        s2.assume(may_full)
        s2.emit("cq_put_full", [self_v, obj], eng.site(node))
        out.append(eng.raise_new(s2, "queue.Full"))
    st.emit("cq_put", [self_v, obj], eng.site(node))
    if isinstance(obj, type(NONE)):
        g = st.ghost_get("n_sentinels")
        st.ghost_set("n_sentinels", g + 1)
    out.append(eng.val(st, NONE))
    return out


@_impl("mp.Queue.put_nowait", cite="Queue.put_nowait(obj) == put(obj, False)")
def _q_put_nowait(eng, st, self_v, args, kwargs, node):
    return _q_put(eng, st, self_v, [args[0], VBool(False)], {}, node)


S.cls("_CallItem_placeholder", {}, external=True)


@_impl("mp.Queue.get", cite="Queue.get(block=True, timeout=None): next object (unpickled: a new object) or None sentinel; queue.Empty only when non-blocking/timed; unpickling may raise anything")
def _q_get(eng, st, self_v, args, kwargs, node):
    block = args[0] if args else kwargs.get("block", VBool(True))
    timeout = args[1] if len(args) > 1 else kwargs.get("timeout", NONE)
    may_empty = z3.Or(z3.Not(eng.truth(block, st)), z3.BoolVal(not isinstance(timeout, type(NONE))))
    out = []
    if eng.feasible(st, may_empty):
        s = st.clone()
        s.assume(may_empty)
        s.emit("cq_get_empty", [self_v], eng.site(node))
        s.notes.append(f"get@{eng.site(node)}:Empty")
        out.append(eng.raise_new(s, "queue.Empty"))
    # unpickling failure: any exception class
    s = st.clone()
    e = s.new_obj("<exc>")
    ct = __import__("pyvc.values", fromlist=["fresh_const"]).fresh_const("exccls", T.IntS)
    s.assume(S.exc_valid(ct, "BaseException"))
    s.assume(z3.Not(S.exc_isinstance(ct, "queue.Empty")))     # Empty is the separate outcome above
    s.write_field(e, "cls", VInt(ct))
    s.emit("cq_get_raises", [self_v, e], eng.site(node))
    s.notes.append(f"get@{eng.site(node)}:raises")
    out.append(("exc", s, e))
    # sentinel
    s = st.clone()
    s.emit("cq_get", [self_v, NONE], eng.site(node))
    s.notes.append(f"get@{eng.site(node)}:None")
    out.append(eng.val(s, NONE))
    # a call item
    item = st.new_obj("_CallItem")
    st.emit("cq_get", [self_v, item], eng.site(node))
    st.notes.append(f"get@{eng.site(node)}:item")
    out.append(eng.val(st, item))
    return out


# ---------------------------------------------------------------- SimpleQueue.put (loky code)
c = M.contract("SimpleQueue.put", props=["C04", "C15"])
c.param("self", T.Ref("SimpleQueue")).param("obj", T.Obj)
c.raises("put/may-fail-on-pickling-or-pipe", "BaseException")
c.modifies()
c.trusted_summary = True

c = M.contract("SimpleQueue.close", props=["C20", "C05"])
c.param("self", T.Ref("SimpleQueue"))
c.ensures("close/both-ends", "log_count('conn_close') == 2 and log_arg('conn_close', 0, 0) is self._reader and log_arg('conn_close', 1, 0) is self._writer")
c.raises_only("close/no-exception")
c.modifies()

c = M.contract("Queue._on_queue_feeder_error", props=["C04"])
c.param("self", T.Ref("Queue")).param("e", T.Obj).param("obj", T.Obj)
c.modifies()


# ======================================================================
# SimpleQueue.put and the feeder thread: which reducers are used (C15), the error path (C04)
S.contracts[f"{Q}:SimpleQueue.put"].trusted_summary = False
c = S.contracts[f"{Q}:SimpleQueue.put"]
c.at_call("loky.backend.reduction:dumps", "serialises-with-the-queues-own-reducers", "arg_reducers is self._reducers and arg_obj is obj", prop="C15")
c.ensures("put/one-message-under-the-write-lock",
          "log_count('send_bytes') == 1 and log_arg('send_bytes', 0, 0) is self._writer and log_arg('send_bytes', 0, 1) is log_arg('call:dumps', 0, 0) and "
          "implies(self._wlock is not None, log_tags() == ['call:dumps', 'acquire', 'send_bytes', 'release'] and log_arg('acquire', 0, 0) is self._wlock)")
c.ensures("put/write-lock-free-afterwards", "implies(self._wlock is not None, not held(self._wlock))")
c.exsures_[:] = []
c.raises("put/fails-only-in-pickling-or-sending-with-the-lock-released", "BaseException",
         post="implies(self._wlock is not None, not held(self._wlock)) and (log_count('raise:dumps') == 1 or log_count('raise:Connection.send_bytes') == 1)")

S.cls("threading.Condition", {}, external=True)
for nm in ("acquire", "release", "wait"):
    cc = S.ext(f"threading.Condition.{nm}", cite=f"threading.Condition.{nm}()")
    cc.param("self", T.Ref("threading.Condition")).event(f"cond_{nm}", "self").modifies()
S.cls("deque", {}, external=True, truthy=lambda eng, v, st: z3.Bool(__import__("pyvc.values", fromlist=["fresh_name"]).fresh_name("deque_nonempty")))


@_impl("deque.popleft", cite="collections.deque.popleft(): next buffered object, IndexError when empty")
def _popleft(eng, st, self_v, args, kwargs, node):
    from pyvc.values import VObj, fresh_const
    out = []
    s = st.clone()
    s.emit("popleft_empty", [self_v], eng.site(node))
    out.append(eng.raise_new(s, "IndexError"))
    o = VObj(fresh_const("queued", T.IntS))
    st.emit("popleft", [self_v, o], eng.site(node))
    out.append(eng.val(st, o))
    return out


c = S.ext("multiprocessing.util.is_exiting", cite="util.is_exiting(): whether the interpreter is shutting down")
c.returns(T.Bool).event("is_exiting", "result").modifies()
S.ext_consts["multiprocessing.queues._sentinel"] = __import__("pyvc.values", fromlist=["VConst"]).VConst("multiprocessing.queues._sentinel")

c = M.contract("Queue._feed", props=["C04", "C15", "C08"])   # C08: every slot of the call queue lost by the error path is a task that can no longer be handed to an idle worker
c.param("buffer", T.Ref("deque")).param("notempty", T.Ref("threading.Condition")).param("send_bytes", T.FnT)
c.param("writelock", T.Ref("MPLock")).param("close", T.FnT).param("reducers", T.Obj).param("ignore_epipe", T.Bool)
c.param("onerror", T.FnT).param("queue_sem", T.Ref("MPLock"))
c.requires("callables-given", "send_bytes is not None and close is not None and onerror is not None and writelock is not queue_sem and "
           "close is not onerror and send_bytes is not onerror and close is not send_bytes")
c.at_call("loky.backend.reduction:dumps", "serialises-with-the-reducers-it-was-given", "arg_reducers is reducers", prop="C15")
# C04: a task that cannot be pickled fails its own future, whatever the exception: the feeder thread may end silently on a broken pipe *of the send* (the
# readers are gone) but never because pickling the object raised something that looks like one (errno == EPIPE); only an exiting interpreter excuses it
c.ensures("feed/a-pickling-error-never-ends-the-feeder-silently",
          "tail(implies(log_count('raise:dumps') >= 1, exists_event('is_exiting', lambda r: r)))", prop="C04")
c.replay_for("feed/a-pickling-error-never-ends-the-feeder-silently", "feeder_swallows", exc="'EPIPE'")
c.raises("feed/only-what-the-error-callback-raises", "BaseException")
c.replay_for("error-path", "feeder_swallows")
c.modifies("G.sem_released")
c.assumes("A-user")
io = M.invariant("Queue._feed", 0, "while True:")
io.inv("write-lock-free-at-loop-head", "not held(writelock)")
io.inv("descriptor-marks-untouched", "G.fd_inheritable == old(G.fd_inheritable) and seq(as_(G.spawning_popen, 'Popen')._fds) == old(seq(as_(G.spawning_popen, 'Popen')._fds))")
SENT_OBJ = "log_arg('popleft', -1, 1)"
io.iter_post("error-path/slot-released-once-then-callback-with-the-faulty-object",
             "tail(implies(count_events('user_call', lambda f: f is onerror) >= 1, "
             "count_events('user_call', lambda f: f is onerror) == 1 and count_events('release', lambda l: l is queue_sem) == 1 and "
             "ordered('release', lambda l: l is queue_sem, 'user_call', lambda f: f is onerror) and "
             "implies(log_count('popleft') == 1, exists_event('user_call', lambda f, e, o: f is onerror and o is log_arg('popleft', 0, 1)))))", prop=["C04", "C08"])
io.iter_post("error-path/a-failed-send-is-always-reported",
             "tail(implies((log_count('raise:dumps') == 1 or count_events('user_raise', lambda f, e: f is send_bytes) == 1), "
             "count_events('user_call', lambda f: f is onerror) == 1))", prop="C04")
io.iter_post("error-path/write-lock-released", "not held(writelock)", prop="C04")
ii = M.invariant("Queue._feed", 1, "while True:")
ii.inv("write-lock-free-between-objects", "not held(writelock)")
ii.inv("not-marked-as-sending-between-objects", "not local_or('sending', False)")
ii.inv("descriptor-marks-untouched", "G.fd_inheritable == old(G.fd_inheritable) and seq(as_(G.spawning_popen, 'Popen')._fds) == old(seq(as_(G.spawning_popen, 'Popen')._fds))")
ii.iter_post("one-object-one-pickle-one-send",
             "log_count('popleft') == 1 and log_count('call:dumps') == 1 and log_arg('call:dumps', 0, 1) is log_arg('popleft', 0, 1) and "
             "count_events('user_call', lambda f: f is send_bytes) == 1 and "
             "ordered('acquire', lambda l: l is writelock, 'user_call', lambda f: f is send_bytes) and "
             "ordered('user_call', lambda f: f is send_bytes, 'release', lambda l: l is writelock)", prop=["C04", "C15"])


# ---- reducers travel with the queue (C15)
c = M.contract("Queue.__init__", props=["C15"])
c.param("self", T.Ref("Queue")).param("maxsize", T.Int, default=VInt(0)).param("reducers", T.Obj, default=NONE).param("ctx", T.Obj, default=NONE)
c.ensures("queue/keeps-its-reducers-and-size", "self._reducers is reducers and self._maxsize == maxsize")
c.raises_only("queue/no-exception")
c.modifies("self._reducers", "self._maxsize", "self._reader", "self._writer", "self._rlock", "self._wlock", "self._sem", "self._opid",
           "self._ignore_epipe", "self._buffer", "self._notempty", "self._thread", "self._joincancelled", "self._jointhread",
           "self._close", "self._send_bytes")

c = M.contract("SimpleQueue.__init__", props=["C15"])
c.param("self", T.Ref("SimpleQueue")).param("reducers", T.Obj, default=NONE).param("ctx", T.Obj, default=NONE)
c.ensures("queue/keeps-its-reducers", "self._reducers is reducers")
c.raises_only("queue/no-exception")
c.modifies("self._reducers", "self._reader", "self._writer", "self._rlock", "self._wlock")

c = S.ext("multiprocessing.context.assert_spawning", cite="assert_spawning(obj): RuntimeError unless a process is being spawned")
c.param("obj", T.Obj).modifies()
c.may_raise.append(("RuntimeError", None))

c = M.contract("Queue.__getstate__", props=["C15"])
c.param("self", T.Ref("Queue"))
c.ensures("pickle/state-carries-the-reducers", "len(result) == 9 and result[4] is self._reducers and result[2] is self._reader and result[3] is self._writer and "
          "result[1] == self._maxsize and result[0] == self._ignore_epipe")
c.raises("pickle/only-outside-spawning", "RuntimeError")
c.raises_only("pickle/only-runtime-error")
c.modifies()

c = M.contract("SimpleQueue.__getstate__", props=["C15"])
c.param("self", T.Ref("SimpleQueue"))
c.ensures("pickle/state-carries-the-reducers", "len(result) == 5 and result[2] is self._reducers and result[0] is self._reader and result[1] is self._writer")
c.raises("pickle/only-outside-spawning", "RuntimeError")
c.raises_only("pickle/only-runtime-error")
c.modifies()

c = M.contract("SimpleQueue.__setstate__", props=["C15"])
c.param("self", T.Ref("SimpleQueue")).param("state", T.Tup(T.Ref("Connection"), T.Ref("Connection"), T.Obj, T.Ref("MPLock"), T.Ref("MPLock", nullable=True)))
c.ensures("unpickle/reducers-restored", "self._reducers is state[2] and self._reader is state[0] and self._writer is state[1] and self._wlock is state[4]")
c.raises_only("unpickle/no-exception")
c.modifies("self._reader", "self._writer", "self._reducers", "self._rlock", "self._wlock")

c = S.ext("mp.Queue._reset", cite="multiprocessing.queues.Queue._reset(): re-creates the process-local parts (buffer, condition, thread slots)")
c.param("self", T.Ref("mp.Queue")).param("after_fork", T.Obj, default=NONE)
c.modifies("self._buffer", "self._notempty", "self._thread", "self._jointhread", "self._joincancelled", "self._close", "self._send_bytes")
c = M.contract("Queue.__setstate__", props=["C15"])
c.param("self", T.Ref("Queue")).param("state", T.Tup(T.Bool, T.Int, T.Ref("Connection"), T.Ref("Connection"), T.Obj, T.Ref("MPLock"),
                                                     T.Ref("MPLock", nullable=True), T.Ref("MPLock"), T.Int))
c.ensures("unpickle/reducers-restored", "self._reducers is state[4] and self._reader is state[2] and self._writer is state[3] and self._maxsize == state[1]")
c.raises_only("unpickle/no-exception")
c.modifies("self._ignore_epipe", "self._maxsize", "self._reader", "self._writer", "self._reducers", "self._rlock", "self._wlock", "self._sem", "self._opid",
           "self._buffer", "self._notempty", "self._thread", "self._jointhread", "self._joincancelled", "self._close", "self._send_bytes")
