"""Contracts for loky/initializers.py (C18)."""
from pyvc.spec import SCHEMA as S, Module
from pyvc import types as T

M = Module("loky.initializers")

c = M.contract("_prepare_initializer", props=["C18"])
c.param("initializer", T.Obj).param("initargs", T.Obj)
c.returns(T.Tup(T.Obj, T.Obj))
c.raises("prepare/non-callable-rejected", "TypeError", when="initializer is not None and not callable_(initializer)")
c.modifies()
c.trusted_summary = True
c.note("summary used by ProcessPoolExecutor.__init__; the chaining helpers are verified separately")
