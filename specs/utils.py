"""Contracts for loky/backend/utils.py (kill trees, exit codes; C02, C06)."""
import z3
from pyvc.spec import SCHEMA as S, Module
from pyvc import types as T
from pyvc.values import VBool, NONE, VModule, VInt, VStr
from specs.externals import _impl

M = Module("loky.backend.utils")
UT = "loky.backend.utils"
M.glob("psutil", T.Union(T.NoneT, VModule("psutil")), doc="the psutil module, or None when it cannot be imported (configuration)")

S.ghost("ps_killed", z3.ArraySort(T.IntS, T.BoolS), "psutil process handles on which kill() was called")
S.cls("psutil.Process", {"pid": T.Int}, external=True)

# psutil handle of a pid: NoSuchProcess means the pid is gone, i.e. that child has been reaped already
c = S.contracts["psutil.Process"]
c.spec_module = "loky.backend.utils"
c.params[:] = [("pid", T.Opt(T.Int), True, NONE)]
c.ensures("handle-of-pid", "implies(not is_none(pid), result.pid == the(pid))")
c.ensures("no-effect-when-found", "G.killed == old(G.killed) and G.joined == old(G.joined)")
c.exsures_.append(("gone", "psutil.NoSuchProcess", "not is_none(pid) and the(pid) != os.getpid()",
                   "G.killed[the(pid)] and G.joined[G.proc_of_pid[the(pid)]] and forall(Int, lambda k: implies(old(G.killed[k]), G.killed[k])) and "
                   "forall(Ref('Process'), lambda q: implies(old(G.joined[q]), G.joined[q]))", None))
c.modifies_ = ["G.killed", "G.joined"]
c = S.ext("psutil.Process.children", cite="psutil.Process.children(recursive=True): all descendants, parents before children")
c.param("self", T.Ref("psutil.Process")).param("recursive", T.Bool, default=VBool(False)).returns(T.Seq(T.Ref("psutil.Process"))).modifies("G.killed", "G.joined")
c.ensures("no-effect-when-found", "G.killed == old(G.killed) and G.joined == old(G.joined)")
c.exsures_.append(("gone", "psutil.NoSuchProcess", None,
                   "G.killed[self.pid] and G.joined[G.proc_of_pid[self.pid]] and forall(Int, lambda k: implies(old(G.killed[k]), G.killed[k])) and "
                   "forall(Ref('Process'), lambda q: implies(old(G.joined[q]), G.joined[q]))", None))
c.spec_module = "loky.backend.utils"


@_impl("psutil.Process.kill", cite="psutil.Process.kill(): SIGKILL; NoSuchProcess when already gone")
def _ps_kill(eng, st, self_v, args, kwargs, node):
    out = []
    s = st.clone()
    pid, _ = s.read_field(self_v, "pid")
    s.ghost_set("ps_killed", z3.Store(s.ghost_get("ps_killed"), self_v.t, z3.BoolVal(True)))
    s.ghost_set("killed", z3.Store(s.ghost_get("killed"), pid.t, z3.BoolVal(True)))
    s.emit("ps_kill_gone", [self_v], eng.site(node))
    out.append(eng.raise_new(s, "psutil.NoSuchProcess"))
    pid, _ = st.read_field(self_v, "pid")
    st.ghost_set("ps_killed", z3.Store(st.ghost_get("ps_killed"), self_v.t, z3.BoolVal(True)))
    st.ghost_set("killed", z3.Store(st.ghost_get("killed"), pid.t, z3.BoolVal(True)))
    st.emit("ps_kill", [self_v], eng.site(node))
    out.append(eng.val(st, NONE))
    return out


c = S.ext("os.kill", cite="os.kill(pid, sig): OSError(ESRCH) when the process does not exist")
c.param("pid", T.Int).param("sig", T.Obj).event("os_kill", "pid", "sig").modifies("G.killed")
# only SIGKILL cannot be caught, blocked or ignored: any other signal may leave the process running
KILLED_BY = "G.killed[pid] == (old(G.killed[pid]) or sig is obj(signal.SIGKILL)) and forall(Int, lambda q: implies(q != pid, G.killed[q] == old(G.killed[q])))"
c.ensures("marks", KILLED_BY)
c.raises("may-fail", "OSError", post=KILLED_BY)
c.trusted = True
S.ext_consts["signal.SIGKILL"] = __import__("pyvc.values", fromlist=["VConst"]).VConst("signal.SIGKILL")
S.ext_consts["signal.SIGTERM"] = __import__("pyvc.values", fromlist=["VConst"]).VConst("signal.SIGTERM")
S.ext_consts["errno.ESRCH"] = VInt(3)
S.ext_consts["errno.EPIPE"] = VInt(32)
c = S.ext("subprocess.check_output", cite="subprocess.check_output(cmd, ...): stdout text, CalledProcessError on non-zero exit, OSError when the tool is missing")
c.param("cmd", T.Obj).kwargs("kw").returns(T.Str).modifies()
c.may_raise.append(("Exception", None))

KILLED_REAPED = "G.killed[process.pid] and G.joined[process]"
OTHERS = "forall(Ref('Process'), lambda q: implies(old(G.joined[q]), G.joined[q])) and forall(Int, lambda k: implies(old(G.killed[k]), G.killed[k]))"

c = M.contract("kill_process_tree", props=["C02", "C06", "C20"])
c.param("process", T.Ref("Process")).param("use_psutil", T.Bool, default=VBool(True))
c.touch("psutil")
c.ensures("kill/root-killed-and-reaped", KILLED_REAPED)
c.ensures("kill/monotone", OTHERS)
c.ensures("kill/psutil-branch-iff-available",
          "ite(use_psutil and psutil is not None, log_count('call:_kill_process_tree_with_psutil') == 1 and log_count('call:_kill_process_tree_without_psutil') == 0, "
          "log_count('call:_kill_process_tree_with_psutil') == 0 and log_count('call:_kill_process_tree_without_psutil') == 1)", prop="C06")
c.raises("kill/lookup-error-tolerated", "ProcessLookupError", post="G.killed[process.pid] and G.joined[process] and " + OTHERS)
c.raises_only("kill/only-lookup-error")
c.modifies("G.killed", "G.joined", "G.ps_killed", "G.killed", "G.pid_live")

c = M.contract("_kill_process_tree_with_psutil", props=["C02", "C06", "C20"])
c.param("process", T.Ref("Process"))
c.touch("psutil")
c.requires("psutil-available", "psutil is not None")
c.rely("pid-names-this-child", "G.proc_of_pid[process.pid] is process", "A-pids")
c.ensures("kill-tree/root-killed-and-reaped", KILLED_REAPED)
c.ensures("kill-tree/monotone", OTHERS)
c.ensures("kill-tree/descendants-before-root",
          "implies(has_loop(), tail(log_count('join') == 1 and log_arg('join', 0, 0) is process))")
c.raises_only("kill-tree/no-exception")
c.modifies("G.killed", "G.joined", "G.ps_killed", "G.pid_live")
c.assumes("A-kernel")
i = M.invariant("_kill_process_tree_with_psutil", 0, "for descendant in descendants[::-1]:")
i.inv("kills-only-grow", "forall(Int, lambda k: implies(old(G.killed[k]), G.killed[k]))")
i.inv("reaped-only-grow", "forall(Ref('Process'), lambda q: implies(old(G.joined[q]), G.joined[q]))")
i.iter_post("every-listed-descendant-gets-a-kill", "log_count('ps_kill') + log_count('ps_kill_gone') == 1")
c.note("the early return on NoSuchProcess at listing means the pid is already reaped (trusted); order among descendants is abstracted")

c = M.contract("_kill_process_tree_without_psutil", props=["C02", "C06", "C20"])
c.param("process", T.Ref("Process"))
c.ensures("kill-tree/root-killed-and-reaped", KILLED_REAPED)
c.ensures("kill-tree/monotone", OTHERS)
c.ensures("kill-tree/joined-last", "log_tags()[-1] == 'join' and log_arg('join', -1, 0) is process")
c.ensures("kill-tree/fallback-kills-the-root-when-introspection-fails",
          "implies(log_count('raise:_posix_recursive_kill') == 1, log_count('proc_kill') == 1 and log_count('warn') == 1)")
c.raises_only("kill-tree/no-exception")
c.modifies("G.killed", "G.joined", "G.killed", "G.pid_live")

c = M.contract("_posix_recursive_kill", props=["C02", "C06"])
c.param("pid", T.Int)
c.ensures("recursive-kill/root-signalled", "G.killed[pid] and forall(Int, lambda k: implies(old(G.killed[k]), G.killed[k]))")
c.ensures("recursive-kill/root-signalled-last", "tail(log_tags()[-1] == 'call:_kill' and log_arg('call:_kill', -1, 1) == pid)")
c.raises("recursive-kill/errors-propagate", "Exception", post="forall(Int, lambda k: implies(old(G.killed[k]), G.killed[k]))")
c.modifies("G.killed")
i = M.invariant("_posix_recursive_kill", 0, "for cpid in children_pids.splitlines():")
i.inv("kills-only-grow", "forall(Int, lambda k: implies(old(G.killed[k]), G.killed[k]))")

c = M.contract("_kill", props=["C02", "C06"])
c.param("pid", T.Int)
c.ensures("kill/signals-the-pid", "G.killed[pid] and forall(Int, lambda k: implies(old(G.killed[k]), G.killed[k]))")
c.ensures("kill/one-signal", "log_count('os_kill') == 1 and log_arg('os_kill', 0, 0) == pid")
c.ensures("kill/with-the-signal-that-cannot-be-caught-or-ignored", "log_arg('os_kill', 0, 1) is obj(signal.SIGKILL)", prop="C06")
c.raises("kill/only-unexpected-oserror", "OSError", post="forall(Int, lambda k: implies(old(G.killed[k]), G.killed[k]))")
c.raises_only("kill/only-oserror")
c.modifies("G.killed")

c = M.contract("get_exitcodes_terminated_worker", props=["C02", "C20", "C10"])
c.param("processes", T.Map(T.Int, T.Ref("Process")))
c.returns(T.Str)
c.ensures("exitcodes/formatted-once", "log_count('call:_format_exitcodes') == 1 and result == log_arg('call:_format_exitcodes', 0, 0)")
c.raises_only("exitcodes/no-exception")
c.modifies()
i = M.invariant("get_exitcodes_terminated_worker", 0, "while not exitcodes and patience > 0:")
i.inv("patience-bounded", "patience >= 0 and patience <= 5")
i.variant("patience")

c = M.contract("_format_exitcodes", props=["C02"])
c.param("exitcodes", T.Obj)
c.returns(T.Str)
c.modifies()
c.trusted_summary = True

c = M.contract("_get_exitcode_name", props=["C02", "C20", "C10"])   # C10: a resize terminates "also when workers die during it" only if the manager thread survives naming the death
c.param("exitcode", T.Int)
c.returns(T.Str)
c.ensures("exitcodes/exit-for-nonnegative-non-255", "implies(exitcode >= 0 and exitcode != 255, result == 'EXIT')")
c.ensures("exitcodes/unknown-for-255", "implies(exitcode == 255, result == 'UNKNOWN')")
c.ensures("exitcodes/signal-name-or-unknown-for-negative", "implies(exitcode < 0, log_count('signal_name') == 1 and log_arg('signal_name', 0, 0) == -exitcode)")
c.raises_only("exitcodes/no-exception")
c.modifies()


@_impl("signal.Signals", cite="signal.Signals(n): the enum member (its .name), ValueError for an unknown number")
def _signals(eng, st, self_v, args, kwargs, node):
    from pyvc.values import VObj, fresh_const
    out = []
    s = st.clone()
    s.emit("signal_name", [args[0]], eng.site(node))
    out.append(eng.raise_new(s, "ValueError"))
    st.emit("signal_name", [args[0]], eng.site(node))
    out.append(eng.val(st, VObj(fresh_const("sig", T.IntS))))
    return out
