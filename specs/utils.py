"""Contracts for loky/backend/utils.py (kill trees, exit codes)."""
import z3
from pyvc.spec import SCHEMA as S, Module
from pyvc import types as T
from pyvc.values import VBool, NONE

M = Module("loky.backend.utils")

c = M.contract("kill_process_tree", props=["C02", "C06"])
c.param("process", T.Ref("Process")).param("use_psutil", T.Bool, default=VBool(True))
c.ensures("kill/marks-killed", "G.killed[process] and G.joined[process]")
c.ensures("kill/others-untouched", "forall(Ref('Process'), lambda q: implies(q is not process, G.killed[q] == old(G.killed[q]) and G.joined[q] == old(G.joined[q])))")
c.raises("kill/lookup-error-tolerated", "ProcessLookupError",
         post="G.killed[process] and G.joined[process] and forall(Ref('Process'), lambda q: implies(q is not process, G.killed[q] == old(G.killed[q]) and G.joined[q] == old(G.joined[q])))")
c.modifies("G.killed", "G.joined")
c.note("ProcessLookupError means the pid no longer exists (already reaped): counted as killed-and-reaped")

c = M.contract("get_exitcodes_terminated_worker", props=["C02"])
c.param("processes", T.Map(T.Int, T.Ref("Process")))
c.returns(T.Str).modifies()
