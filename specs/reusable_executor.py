"""Contracts for loky/reusable_executor.py (C09: the singleton factory; C10: resizing, sequential clauses)."""
import z3
from pyvc.spec import SCHEMA as S, Module
from pyvc import types as T
from pyvc.values import VBool, NONE, VInt, VStr, VClass, VTuple

M = Module("loky.reusable_executor")
RE = "loky.reusable_executor"
PE = "loky.process_executor"
RPE = "_ReusablePoolExecutor"
PPE = "ProcessPoolExecutor"
KW = T.Map(T.Str, T.Obj, nullable=True)

M.glob("_executor_lock", T.Ref("threading.RLock"))
M.glob("_next_executor_id", T.Int, inv="_next_executor_id >= 0", guard="_executor_lock")
M.glob("_executor", T.Ref(RPE, nullable=True), guard="_executor_lock")
M.glob("_executor_kwargs", KW, guard="_executor_lock")
M.cls(RPE, {"executor_id": T.Int, "_submit_resize_lock": T.Ref("threading.RLock")}, bases=[PPE])
S.assumption("A-singleton", "the module-level singleton state is only touched under _executor_lock and satisfies its representation invariant at entry: a "
                            "recorded executor has an id below the counter and recorded keyword arguments")
S.assumption("A-yield", "while a polling loop sleeps, other threads change only the shared state named at the yield point (pending/running tables, the worker "
                        "table, the broken flag)")

# ---------------------------------------------------------------- ids
c = M.contract("_get_next_executor_id", props=["C09"])
c.returns(T.Int)
c.ensures("id/returns-the-counter-and-advances-it-by-one", "result == old(_next_executor_id) and _next_executor_id == old(_next_executor_id) + 1")
c.ensures("id/under-the-singleton-lock", "log_arg('acquire', 0, 0) is _executor_lock and log_pos('acquire', 0) == 0 and log_tags()[-1] == 'release'")
c.raises_only("id/no-exception")
c.modifies(f"glob:{RE}._next_executor_id")

# ---------------------------------------------------------------- construction
PARAMS = [("max_workers", T.Opt(T.Int)), ("context", T.Ref("Context", nullable=True)), ("timeout", T.Opt(T.Real))]
c = M.contract(f"{RPE}.__init__", props=["C09", "C08"])
c.param("self", T.Ref(RPE)).param("submit_resize_lock", T.Ref("threading.RLock"))
c.param("max_workers", T.Opt(T.Int), default=NONE).param("context", T.Ref("Context", nullable=True), default=NONE).param("timeout", T.Opt(T.Real), default=NONE)
c.param("executor_id", T.Int, default=VInt(0)).param("job_reducers", T.Obj, default=NONE).param("result_reducers", T.Obj, default=NONE)
c.param("initializer", T.Obj, default=NONE).param("initargs", T.Obj, default=VTuple([])).param("env", T.Obj, default=NONE)
INIT = "call:ProcessPoolExecutor.__init__"
c.ensures("init/every-argument-forwarded-to-the-base-constructor",
          f"log_count('{INIT}') == 1 and log_arg('{INIT}', 0, 1) is self and log_arg('{INIT}', 0, 2) == max_workers and log_arg('{INIT}', 0, 3) is job_reducers and "
          f"log_arg('{INIT}', 0, 4) is result_reducers and log_arg('{INIT}', 0, 5) == timeout and log_arg('{INIT}', 0, 6) is context and "
          f"log_arg('{INIT}', 0, 7) is initializer and log_arg('{INIT}', 0, 8) is initargs and log_arg('{INIT}', 0, 9) is env")
c.ensures("init/starts-healthy-with-the-requested-size-id-and-lock",
          "self._flags.shutdown == False and self._flags.broken is None and self._executor_manager_thread is None and len(self._processes) == 0 and "
          "len(self._pending_work_items) == 0 and implies(not is_none(max_workers), self._max_workers == the(max_workers)) and self._max_workers >= 1 and "
          "self.executor_id == executor_id and self._submit_resize_lock is submit_resize_lock and fresh(self._flags)")
c.raises("init/construction-errors-propagate", "Exception")
c.modifies("self._max_workers", "self._context", "self._env", "self._initializer", "self._initargs", "self._timeout", "self._executor_manager_thread",
           "self._processes", "self._queue_count", "self._pending_work_items", "self._running_work_items", "self._work_ids",
           "self._processes_management_lock", "self._shutdown_lock", "self._executor_manager_thread_wakeup", "self._flags",
           "self._call_queue", "self._result_queue", "self.executor_id", "self._submit_resize_lock",
           f"glob:{PE}._system_limits_checked", f"glob:{PE}._system_limited", "glob:loky.backend.context.physical_cores_cache")

# the override used by the base constructor: same routing as the base method, a larger call queue
c = M.contract(f"{RPE}._setup_queues", props=["C09", "C15", "C08"])
c.param("self", T.Ref(RPE)).param("job_reducers", T.Obj).param("result_reducers", T.Obj)
c.requires("wakeup-exists", "self._executor_manager_thread_wakeup is not None")
SQ = "call:ProcessPoolExecutor._setup_queues"
c.ensures("queues/base-method-with-the-same-reducers-and-a-queue-sized-for-any-resize",
          f"log_count('{SQ}') == 1 and log_arg('{SQ}', 0, 1) is self and log_arg('{SQ}', 0, 2) is job_reducers and log_arg('{SQ}', 0, 3) is result_reducers and "
          f"log_count('call:cpu_count') == 1 and log_arg('{SQ}', 0, 4) == 2 * max(log_arg('call:cpu_count', 0, 0), self._max_workers) + EXTRA_QUEUED_CALLS")
c.ensures("queues/routing-as-the-base-method", "self._call_queue._reducers is job_reducers and self._result_queue._reducers is result_reducers and "
          "fresh(self._call_queue) and fresh(self._result_queue)")
# C08 "parallelism is delivered": the manager thread refills the call queue only when it is woken (a submit, a result); a call queue smaller than the number of
# workers leaves workers idle while tasks wait for the next wake-up (the base constructor reaches this override through self._setup_queues)
c.ensures("queues/call-queue-can-hold-one-task-per-worker", "self._call_queue._maxsize >= self._max_workers", prop="C08")
c.replay_for("call-queue-can-hold-one-task-per-worker", "queue_capacity_starvation")
c.raises_only("queues/no-exception")
c.modifies("self._call_queue", "self._result_queue", "glob:loky.backend.context.physical_cores_cache")

# ---------------------------------------------------------------- submit / resize exclusion (C10)
c = M.contract(f"{RPE}.submit", props=["C10"])
c.param("self", T.Ref(RPE)).param("fn", T.Obj).varargs("args").kwargs("kwargs")
SUB = "call:ProcessPoolExecutor.submit"
c.ensures("submit/base-submit-under-the-submit-resize-lock",
          f"log_count('{SUB}') == 1 and result is log_arg('{SUB}', 0, 0) and log_arg('{SUB}', 0, 1) is self and log_arg('{SUB}', 0, 2) is fn and "
          "log_arg('acquire', 0, 0) is self._submit_resize_lock and log_pos('acquire', 0) == 0 and log_tags()[-1] == 'release'")
c.at_call(f"{PE}:{PPE}.submit", "holds-the-submit-resize-lock", "held(self._submit_resize_lock)", prop="C10")
c.raises("submit/errors-of-the-base-submit-propagate-with-the-lock-released", "BaseException", post="log_tags()[-1] == 'release'")
c.modifies("self._queue_count", "contents(self._pending_work_items)", "G.work_ids", "contents(self._processes)", "G.started", "G.pid_live", "G.proc_of_pid",
           "self._executor_manager_thread", f"glob:{PE}.process_pool_executor_at_exit", "G.referent")

# eventual guarantees of the other threads (manager, workers) the polling loops of this module rely on (assumptions, A-progress)
P_JOBS = "len(self._pending_work_items) == 0"
P_SURPLUS = "len(self._processes) <= self._max_workers or self._flags.broken is not None"
P_REGISTRY = "self._flags.broken is not None or forall(Int, lambda k: implies(k in self._processes, G.proc_up[self._processes[k]]))"
S.assumption("A-progress", "eventual guarantees of the manager thread and the workers: every pending job is eventually resolved; workers that were sent a sentinel "
                           "or time out exit and are removed from the worker table; eventually every worker still in the table is running, or the pool is flagged broken")
SHARED = ["contents(self._pending_work_items)", "contents(self._running_work_items)", "contents(self._processes)", "self._flags.broken", "self._flags.shutdown"]
# invariant of _ExecutorFlags kept by every thread (flag_as_broken sets both under the lock, nothing resets either): a broken executor is also flagged shut down
FLAGS_INV = "implies(self._flags.broken is not None, self._flags.shutdown)"
c = M.contract(f"{RPE}._wait_job_completion", props=["C10"])
c.param("self", T.Ref(RPE))
c.rely("a-broken-executor-is-flagged-shut-down", FLAGS_INV, "A-atomic")
c.ensures("wait/a-broken-executor-is-flagged-shut-down", FLAGS_INV)
c.ensures("wait/returns-only-when-nothing-is-pending", "len(self._pending_work_items) == 0")
c.ensures("wait/warns-once-iff-jobs-were-pending", "log_count('warn') == ite(old(len(self._pending_work_items)) > 0, 1, 0)")
c.raises_only("wait/no-exception")
c.yield_at("time.sleep", SHARED, guarantee=FLAGS_INV, tag="A-yield")
c.modifies(*SHARED)
i = M.invariant(f"{RPE}._wait_job_completion", 0, "while self._pending_work_items:")
i.inv("polls-only", "log_count('cq_put') == 0")
i.inv("a-broken-executor-is-flagged-shut-down", FLAGS_INV)
i.iter_post("one-short-sleep-per-poll", "log_count('sleep') == 1")
i.exits_under("jobs-resolved", P_JOBS, havoc=SHARED + ["G.proc_up"], tag="A-progress")

c = M.contract(f"{RPE}._resize", props=["C10", "C09", "C08"])
c.param("self", T.Ref(RPE)).param("max_workers", T.Opt(T.Int))
c.rely("a-broken-executor-is-flagged-shut-down", FLAGS_INV, "A-atomic")
c.rely("registered-pids-are-live-children", "forall(Int, lambda k: implies(k in self._processes, G.pid_live[k]))", "A-pids")
c.rely("a-started-executor-has-its-internals", "implies(self._executor_manager_thread is not None, self._processes_management_lock is not None and "
       "self._call_queue is not None and self._result_queue is not None)", "A-atomic")
MW = "the(max_workers)"
c.ensures("resize/size-recorded-and-none-never-accepted", f"not is_none(max_workers) and self._max_workers == {MW}")
c.ensures("resize/same-size-or-unstarted-touches-nothing",
          f"implies(old(self._max_workers) == {MW} or old(self._executor_manager_thread) is None, "
          "G.n_sentinels == old(G.n_sentinels) and log_count('call:ProcessPoolExecutor._adjust_process_count') == 0 and "
          "log_count('call:_ReusablePoolExecutor._wait_job_completion') == 0)")
WJC = "call:_ReusablePoolExecutor._wait_job_completion"
ADJ = "call:ProcessPoolExecutor._adjust_process_count"
c.ensures("resize/waits-for-jobs-then-tops-up",
          f"implies(old(self._max_workers) != {MW} and old(self._executor_manager_thread) is not None, "
          f"log_count('{WJC}') == 1 and G.n_sentinels >= old(G.n_sentinels) and "
          # the top-up is skipped only for a pool found broken or shut down after the wait for departures (F21, F30)
          f"((log_count('{ADJ}') == 1 and log_before('{WJC}', '{ADJ}')) or (log_count('{ADJ}') == 0 and self._flags.shutdown)))")
WK = "call:_ThreadWakeup.wakeup"
c.ensures("resize/manager-woken-after-the-top-up-so-that-it-watches-the-new-workers",
          f"implies(old(self._max_workers) != {MW} and old(self._executor_manager_thread) is not None and self._executor_manager_thread_wakeup is not None and "
          f"log_count('{ADJ}') == 1, "
          f"log_count('{WK}') == 1 and log_arg('{WK}', 0, 1) is self._executor_manager_thread_wakeup and log_before('{ADJ}', '{WK}') and "
          f"ordered('acquire', lambda l: l is self._flags.shutdown_lock, '{WK}', lambda *a: True) and exists_event('acquire', lambda l: l is self._flags.shutdown_lock))")
c.ensures("resize/call-queue-can-hold-one-task-per-worker",
          f"implies(old(self._executor_manager_thread) is not None and self._call_queue is not None, self._call_queue._maxsize >= {MW})", prop=["C08", "C10"])
c.replay_for("resize/call-queue-can-hold-one-task-per-worker", "queue_capacity_starvation", mode="'resize'")
c.ensures("resize/under-the-submit-resize-lock", "log_arg('acquire', 0, 0) is self._submit_resize_lock and log_pos('acquire', 0) == 0 and log_tags()[-1] == 'release'")
c.at_call("mp.Queue.put", "sentinels-posted-under-the-management-lock-after-the-size-was-recorded-between-the-wait-and-the-top-up",
          f"held(self._processes_management_lock) and held(self._submit_resize_lock) and self._max_workers == {MW} and arg_0 is None and "
          f"arg_self is self._call_queue and log_count('{WJC}') == 1 and log_count('{ADJ}') == 0", prop="C10")
# a full call queue is waited for (blocking put: the workers drain it), never turned into queue.Full out of get_reusable_executor with the sentinels half posted
c.at_call("mp.Queue.put_nowait", "sentinels-are-posted-with-a-blocking-put-a-full-call-queue-is-waited-for", "False", prop="C10")
c.at_call("Process.is_alive", "surplus-counted-under-the-management-lock-after-the-job-wait-or-polled-after-the-top-up",
          f"(held(self._processes_management_lock) and log_count('{WJC}') == 1 and log_count('{ADJ}') == 0) or log_count('{ADJ}') == 1", prop="C10")
c.at_call(f"{PE}:{PPE}._adjust_process_count", "tops-up-under-the-submit-resize-lock-with-the-new-size",
          f"held(self._submit_resize_lock) and self._max_workers == {MW}", prop="C10")
# "also when workers die during it": a pool that broke while the resize waited is being torn down by its manager thread (workers killed, queues closed): nothing
# is spawned into it (nobody would manage the new workers; since the read end of the call queue is closed the spawn raises out of get_reusable_executor)
c.at_call(f"{PE}:{PPE}._adjust_process_count", "no-worker-is-spawned-into-a-pool-that-broke-during-the-resize", "self._flags.broken is None", prop="C10")
c.replay_for("no-worker-is-spawned-into-a-pool-that-broke-during-the-resize", "resize_after_break")
# the same for an executor that another thread shut down while the resize waited (shutdown() does not take the submit/resize lock)
c.at_call(f"{PE}:{PPE}._adjust_process_count", "no-worker-is-spawned-into-a-pool-that-was-shut-down-during-the-resize", "not self._flags.shutdown", prop="C10")
c.replay_for("no-worker-is-spawned-into-a-pool-that-was-shut-down-during-the-resize", "shutdown_during_resize")
c.raises("resize/none-is-rejected-before-anything-happens-and-every-error-leaves-the-lock-released", "Exception",
         post="log_tags()[-1] == 'release' and implies(is_none(max_workers), exc_is(exc, 'ValueError') and G.n_sentinels == old(G.n_sentinels) and "
              "log_count('sleep') == 0 and self._max_workers == old(self._max_workers))")
c.raises_only("resize/only-exceptions")
c.yield_at("time.sleep", SHARED, guarantee=FLAGS_INV, tag="A-yield")
c.replay_for("exits-under/registered-workers-running-or-pool-broken", "resize_worker_leaves", bound="12")
c.modifies("self._max_workers", *SHARED, "G.started", "G.pid_live", "G.proc_of_pid", "G.sem_released", "G.n_sentinels")
i = M.invariant(f"{RPE}._resize", 0, "for _ in range(")   # the bounds are pinned by the invariant, not by the anchor
i.inv("one-sentinel-per-surplus-worker-found-alive",
      f"G.n_sentinels == at_entry(G.n_sentinels) + __i0 and __i0 <= max(0, nb_children_alive - {MW}) and self._max_workers == {MW}")
i.iter_post("one-sentinel", "log_count('cq_put') == 1 and log_count('cq_put_full') == 0")
i = M.invariant(f"{RPE}._resize", 1, "while (")
i.inv("a-broken-executor-is-flagged-shut-down", FLAGS_INV)
i.inv("size-recorded", f"self._max_workers == {MW}")
i.inv("no-further-sentinel", "G.n_sentinels == at_entry(G.n_sentinels)")
i.iter_post("one-short-sleep-per-poll", "log_count('sleep') == 1 and log_count('cq_put') == 0")
i.exits_under("surplus-workers-gone", P_SURPLUS, havoc=SHARED + ["G.proc_up"], tag="A-progress")
i = M.invariant(f"{RPE}._resize", 2, "while not self._flags.broken and not all(")
i.inv("a-broken-executor-is-flagged-shut-down", FLAGS_INV)
i.inv("size-recorded", f"self._max_workers == {MW}")
i.exits_under("registered-workers-running-or-pool-broken", P_REGISTRY, havoc=SHARED + ["G.proc_up"], tag="A-progress")
i.iter_post("one-short-sleep-per-poll", "log_count('sleep') == 1 and log_count('cq_put') == 0")

# ---------------------------------------------------------------- the factory (C09)
KEYS = ["context", "timeout", "job_reducers", "result_reducers", "initializer", "initargs", "env"]
c = M.contract(f"{RPE}.get_reusable_executor", props=["C09", "C15"])   # C15: the reducers given to the factory are the ones the returned executor was built with
c.param("cls", VClass(RPE))
c.param("max_workers", T.Opt(T.Int), default=NONE).param("context", T.Ref("Context", nullable=True), default=NONE)
c.param("timeout", T.Obj, default=VInt(10)).param("kill_workers", T.Bool, default=VBool(False))
c.param("reuse", T.Union(T.Bool, VStr("auto")), default=VStr("auto"))
c.param("job_reducers", T.Obj, default=NONE).param("result_reducers", T.Obj, default=NONE)
c.param("initializer", T.Obj, default=NONE).param("initargs", T.Obj, default=VTuple([])).param("env", T.Obj, default=NONE)
c.returns(T.Tup(T.Ref(RPE), T.Bool))
c.touch("_executor")
c.touch("_executor_kwargs")
KW_SHAPE = f"len(_executor_kwargs) == {len(KEYS)} and " + " and ".join(f"'{k}' in _executor_kwargs" for k in KEYS)
c.rely("singleton-representation-invariant",
       "implies(_executor is not None, _executor.executor_id < _next_executor_id and _executor_kwargs is not None and _executor._submit_resize_lock is _executor_lock "
       f"and _executor._max_workers >= 1 and {KW_SHAPE})", "A-singleton")
c.rely("registered-pids-are-live-children", "implies(_executor is not None, forall(Int, lambda k: implies(k in _executor._processes, G.pid_live[k])))", "A-pids")
c.rely("a-started-executor-has-its-internals", "implies(_executor is not None and _executor._executor_manager_thread is not None, "
       "_executor._processes_management_lock is not None and _executor._call_queue is not None and _executor._result_queue is not None)", "A-atomic")
PREV = "old(_executor)"
HEALTHY = f"({PREV} is not None and old(_executor._flags.broken) is None and not old(_executor._flags.shutdown))"
SAME = " and ".join(f"({k} == old(_executor_kwargs['{k}']))" for k in KEYS)
ALLOWED = f"(reuse == True or (reuse == 'auto' and {SAME}))"
c.lets = []
c.ensures("factory/previous-instance-returned-iff-healthy-and-reuse-allows",
          f"(result[0] is {PREV}) == ({HEALTHY} and {ALLOWED}) and result[1] == (result[0] is {PREV})")
c.ensures("factory/returned-executor-was-neither-broken-nor-shut-down",
          f"implies({PREV} is not None and result[0] is {PREV}, old(_executor._flags.broken) is None and not old(_executor._flags.shutdown)) and "
          f"implies(result[0] is not {PREV}, fresh(result[0]) and result[0]._flags.broken is None and not result[0]._flags.shutdown)")
c.ensures("factory/returned-executor-is-the-recorded-singleton", "_executor is result[0] and _executor_kwargs is not None")
c.ensures("factory/requested-number-of-workers",
          "implies(not is_none(max_workers), result[0]._max_workers == the(max_workers)) and result[0]._max_workers >= 1")
c.ensures("factory/a-fresh-instance-gets-a-strictly-larger-id-and-the-new-arguments",
          f"implies(result[0] is not {PREV}, result[0].executor_id >= old(_next_executor_id) and _next_executor_id > result[0].executor_id and "
          f"implies({PREV} is not None, result[0].executor_id > old(_executor).executor_id) and _executor_kwargs is not None and "
          + " and ".join(f"_executor_kwargs['{k}'] is {k}" for k in KEYS) + " and result[0]._submit_resize_lock is _executor_lock)")
SHUT = "call:ProcessPoolExecutor.shutdown"
NEW = "call:_ReusablePoolExecutor.__init__"
REC = "call:_ReusablePoolExecutor.get_reusable_executor"
c.ensures("factory/previous-instance-completely-shut-down-before-a-fresh-one-is-built",
          f"implies(result[0] is not {PREV} and {PREV} is not None, log_count('{SHUT}') == 1 and log_arg('{SHUT}', 0, 1) is {PREV} and "
          f"log_arg('{SHUT}', 0, 2) == True and log_arg('{SHUT}', 0, 3) == kill_workers and "
          f"ordered('{SHUT}', lambda *a: True, '{REC}', lambda *a: True) and log_count('{REC}') == 1)")
c.ensures("factory/a-reused-instance-is-resized-to-the-request",
          f"implies(result[0] is {PREV}, log_count('call:_ReusablePoolExecutor._resize') == 1 and log_arg('call:_ReusablePoolExecutor._resize', 0, 1) is {PREV} and "
          f"log_count('{SHUT}') == 0 and log_count('{NEW}') == 0)")
c.ensures("factory/representation-invariant-kept", f"_executor.executor_id < _next_executor_id and _executor_kwargs is not None and _executor._max_workers >= 1 and "
          f"_executor._submit_resize_lock is _executor_lock and {KW_SHAPE}")
c.ensures("factory/under-the-singleton-lock", "log_arg('acquire', 0, 0) is _executor_lock and log_pos('acquire', 0) == 0 and log_tags()[-1] == 'release'")
c.ensures("factory/only-positive-sizes-and-non-fork-contexts-are-served",
          "implies(not is_none(max_workers), the(max_workers) > 0)")
c.ensures("factory/no-recursion-when-there-was-no-instance", f"implies({PREV} is None, log_count('{REC}') == 0 and log_count('{NEW}') == 1)")
c.at_call(f"{RE}:{RPE}.get_reusable_executor", "recursion-only-after-dropping-the-singleton-so-it-ends-after-one-level", "_executor is None and _executor_kwargs is None")
c.raises("factory/errors-leave-the-lock-released", "BaseException", post="log_tags()[-1] == 'release'")
c.modifies(f"glob:{RE}._executor", f"glob:{RE}._executor_kwargs", f"glob:{RE}._next_executor_id",
           f"glob:{PE}._system_limits_checked", f"glob:{PE}._system_limited", "glob:loky.backend.context.physical_cores_cache",
           f"glob:{PE}.process_pool_executor_at_exit", "G.started", "G.pid_live", "G.proc_of_pid", "G.sem_released", "G.n_sentinels", "G.concurrent_shutdown",
           "_executor._max_workers", "_executor._flags.shutdown", "_executor._flags.kill_workers", "_executor._flags.broken",
           "_executor._executor_manager_thread", "_executor._executor_manager_thread_wakeup", "_executor._call_queue", "_executor._result_queue",
           "_executor._processes_management_lock", "contents(_executor._pending_work_items)", "contents(_executor._running_work_items)",
           "contents(_executor._processes)")
c.assumes("A-singleton")

c = M.contract("get_reusable_executor", props=["C09"])
c.param("max_workers", T.Opt(T.Int), default=NONE).param("context", T.Ref("Context", nullable=True), default=NONE)
c.param("timeout", T.Obj, default=VInt(10)).param("kill_workers", T.Bool, default=VBool(False))
c.param("reuse", T.Union(T.Bool, VStr("auto")), default=VStr("auto"))
c.param("job_reducers", T.Obj, default=NONE).param("result_reducers", T.Obj, default=NONE)
c.param("initializer", T.Obj, default=NONE).param("initargs", T.Obj, default=VTuple([])).param("env", T.Obj, default=NONE)
c.returns(T.Ref(RPE))
c.ensures("public/forwards-every-argument-and-returns-the-executor",
          f"log_count('{REC}') == 1 and result is log_arg('{REC}', 0, 0)[0] and log_arg('{REC}', 0, 2) == max_workers and log_arg('{REC}', 0, 3) is context and "
          f"log_arg('{REC}', 0, 4) == timeout and log_arg('{REC}', 0, 5) == kill_workers and log_arg('{REC}', 0, 6) == reuse and "
          f"log_arg('{REC}', 0, 7) is job_reducers and log_arg('{REC}', 0, 8) is result_reducers and log_arg('{REC}', 0, 9) is initializer and "
          f"log_arg('{REC}', 0, 10) is initargs and log_arg('{REC}', 0, 11) is env")
c.raises("public/errors-of-the-factory-propagate", "BaseException")
c.modifies(f"glob:{RE}._executor", f"glob:{RE}._executor_kwargs", f"glob:{RE}._next_executor_id",
           f"glob:{PE}._system_limits_checked", f"glob:{PE}._system_limited", "glob:loky.backend.context.physical_cores_cache",
           f"glob:{PE}.process_pool_executor_at_exit", "G.started", "G.pid_live", "G.proc_of_pid", "G.sem_released", "G.n_sentinels", "G.concurrent_shutdown",
           "_executor._max_workers", "_executor._flags.shutdown", "_executor._flags.kill_workers", "_executor._flags.broken",
           "_executor._executor_manager_thread", "_executor._executor_manager_thread_wakeup", "_executor._call_queue", "_executor._result_queue",
           "_executor._processes_management_lock", "contents(_executor._pending_work_items)", "contents(_executor._running_work_items)",
           "contents(_executor._processes)")
