"""Contracts for loky/backend/synchronize.py (C13: named semaphores are registered / unlinked; C14: sequential contracts of the primitives)."""
import z3
from pyvc.spec import SCHEMA as S, Module
from pyvc import types as T
from pyvc.values import VBool, NONE, VInt, VStr, VFn, VConst
from specs.externals import _impl

M = Module("loky.backend.synchronize")
SY = "loky.backend.synchronize"
M.glob("RECURSIVE_MUTEX", T.Int, const=VInt(0), doc="range(2)[0]")
M.glob("SEMAPHORE", T.Int, const=VInt(1), doc="range(2)[1]")
M.glob("SEM_VALUE_MAX", T.Int, inv="SEM_VALUE_MAX >= 1")

S.cls("_SemLock", {"kind": T.Int, "maxvalue": T.Int, "name": T.Str, "handle": T.Obj, "value0": T.Int}, external=True)
M.cls("SemLock", {"_semlock": T.Ref("_SemLock"), "name": T.Opt(T.Str)})
S.classes["SemLock"].forward = {"acquire": ("_semlock", "acquire"), "release": ("_semlock", "release")}
for nm in ("Semaphore", "Lock", "RLock"):
    M.cls(nm, {}, bases=["SemLock"])
M.cls("BoundedSemaphore", {}, bases=["Semaphore"])
M.cls("Condition", {"_lock": T.Ref("SemLock"), "_sleeping_count": T.Ref("SemLock"), "_woken_count": T.Ref("SemLock"), "_wait_semaphore": T.Ref("SemLock")})
S.classes["Condition"].forward = {"acquire": ("_lock", "acquire"), "release": ("_lock", "release")}
M.cls("Event", {"_cond": T.Ref("Condition"), "_flag": T.Ref("SemLock")})
S.class_attrs[("SemLock", "_rand")] = VConst("tempfile._RandomNameSequence()")

S.ghost("sem_acq", z3.ArraySort(T.IntS, T.IntS), "per kernel semaphore: number of successful acquire() calls")
S.ghost("sem_rel", z3.ArraySort(T.IntS, T.IntS), "per kernel semaphore: number of release() calls")
S.ghost("sem_created", z3.ArraySort(T.StrS, T.IntS), "per name: number of semaphores created (not rebuilt) under it")
S.ghost("sem_val", z3.ArraySort(T.IntS, T.IntS), "per kernel semaphore: its current value (never negative)")


@_impl("_multiprocessing.SemLock", cite="_multiprocessing.SemLock(kind, value, maxvalue, name, unlink): creates the named POSIX semaphore (O_EXCL): FileExistsError when the name is taken; counting semaphore with initial value, ValueError on release at maxvalue, owner-reentrant for RECURSIVE_MUTEX")
def _semlock_new(eng, st, self_v, args, kwargs, node):
    kind, value, maxvalue, name, unlink = args[:5]
    out = []
    s = st.clone()
    s.emit("sem_create_exists", [name], eng.site(node))
    out.append(eng.raise_new(s, "FileExistsError"))
    s = st.clone()
    s.emit("sem_create_failed", [name], eng.site(node))
    out.append(eng.raise_new(s, "OSError"))
    o = st.new_obj("_SemLock")
    st.write_field(o, "kind", kind)
    st.write_field(o, "maxvalue", maxvalue)
    st.write_field(o, "value0", value)
    st.write_field(o, "name", name)
    sv = st.ghost_get("sem_val")
    st.ghost_set("sem_val", z3.Store(sv, o.t, value.t))
    g = st.ghost_get("sem_created")
    st.ghost_set("sem_created", z3.Store(g, name.t, z3.Select(g, name.t) + 1))
    st.emit("sem_create", [o, kind, value, maxvalue, name, unlink], eng.site(node))
    out.append(eng.val(st, o))
    return out


@_impl("_SemLock._rebuild", cite="_multiprocessing.SemLock._rebuild(handle, kind, maxvalue, name): attaches to the existing kernel object (no creation)")
def _semlock_rebuild(eng, st, self_v, args, kwargs, node):
    from pyvc.calls import Star
    o = st.new_obj("_SemLock")
    flat = [a.v if isinstance(a, Star) else a for a in args]
    st.emit("sem_rebuild", [o] + flat, eng.site(node))
    if len(args) == 4 and not any(isinstance(a, Star) for a in args):
        st.write_field(o, "handle", args[0])
        st.write_field(o, "kind", args[1])
        st.write_field(o, "maxvalue", args[2])
        st.write_field(o, "name", args[3])
    return [eng.val(st, o)]


S.class_attrs[("_SemLock", "_rebuild")] = VFn("ext", name="_SemLock._rebuild")
S.aliases["_multiprocessing.SemLock._rebuild"] = "_SemLock._rebuild"


@_impl("_SemLock.acquire", cite="SemLock.acquire(block=True, timeout=None): True when acquired; False only for a non-blocking call or after the timeout expired")
def _sl_acquire(eng, st, self_v, args, kwargs, node):
    from pyvc.values import fresh_name
    block = args[0] if args else kwargs.get("block", VBool(True))
    timeout = args[1] if len(args) > 1 else kwargs.get("timeout", NONE)
    can_fail = z3.Or(z3.Not(eng.truth(block, st)), z3.BoolVal(not isinstance(timeout, type(NONE))))
    if not isinstance(timeout, type(NONE)) and not isinstance(timeout, VConst):
        # a timeout value that may be None at run time
        from pyvc.values import VOpt
        if isinstance(timeout, VOpt):
            can_fail = z3.Or(z3.Not(eng.truth(block, st)), z3.Not(timeout.isnone))
    got = z3.Bool(fresh_name("semacq"))
    st.assume(z3.Implies(z3.Not(can_fail), got))
    val = st.ghost_get("sem_val")
    cur = z3.Select(val, self_v.t)
    st.assume(cur >= 0)
    nonblocking = z3.simplify(z3.Not(eng.truth(block, st)))
    if z3.is_true(nonblocking):
        # try-acquire: succeeds iff the value is positive (no other thread is modelled between the test and the decrement)
        st.assume(got == (cur >= 1))
    out = []
    for b, s in eng.branch(st, got):
        if b:
            g = s.ghost_get("sem_acq")
            s.ghost_set("sem_acq", z3.Store(g, self_v.t, z3.Select(g, self_v.t) + 1))
            if z3.is_true(nonblocking):
                s.ghost_set("sem_val", z3.Store(val, self_v.t, cur - 1))
            else:
                from pyvc.values import fresh_const
                v1 = fresh_const("semval", T.IntS)       # a blocking acquire may have waited for releases by others
                s.assume(v1 >= 1)
                s.ghost_set("sem_val", z3.Store(val, self_v.t, v1 - 1))
        s.emit("sem_acquire", [self_v, block, timeout, VBool(b)], eng.site(node))
        out.append(eng.val(s, VBool(b)))
    return out


@_impl("_SemLock.release", cite="SemLock.release(): increments the semaphore; ValueError at maxvalue for a bounded semaphore, AssertionError for a mutex not owned")
def _sl_release(eng, st, self_v, args, kwargs, node):
    out = []
    s = st.clone()
    s.emit("sem_release_refused", [self_v], eng.site(node))
    out.append(eng.raise_new(s, "ValueError"))
    g = st.ghost_get("sem_rel")
    st.ghost_set("sem_rel", z3.Store(g, self_v.t, z3.Select(g, self_v.t) + 1))
    val = st.ghost_get("sem_val")
    st.ghost_set("sem_val", z3.Store(val, self_v.t, z3.Select(val, self_v.t) + 1))
    st.emit("sem_release", [self_v], eng.site(node))
    out.append(eng.val(st, NONE))
    return out


c = S.ext("_SemLock._is_mine", cite="SemLock._is_mine(): whether the calling thread owns the mutex")
c.param("self", T.Ref("_SemLock")).returns(T.Bool).modifies()
c = S.ext("_SemLock._count", cite="SemLock._count(): recursion depth held by the calling thread")
c.param("self", T.Ref("_SemLock")).returns(T.Int).ensures("nonneg", "result >= 0").modifies()
c = S.ext("_SemLock._get_value", cite="SemLock._get_value()")
c.param("self", T.Ref("_SemLock")).returns(T.Int).modifies()
c = S.ext("_SemLock._after_fork", cite="SemLock._after_fork()")
c.param("self", T.Ref("_SemLock")).modifies()
c = S.ext("multiprocessing.util.register_after_fork", cite="util.register_after_fork(obj, func): bookkeeping only")
c.param("obj", T.Obj).param("func", T.Obj).modifies().is_quiet()

# the tracker client as seen from this module: resource_tracker.register / unregister are bound methods of the tracker object
RTM = "loky.backend.resource_tracker"
for nm in ("register", "unregister"):
    S.glob(RTM, nm, T.Obj, factory=(lambda eng, st, nm=nm: VFn("bound", name=nm, self_=eng.glob_value(st, RTM, "_resource_tracker")[0][1])),
           doc=f"module-level alias of _resource_tracker.{nm}")
    cc = S.ext(f"mp.ResourceTracker.{nm}", cite=f"multiprocessing.resource_tracker.ResourceTracker.{nm}(name, rtype): ensure_running() then one '{nm.upper()}:name:rtype' line")
    cc.param("self", T.Ref("ResourceTracker")).param("name", T.Obj).param("rtype", T.Obj).event(f"tracker_{nm}", "name", "rtype").modifies()
    # ensure_running() may fail to start the tracker (OSError), the line may not be ASCII (UnicodeEncodeError) or exceed 512 bytes (ValueError); it unblocks
    # SIGINT after spawning the tracker, so a pending KeyboardInterrupt (or the SystemExit of a SIGTERM handler) is delivered there: any BaseException
    cc.may_raise.append(("BaseException", None))

# ---------------------------------------------------------------- C13
c = M.contract("SemLock._make_name", props=["C13"])
c.returns(T.Str)
c.ensures("names/in-the-loky-namespace-of-this-process", "prefix_of(seq('/loky-' + str(os.getpid()) + '-'), seq(result))" if False else
          "result.startswith('/loky-' + str(os.getpid()) + '-')")
c.raises_only("names/no-exception")
c.modifies()

c = M.contract("SemLock._make_methods", props=["C14"])
c.param("self", T.Ref("SemLock"))
c.ensures("methods/acquire-and-release-forward-to-the-kernel-semaphore",
          "log_count('bind_method') == 2 and "
          "exists_event('bind_method', lambda o, n, m: o is self and n == 'acquire' and is_bound(m, self._semlock, 'acquire')) and "
          "exists_event('bind_method', lambda o, n, m: o is self and n == 'release' and is_bound(m, self._semlock, 'release'))")
c.raises_only("methods/no-exception")
c.modifies()

c = M.contract("SemLock.__init__", props=["C13", "C14"])
c.param("self", T.Ref("SemLock")).param("kind", T.Int).param("value", T.Int).param("maxvalue", T.Int).param("name", T.Opt(T.Str), default=NONE)
CREATED = "log_arg('sem_create', 0, 0)"
c.ensures("semlock/exactly-one-semaphore-created-with-the-requested-kind-and-bounds",
          f"tail(log_count('sem_create') == 1) and self._semlock is tail({CREATED}) and self._semlock.kind == kind and self._semlock.value0 == value and "
          "self._semlock.maxvalue == maxvalue and tail(log_arg('sem_create', 0, 5) == False)", prop=["C13", "C14"])
c.ensures("semlock/a-new-kernel-object-starting-at-value-and-no-other-value-changed",
          "fresh(self._semlock) and G.sem_val[self._semlock] == value and forall(Int, lambda s: implies(s != obj_id(self._semlock), G.sem_val[s] == old(G.sem_val[s])))", prop="C14")
c.ensures("semlock/registered-under-the-created-name-then-finalizer-installed",
          "tail(log_count('tracker_register') == 1 and log_arg('tracker_register', 0, 0) == self._semlock.name and log_arg('tracker_register', 0, 1) == 'semlock' and "
          "log_count('finalize') == 1 and log_arg('finalize', 0, 0) is self and log_arg('finalize', 0, 1) is SemLock._cleanup and "
          "log_arg('finalize', 0, 2)[0] == self._semlock.name and log_before('sem_create', 'tracker_register') and log_before('tracker_register', 'finalize'))", prop="C13")
c.ensures("semlock/generated-names-are-in-the-loky-namespace", "implies(is_none(name), self._semlock.name.startswith('/loky-'))", prop="C13")
# a constructor that raises leaves no owning object behind, hence no finalizer: either nothing was created, or the semaphore whose registration failed (tracker
# not startable, name not ASCII) was unlinked before the error was passed on; it must not stay in the namespace untracked for ever
c.raises("semlock/a-failed-construction-leaves-no-semaphore-behind", "BaseException",
         post="tail(log_count('sem_create') == 0 and log_count('tracker_register') == 0) or "
              f"tail(log_count('sem_create') == 1 and log_count('cleanup') == 1 and log_arg('cleanup', 0, 0) == 'semlock' and log_arg('cleanup', 0, 1) == {CREATED}.name and "
              "log_count('finalize') == 0)", prop="C13")
c.replay_for("semlock/a-failed-construction-leaves-no-semaphore-behind", "semlock_registration_fails")
# the constructor is the one place besides _cleanup and the tracker that may unlink (structural scan below): only on its error path, only what it just created
c.ensures("semlock/a-constructed-semaphore-is-not-unlinked-by-its-constructor", "G.cleanup_semlock == old(G.cleanup_semlock) and G.cleanup_seq == old(G.cleanup_seq)", prop="C13")
c.modifies("self._semlock", "self.name", "G.sem_created", "G.sem_val", "G.cleanup_semlock", "G.cleanup_seq")
i = M.invariant("SemLock.__init__", 0, "for _ in range(100):")
i.inv("nothing-created-yet", "G.sem_created == old(G.sem_created) and G.sem_val == old(G.sem_val) and G.cleanup_semlock == old(G.cleanup_semlock) and G.cleanup_seq == old(G.cleanup_seq)")
i.iter_post("a-failed-attempt-creates-nothing", "log_count('sem_create') == 0", prop="C13")

c = M.contract("SemLock._cleanup", props=["C13"])
c.param("name", T.Str)
c.ensures("cleanup/unlinked-once-and-always-unregistered", "log_count('cleanup') == 1 and log_arg('cleanup', 0, 1) == name and log_count('tracker_unregister') == 1 and "
          "log_arg('tracker_unregister', 0, 0) == name and log_arg('tracker_unregister', 0, 1) == 'semlock' and log_before('cleanup', 'tracker_unregister')")
c.raises("cleanup/other-errors-propagate-after-unregistering", "BaseException",
         post="log_count('tracker_unregister') == 1 and log_arg('tracker_unregister', 0, 0) == name")
c.raises_only("cleanup/only-exceptions")
c.modifies("G.cleanup_semlock", "G.cleanup_seq")

c = M.contract("SemLock.__getstate__", props=["C14"])
c.param("self", T.Ref("SemLock"))
c.ensures("pickle/state-is-handle-kind-maxvalue-name", "len(result) == 4 and result[0] is self._semlock.handle and result[1] == self._semlock.kind and "
          "result[2] == self._semlock.maxvalue and result[3] == self._semlock.name")
c.raises("pickle/only-outside-spawning", "RuntimeError")
c.raises_only("pickle/only-runtime-error")
c.modifies()

c = M.contract("SemLock.__setstate__", props=["C13", "C14"])
c.param("self", T.Ref("SemLock")).param("state", T.Tup(T.Obj, T.Int, T.Int, T.Str))
c.ensures("unpickle/attaches-to-the-same-kernel-object", "log_count('sem_rebuild') == 1 and self._semlock is log_arg('sem_rebuild', 0, 0) and "
          "self._semlock.handle is state[0] and self._semlock.kind == state[1] and self._semlock.maxvalue == state[2] and self._semlock.name == state[3]", prop="C14")
c.ensures("unpickle/a-copy-never-creates-registers-or-finalizes", "log_count('sem_create') == 0 and log_count('tracker_register') == 0 and log_count('finalize') == 0 and "
          "log_count('cleanup') == 0 and G.sem_created == old(G.sem_created)", prop="C13")
c.raises_only("unpickle/no-exception")
c.modifies("self._semlock")

# ---------------------------------------------------------------- C14: kinds and bounds
INIT = "call:SemLock.__init__"
c = M.contract("Semaphore.__init__", props=["C14"])
c.param("self", T.Ref("Semaphore")).param("value", T.Int, default=VInt(1))
c.ensures("ctor/semaphore-counts-from-value-without-bound", f"log_count('{INIT}') == 1 and log_arg('{INIT}', 0, 2) == SEMAPHORE and log_arg('{INIT}', 0, 3) == value and "
          f"log_arg('{INIT}', 0, 4) == SEM_VALUE_MAX and log_arg('{INIT}', 0, 1) is self"
          " and fresh(self._semlock) and self._semlock.kind == SEMAPHORE and self._semlock.value0 == value and self._semlock.maxvalue == SEM_VALUE_MAX and G.sem_val[self._semlock] == value and forall(Int, lambda s: implies(s != obj_id(self._semlock), G.sem_val[s] == old(G.sem_val[s])))")
c.raises("ctor/creation-errors-propagate", "BaseException")
c.ensures("a-successful-construction-unlinks-nothing", "G.cleanup_semlock == old(G.cleanup_semlock) and G.cleanup_seq == old(G.cleanup_seq)")
c.modifies("self._semlock", "self.name", "G.sem_created", "G.sem_val", "G.cleanup_semlock", "G.cleanup_seq")
c = M.contract("BoundedSemaphore.__init__", props=["C14"])
c.param("self", T.Ref("BoundedSemaphore")).param("value", T.Int, default=VInt(1))
c.ensures("ctor/bounded-semaphore-refuses-release-above-value", f"log_count('{INIT}') == 1 and log_arg('{INIT}', 0, 2) == SEMAPHORE and log_arg('{INIT}', 0, 3) == value and "
          f"log_arg('{INIT}', 0, 4) == value and log_arg('{INIT}', 0, 1) is self"
          " and fresh(self._semlock) and self._semlock.kind == SEMAPHORE and self._semlock.value0 == value and self._semlock.maxvalue == value and G.sem_val[self._semlock] == value and forall(Int, lambda s: implies(s != obj_id(self._semlock), G.sem_val[s] == old(G.sem_val[s])))")
c.raises("ctor/creation-errors-propagate", "BaseException")
c.ensures("a-successful-construction-unlinks-nothing", "G.cleanup_semlock == old(G.cleanup_semlock) and G.cleanup_seq == old(G.cleanup_seq)")
c.modifies("self._semlock", "self.name", "G.sem_created", "G.sem_val", "G.cleanup_semlock", "G.cleanup_seq")
c = M.contract("Lock.__init__", props=["C14"])
c.param("self", T.Ref("Lock"))
c.ensures("ctor/lock-is-a-binary-semaphore", f"log_count('{INIT}') == 1 and log_arg('{INIT}', 0, 2) == SEMAPHORE and log_arg('{INIT}', 0, 3) == 1 and log_arg('{INIT}', 0, 4) == 1"
          " and fresh(self._semlock) and self._semlock.kind == SEMAPHORE and self._semlock.value0 == 1 and self._semlock.maxvalue == 1 and G.sem_val[self._semlock] == 1 and forall(Int, lambda s: implies(s != obj_id(self._semlock), G.sem_val[s] == old(G.sem_val[s])))")
c.raises("ctor/creation-errors-propagate", "BaseException")
c.ensures("a-successful-construction-unlinks-nothing", "G.cleanup_semlock == old(G.cleanup_semlock) and G.cleanup_seq == old(G.cleanup_seq)")
c.modifies("self._semlock", "self.name", "G.sem_created", "G.sem_val", "G.cleanup_semlock", "G.cleanup_seq")
c = M.contract("RLock.__init__", props=["C14"])
c.param("self", T.Ref("RLock"))
c.ensures("ctor/rlock-is-a-recursive-mutex", f"log_count('{INIT}') == 1 and log_arg('{INIT}', 0, 2) == RECURSIVE_MUTEX and log_arg('{INIT}', 0, 3) == 1 and log_arg('{INIT}', 0, 4) == 1"
          " and fresh(self._semlock) and self._semlock.kind == RECURSIVE_MUTEX and self._semlock.value0 == 1 and self._semlock.maxvalue == 1 and G.sem_val[self._semlock] == 1 and forall(Int, lambda s: implies(s != obj_id(self._semlock), G.sem_val[s] == old(G.sem_val[s])))")
c.raises("ctor/creation-errors-propagate", "BaseException")
c.ensures("a-successful-construction-unlinks-nothing", "G.cleanup_semlock == old(G.cleanup_semlock) and G.cleanup_seq == old(G.cleanup_seq)")
c.modifies("self._semlock", "self.name", "G.sem_created", "G.sem_val", "G.cleanup_semlock", "G.cleanup_seq")

c = M.contract("SemLock.__enter__", props=["C14"])
c.param("self", T.Ref("SemLock"))
c.ensures("with/enter-acquires-blocking", "log_count('sem_acquire') == 1 and log_arg('sem_acquire', 0, 0) is self._semlock and result == True")
c.returns(T.Bool)
c.ensures("with/other-semaphores-keep-their-value", "forall(Int, lambda s: implies(s != obj_id(self._semlock), G.sem_val[s] == old(G.sem_val[s])))")
c.raises_only("with/no-exception")
c.modifies("G.sem_acq", "G.sem_val")
c = M.contract("SemLock.__exit__", props=["C14"])
c.param("self", T.Ref("SemLock")).varargs("args")
c.ensures("with/exit-releases-once", "log_count('sem_release') == 1 and log_arg('sem_release', 0, 0) is self._semlock")
c.raises("with/release-may-be-refused", "ValueError")
c.ensures("with/other-semaphores-keep-their-value", "forall(Int, lambda s: implies(s != obj_id(self._semlock), G.sem_val[s] == old(G.sem_val[s])))")
c.raises("with/other-semaphores-keep-their-value-on-refusal", "ValueError", "forall(Int, lambda s: implies(s != obj_id(self._semlock), G.sem_val[s] == old(G.sem_val[s])))")
c.raises_only("with/only-valueerror")
c.modifies("G.sem_rel", "G.sem_val")


# ---------------------------------------------------------------- Condition (sequential contracts; the interleaving clauses of C14 are not claimed)
LK = "self._lock._semlock"
SL = "self._sleeping_count._semlock"
WK = "self._woken_count._semlock"
WS = "self._wait_semaphore._semlock"
DISTINCT = f"{LK} is not {SL} and {LK} is not {WK} and {LK} is not {WS} and {SL} is not {WK} and {SL} is not {WS} and {WK} is not {WS}"


def delta(g, sem):
    return f"(G.{g}[{sem}] - old(G.{g}[{sem}]))"


c = M.contract("Condition.__init__", props=["C14"])
c.param("self", T.Ref("Condition")).param("lock", T.Ref("SemLock", nullable=True), default=NONE)
c.ensures("cond/three-fresh-zero-semaphores-and-the-given-lock",
          "implies(lock is not None, self._lock is lock) and fresh(self._sleeping_count) and fresh(self._woken_count) and fresh(self._wait_semaphore) and "
          "self._sleeping_count is not self._woken_count and self._woken_count is not self._wait_semaphore and self._sleeping_count is not self._wait_semaphore and "
          "count_events('call:Semaphore.__init__', lambda r, s, v: v == 0) == 3")
c.ensures("cond/representation-invariant-established-with-all-three-counters-at-zero",
          f"{DISTINCT} and G.sem_val[{SL}] == 0 and G.sem_val[{WK}] == 0 and G.sem_val[{WS}] == 0 and "
          f"forall(Int, lambda s: implies(not fresh(the(s)), G.sem_val[s] == old(G.sem_val[s])))" if False else
          f"{DISTINCT} and G.sem_val[{SL}] == 0 and G.sem_val[{WK}] == 0 and G.sem_val[{WS}] == 0 and "
          f"implies(lock is not None, G.sem_val[{LK}] == old(G.sem_val[lock._semlock]))")
c.ensures("cond/default-lock-is-a-recursive-lock", "implies(lock is None, fresh(self._lock) and log_count('call:RLock.__init__') == 1)")
c.raises("cond/creation-errors-propagate", "BaseException")
c.ensures("a-successful-construction-unlinks-nothing", "G.cleanup_semlock == old(G.cleanup_semlock) and G.cleanup_seq == old(G.cleanup_seq)")
c.modifies("self._lock", "self._sleeping_count", "self._woken_count", "self._wait_semaphore", "G.sem_created", "G.sem_val", "G.cleanup_semlock", "G.cleanup_seq")

c = M.contract("Condition._make_methods", props=["C14"])
c.param("self", T.Ref("Condition"))
c.ensures("methods/acquire-and-release-forward-to-the-lock",
          "log_count('bind_method') == 2 and "
          "exists_event('bind_method', lambda o, n, m: o is self and n == 'acquire' and is_bound(m, self._lock._semlock, 'acquire')) and "
          "exists_event('bind_method', lambda o, n, m: o is self and n == 'release' and is_bound(m, self._lock._semlock, 'release'))")
c.raises_only("methods/no-exception")
c.modifies()

c = M.contract("Condition.wait", props=["C14"])
c.param("self", T.Ref("Condition")).param("timeout", T.Opt(T.Real), default=NONE)
c.requires("distinct-semaphores", DISTINCT)
c.returns(T.Bool)
COUNT = "log_arg('count', 0, 1)"
c.ensures("wait/announces-sleep-then-releases-the-lock-as-often-as-held",
          f"{delta('sem_rel', SL)} == 1 and {delta('sem_rel', LK)} == {COUNT}")
c.ensures("wait/returns-holding-the-lock-exactly-as-before", f"{delta('sem_acq', LK)} == {COUNT} and {delta('sem_rel', WK)} == 1")
c.ensures("wait/reports-the-verdict-of-the-wait-semaphore", f"{delta('sem_acq', WS)} == ite(result, 1, 0)")
c.raises("wait/not-owner-changes-nothing", "AssertionError",
         post=f"{delta('sem_rel', SL)} == 0 and {delta('sem_rel', LK)} == 0 and {delta('sem_acq', LK)} == 0 and {delta('sem_rel', WK)} == 0")
c.raises("wait/a-refused-release-propagates", "ValueError")
c.raises_only("wait/only-those")
c.modifies("G.sem_rel", "G.sem_acq", "G.sem_val")
S.contracts["_SemLock._count"].event("count", "self", "result")
i = M.invariant("Condition.wait", 0, "for _ in range(count):")
i.inv("released-so-far", f"G.sem_rel[{LK}] == at_entry(G.sem_rel[{LK}]) + __i0")
# a waiter must be counted as sleeping *before* it lets go of the lock: a notifier that gets the lock in between would otherwise see no sleeper and hand out no
# wake-up (lost wake-up: "every waiter that has not timed out is woken by a later notify_all")
i.inv("registered-as-a-sleeper-before-the-lock-is-released", f"G.sem_rel[{SL}] == old(G.sem_rel[{SL}]) + 1")
i.inv("others-untouched", f"G.sem_rel[{SL}] == at_entry(G.sem_rel[{SL}]) and G.sem_rel[{WK}] == at_entry(G.sem_rel[{WK}]) and G.sem_acq == at_entry(G.sem_acq)")
i = M.invariant("Condition.wait", 1, "for _ in range(count):")
i.inv("reacquired-so-far", f"G.sem_acq[{LK}] == at_entry(G.sem_acq[{LK}]) + __i1")
i.inv("others-untouched", f"G.sem_rel == at_entry(G.sem_rel) and G.sem_acq[{WS}] == at_entry(G.sem_acq[{WS}])")

c = M.contract("Condition.notify", props=["C14"])
c.param("self", T.Ref("Condition"))
c.requires("distinct-semaphores", DISTINCT)
c.ensures("notify/wakes-at-most-one-and-exactly-one-iff-a-sleeper-token-was-taken",
          f"{delta('sem_rel', WS)} <= 1 and tail({delta('sem_rel', WS)} == count_events('sem_acquire', lambda s, b, t, r: s is {SL} and r))")
c.ensures("notify/waits-for-the-woken-sleeper", f"tail(implies({delta('sem_rel', WS)} == 1, exists_event('sem_acquire', lambda s, b, t, r: s is {WK} and truthy(b) and r)))")
c.raises("notify/not-owner-or-stale-wakeup", "AssertionError")
c.raises("notify/a-refused-release-propagates", "ValueError")
c.raises_only("notify/only-those")
c.modifies("G.sem_rel", "G.sem_acq", "G.sem_val")
i = M.invariant("Condition.notify", 0, "while self._woken_count.acquire(False):")
i.inv("rezero-pairs-each-woken-token-with-a-sleeping-token", f"G.sem_acq[{WK}] - old(G.sem_acq[{WK}]) == G.sem_acq[{SL}] - old(G.sem_acq[{SL}]) + 0 and "
      f"G.sem_rel == old(G.sem_rel) and G.sem_acq[{WS}] == old(G.sem_acq[{WS}])")
i.inv("no-stale-wakeup-token", f"G.sem_val[{WS}] == 0")

S.contracts[f"{SY}:Condition.notify"].ensures("notify/wait-semaphore-left-at-zero", f"G.sem_val[{WS}] == 0")
c = M.contract("Condition.notify_all", props=["C14"])
c.param("self", T.Ref("Condition"))
c.requires("distinct-semaphores", DISTINCT)
c.ensures("notify-all/releases-only-the-wait-semaphore", f"{delta('sem_rel', LK)} == 0 and {delta('sem_rel', SL)} == 0 and {delta('sem_rel', WK)} == 0 and {delta('sem_rel', WS)} >= 0")
c.ensures("notify-all/one-wakeup-per-sleeper-token-and-one-woken-token-awaited-per-wakeup",
          f"{delta('sem_rel', WS)} <= {delta('sem_acq', SL)} and {delta('sem_acq', WK)} >= {delta('sem_rel', WS)}")
c.ensures("notify-all/wait-semaphore-left-at-zero", f"G.sem_val[{WS}] == 0")
c.raises("notify-all/not-owner-or-stale-wakeup", "AssertionError")
c.raises("notify-all/a-refused-release-propagates", "ValueError")
c.raises_only("notify-all/only-those")
c.modifies("G.sem_rel", "G.sem_acq", "G.sem_val")
i = M.invariant("Condition.notify_all", 0, "while self._woken_count.acquire(False):")
i.inv("rezero-pairs-tokens", f"G.sem_rel == old(G.sem_rel) and G.sem_acq[{WS}] == old(G.sem_acq[{WS}]) and "
      f"G.sem_acq[{WK}] - old(G.sem_acq[{WK}]) == G.sem_acq[{SL}] - old(G.sem_acq[{SL}]) and G.sem_acq[{WK}] >= old(G.sem_acq[{WK}])")
i.inv("no-stale-wakeup-token", f"G.sem_val[{WS}] == 0")
i = M.invariant("Condition.notify_all", 1, "while self._sleeping_count.acquire(False):")
i.inv("one-release-per-sleeper-taken", f"sleepers >= 0 and G.sem_rel[{WS}] == at_entry(G.sem_rel[{WS}]) + sleepers and "
      f"G.sem_acq[{SL}] == at_entry(G.sem_acq[{SL}]) + sleepers and G.sem_acq[{WK}] == at_entry(G.sem_acq[{WK}])")
i.inv("releases-only-the-wait-semaphore", f"forall(Ref('_SemLock'), lambda s: implies(s is not {WS}, G.sem_rel[s] == at_entry(G.sem_rel[s])))")
i.inv("one-token-per-wakeup", f"G.sem_val[{WS}] == sleepers")
i = M.invariant("Condition.notify_all", 2, "for _ in range(sleepers):")
i.inv("one-woken-token-per-sleeper", f"G.sem_acq[{WK}] == at_entry(G.sem_acq[{WK}]) + __i2 and G.sem_rel == at_entry(G.sem_rel) and "
      f"G.sem_acq[{SL}] == at_entry(G.sem_acq[{SL}])")
i = M.invariant("Condition.notify_all", 3, "while self._wait_semaphore.acquire(False):")
i.inv("only-drains-the-wait-semaphore", f"G.sem_rel == at_entry(G.sem_rel) and G.sem_acq[{WK}] == at_entry(G.sem_acq[{WK}]) and G.sem_acq[{SL}] == at_entry(G.sem_acq[{SL}])")


# ---------------------------------------------------------------- Condition as a context manager, wait_for, Event
c = M.contract("Condition.__enter__", props=["C14"])
c.param("self", T.Ref("Condition"))
c.ensures("cond/enter-acquires-its-lock", "log_count('call:SemLock.__enter__') == 1 and log_arg('call:SemLock.__enter__', 0, 1) is self._lock")
c.returns(T.Bool)
c.ensures("cond/other-semaphores-keep-their-value", "forall(Int, lambda s: implies(s != obj_id(self._lock._semlock), G.sem_val[s] == old(G.sem_val[s])))")
c.raises_only("cond/no-exception")
c.modifies("G.sem_acq", "G.sem_val")
c = M.contract("Condition.__exit__", props=["C14"])
c.param("self", T.Ref("Condition")).varargs("args")
c.ensures("cond/exit-releases-its-lock", "log_count('call:SemLock.__exit__') == 1 and log_arg('call:SemLock.__exit__', 0, 1) is self._lock")
c.raises("cond/release-may-be-refused", "ValueError")
c.ensures("cond/other-semaphores-keep-their-value", "forall(Int, lambda s: implies(s != obj_id(self._lock._semlock), G.sem_val[s] == old(G.sem_val[s])))")
c.raises("cond/other-semaphores-keep-their-value-on-refusal", "ValueError", "forall(Int, lambda s: implies(s != obj_id(self._lock._semlock), G.sem_val[s] == old(G.sem_val[s])))")
c.raises_only("cond/only-valueerror")
c.modifies("G.sem_rel", "G.sem_val")

FLAG = "self._flag._semlock"
EV_DISTINCT = (f"{FLAG} is not self._cond._lock._semlock and {FLAG} is not self._cond._sleeping_count._semlock and "
               f"{FLAG} is not self._cond._woken_count._semlock and {FLAG} is not self._cond._wait_semaphore._semlock")
COND_DISTINCT = DISTINCT.replace("self.", "self._cond.")
EV_DISTINCT = EV_DISTINCT + " and " + COND_DISTINCT
MON = f"G.sem_val[{FLAG}] >= 0 and G.sem_val[{FLAG}] <= 1"
# what other threads may do to the flag while the condition's lock is released inside wait(): anything that keeps 0 <= flag <= 1
cw = S.contracts[f"{SY}:Condition.wait"]
cw.note("the semaphore values are havocked by wait(): other threads run while the lock is released")

c = M.contract("Event.is_set", props=["C14"])
c.param("self", T.Ref("Event"))
c.rely("flag-is-zero-or-one", MON, "A-monitor")
c.requires("distinct-semaphores", EV_DISTINCT)
c.returns(T.Bool)
c.ensures("event/is-set-reads-the-flag-and-leaves-it", f"result == (old(G.sem_val[{FLAG}]) >= 1) and G.sem_val[{FLAG}] == old(G.sem_val[{FLAG}])")
c.raises("event/lock-release-may-be-refused", "ValueError")
c.modifies("G.sem_rel", "G.sem_acq", "G.sem_val")
c = M.contract("Event.set", props=["C14"])
c.param("self", T.Ref("Event"))
c.rely("flag-is-zero-or-one", MON, "A-monitor")
c.requires("distinct-semaphores", EV_DISTINCT)
c.ensures("event/set-leaves-the-flag-at-one-and-notifies-all",
          f"tail(log_count('call:Condition.notify_all') == 1) and log_arg('call:Condition.notify_all', 0, 1) is self._cond")
c.raises("event/errors-of-notify-propagate", "Exception")
c.modifies("G.sem_rel", "G.sem_acq", "G.sem_val")
c.at_call(f"{SY}:Condition.notify_all", "flag-is-one-when-the-waiters-are-woken", f"G.sem_val[{FLAG}] == 1", prop="C14")
c = M.contract("Event.clear", props=["C14"])
c.param("self", T.Ref("Event"))
c.rely("flag-is-zero-or-one", MON, "A-monitor")
c.requires("distinct-semaphores", EV_DISTINCT)
c.ensures("event/clear-leaves-the-flag-at-zero", f"G.sem_val[{FLAG}] == 0")
c.raises("event/lock-release-may-be-refused", "ValueError")
c.modifies("G.sem_rel", "G.sem_acq", "G.sem_val")
c = M.contract("Event.wait", props=["C14"])
c.param("self", T.Ref("Event")).param("timeout", T.Opt(T.Real), default=NONE)
c.rely("flag-is-zero-or-one", MON, "A-monitor")
c.requires("distinct-semaphores", EV_DISTINCT)
c.returns(T.Bool)
c.ensures("event/wait-returns-true-iff-the-flag-is-set-at-its-final-test", f"result == (G.sem_val[{FLAG}] >= 1)")
c.ensures("event/sleeps-only-if-the-flag-was-found-clear", f"implies(log_count('call:Condition.wait') == 1, old(G.sem_val[{FLAG}]) == 0) and "
          f"implies(old(G.sem_val[{FLAG}]) >= 1, log_count('call:Condition.wait') == 0)")
c.raises("event/errors-of-the-condition-propagate", "Exception")
c.modifies("G.sem_rel", "G.sem_acq", "G.sem_val")
S.assumption("A-monitor", "an Event's flag semaphore holds 0 or 1 whenever its condition's lock is acquired (every access is inside `with self._cond`)")

c = M.contract("Condition.wait_for", props=["C14"])
c.param("self", T.Ref("Condition")).param("predicate", T.FnT).param("timeout", T.Opt(T.Real), default=NONE)
c.requires("callable", "predicate is not None")
c.requires("distinct-semaphores", DISTINCT)
c.ensures("wait-for/returns-the-last-predicate-value", "True")
c.raises("wait-for/errors-propagate", "BaseException")
c.modifies("G.sem_rel", "G.sem_acq", "G.sem_val")
c.assumes("A-user")
i = M.invariant("Condition.wait_for", 0, "while not result:")
i.inv("trivial", "True")
i.iter_post("re-evaluates-the-predicate-after-every-wait", "log_count('call:Condition.wait') == 1 and count_events('user_call', lambda f: f is predicate) == 1 and "
            "log_before('call:Condition.wait', 'user_call')")

c = M.contract("Event.__init__", props=["C14"])
c.param("self", T.Ref("Event"))
c.ensures("event/starts-clear-over-a-fresh-condition-with-a-plain-lock",
          f"G.sem_val[{FLAG}] == 0 and {EV_DISTINCT} and self._cond._lock._semlock.kind == SEMAPHORE and self._cond._lock._semlock.maxvalue == 1")
c.raises("event/creation-errors-propagate", "BaseException")
c.ensures("a-successful-construction-unlinks-nothing", "G.cleanup_semlock == old(G.cleanup_semlock) and G.cleanup_seq == old(G.cleanup_seq)")
c.modifies("self._cond", "self._flag", "G.sem_created", "G.sem_val", "G.cleanup_semlock", "G.cleanup_seq")

# the module-level name generator installed on multiprocessing.synchronize.SemLock (loky/backend/__init__.py)
MB = Module("loky.backend")
c = MB.contract("_make_name", props=["C13"])
c.returns(T.Str)
c.ensures("names/in-the-loky-namespace-of-this-process", "result.startswith('/loky-' + str(os.getpid()) + '-')")
c.raises_only("names/no-exception")
c.modifies()

# LokyContext factory methods (loky/backend/context.py): each builds the loky primitive of the same name with the caller's arguments
MC = Module("loky.backend.context")
MC.cls("LokyContext", {})
for nm, params, argspec in (("Semaphore", [("value", T.Int, VInt(1))], "v == value"), ("BoundedSemaphore", [("value", T.Int, None)], "v == value"),
                            ("Lock", [], None), ("RLock", [], None), ("Event", [], None)):
    c = MC.contract(f"LokyContext.{nm}", props=["C14"])
    c.param("self", T.Ref("LokyContext"))
    for pn, pt, dflt in params:
        c.param(pn, pt, **({"default": dflt} if dflt is not None else {}))
    c.returns(T.Ref(nm), fresh=True)
    lam = f"lambda r, s, v: s is result and {argspec}" if argspec else "lambda r, s: s is result"
    c.ensures(f"factory/builds-one-loky-{nm}-with-the-callers-arguments", f"cls_is(result, '{nm}') and count_events('call:{nm}.__init__', {lam}) == 1")
    c.raises("factory/creation-errors-propagate", "BaseException")
    c.ensures("a-successful-construction-unlinks-nothing", "G.cleanup_semlock == old(G.cleanup_semlock) and G.cleanup_seq == old(G.cleanup_seq)")
    c.modifies("G.sem_created", "G.sem_val", "G.cleanup_semlock", "G.cleanup_seq")
c = MC.contract("LokyContext.Condition", props=["C14"])
c.param("self", T.Ref("LokyContext")).param("lock", T.Ref("SemLock", nullable=True), default=NONE)
c.returns(T.Ref("Condition"), fresh=True)
c.ensures("factory/builds-one-loky-Condition-over-the-callers-lock", "cls_is(result, 'Condition') and implies(lock is not None, result._lock is lock) and "
          "count_events('call:Condition.__init__', lambda r, s, l: s is result) == 1")
c.raises("factory/creation-errors-propagate", "BaseException")
c.ensures("a-successful-construction-unlinks-nothing", "G.cleanup_semlock == old(G.cleanup_semlock) and G.cleanup_seq == old(G.cleanup_seq)")
c.modifies("G.sem_created", "G.sem_val", "G.cleanup_semlock", "G.cleanup_seq")

# monitor discipline (what makes the rely A-monitor true of loky's own code): the flag is read by take-and-put-back, which is atomic only because every
# operation on the flag semaphore, in every method, happens between entering and leaving the event's condition
IN_MONITOR = "implies(arg_self is self._flag._semlock, log_count('call:Condition.__enter__') == log_count('call:Condition.__exit__') + 1)"
for _m in ("Event.is_set", "Event.set", "Event.clear", "Event.wait"):
    for _op in ("acquire", "release"):
        S.contracts[f"{SY}:{_m}"].at_call(f"_SemLock.{_op}", "flag-semaphore-touched-only-inside-the-events-condition", IN_MONITOR, prop="C14")
