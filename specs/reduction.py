"""Contracts for loky/backend/reduction.py (C15)."""
import z3
from pyvc.spec import SCHEMA as S, Module
from pyvc import types as T
from pyvc.values import VBool, NONE, VStr

M = Module("loky.backend.reduction")
RED = "loky.backend.reduction"

M.glob("_loky_pickler_name", T.Opt(T.Str), doc="name of the pickler module in force (None before the first set_loky_pickler)")
M.glob("_LokyPickler", T.Obj, doc="the CustomizablePickler class in force")
M.glob("ENV_LOKY_PICKLER", T.Str, doc="os.environ.get('LOKY_PICKLER', DEFAULT_ENV) at import")
M.glob("_dispatch_table", T.Map(T.Obj, T.Obj), doc="loky's own process-wide reducer registry")

c = M.contract("get_loky_pickler_name", props=["C15"])
c.returns(T.Opt(T.Str))
c.ensures("name/current", "result == _loky_pickler_name")
c.modifies()

M.cls("CustomizablePickler", {"dispatch_table": T.Map(T.Obj, T.Obj), "_member_dt": T.Map(T.Obj, T.Obj, nullable=True)},
      bases=["PicklerBase"])
S.cls("PicklerBase", {}, external=True)

c = S.ext("importlib.import_module", cite="importlib.import_module(name): the module, or ImportError")
c.param("name", T.Str).returns(T.Obj).modifies()
c.may_raise.append(("ImportError", None))

NORM = "ite(ite(is_none(loky_pickler), ENV_LOKY_PICKLER, the(loky_pickler)) == '', 'cloudpickle', ite(is_none(loky_pickler), ENV_LOKY_PICKLER, the(loky_pickler)))"
c = M.contract("set_loky_pickler", props=["C15"])
c.param("loky_pickler", T.Opt(T.Str), default=NONE)
c.ensures("name/selected-is-normalised-argument", f"_loky_pickler_name == {NORM}")
c.ensures("name/noop-when-unchanged", f"implies(old(_loky_pickler_name) == {NORM}, _LokyPickler is old(_LokyPickler))")
c.raises("name/failure-leaves-selection", "Exception",
         post="_loky_pickler_name == old(_loky_pickler_name) and _LokyPickler is old(_LokyPickler)")
c.raises_only("name/only-import-errors")
c.modifies(f"glob:{RED}._loky_pickler_name", f"glob:{RED}._LokyPickler")
c.twin("name/selected-is-normalised-argument", "_loky_pickler_name == old(_loky_pickler_name)")
c.cover("default-from-env", "is_none(loky_pickler)")
c.cover("empty-means-cloudpickle", "not is_none(loky_pickler) and the(loky_pickler) == ''")
