"""Contracts for loky/backend/reduction.py (C15)."""
import z3
from pyvc.spec import SCHEMA as S, Module
from pyvc import types as T
from pyvc.values import VBool, NONE, VStr

M = Module("loky.backend.reduction")
RED = "loky.backend.reduction"

M.glob("_loky_pickler_name", T.Opt(T.Str), doc="name of the pickler module in force (None before the first set_loky_pickler)")
M.glob("_LokyPickler", T.Obj, doc="the CustomizablePickler class in force")
M.glob("ENV_LOKY_PICKLER", T.Str, doc="os.environ.get('LOKY_PICKLER', DEFAULT_ENV) at import")
M.glob("_dispatch_table", T.Map(T.Obj, T.Obj), doc="loky's own process-wide reducer registry")

c = M.contract("get_loky_pickler_name", props=["C15"])
c.returns(T.Opt(T.Str))
c.ensures("name/current", "result == _loky_pickler_name")
c.modifies()

M.cls("CustomizablePickler", {"dispatch_table": T.Map(T.Obj, T.Obj), "_loky_pickler_cls": T.Obj},
      bases=["PicklerBase"], src_path="set_loky_pickler.CustomizablePickler")
S.cls("PicklerBase", {}, external=True)

c = S.ext("importlib.import_module", cite="importlib.import_module(name): the module, or ImportError")
c.param("name", T.Str).returns(T.Obj).modifies()
c.may_raise.append(("ImportError", None))

NORM = "ite(ite(is_none(loky_pickler), ENV_LOKY_PICKLER, the(loky_pickler)) == '', 'cloudpickle', ite(is_none(loky_pickler), ENV_LOKY_PICKLER, the(loky_pickler)))"
c = M.contract("set_loky_pickler", props=["C15"])
c.param("loky_pickler", T.Opt(T.Str), default=NONE)
c.ensures("name/selected-is-normalised-argument", f"_loky_pickler_name == {NORM}")
c.ensures("name/noop-when-unchanged", f"implies(old(_loky_pickler_name) == {NORM}, _LokyPickler is old(_LokyPickler))")
c.raises("name/failure-leaves-selection", "Exception",
         post="_loky_pickler_name == old(_loky_pickler_name) and _LokyPickler is old(_LokyPickler)")
c.raises_only("name/only-import-errors")
c.modifies(f"glob:{RED}._loky_pickler_name", f"glob:{RED}._LokyPickler")
c.twin("name/selected-is-normalised-argument", "_loky_pickler_name == old(_loky_pickler_name)")
c.cover("default-from-env", "is_none(loky_pickler)")
c.cover("empty-means-cloudpickle", "not is_none(loky_pickler) and the(loky_pickler) == ''")


# ======================================================================
# C15: registries, built-in reducers, the customizable pickler
from specs.externals import _impl
S.glob("<ext>", "copyreg.dispatch_table", T.Map(T.Obj, T.Obj), doc="the process-wide copyreg registry")
S.config_hasattr["CustomizablePickler.dispatch_table"] = z3.Bool("cfg!hasattr:pickler-class-has-dispatch_table")
S.ext_consts["pickle.HIGHEST_PROTOCOL"] = __import__("pyvc.values", fromlist=["VInt"]).VInt(5)
S.ext_consts["types.MemberDescriptorType"] = __import__("pyvc.values", fromlist=["VConst"]).VConst("types.MemberDescriptorType")
DT = T.Map(T.Obj, T.Obj)

c = M.contract("register", props=["C15"])
c.param("type_", T.Obj).param("reduce_function", T.Obj)
c.ensures("registry/only-that-entry", "type_ in _dispatch_table and _dispatch_table[type_] is reduce_function and "
          "forall(Obj, lambda k: implies(k is not type_, (k in _dispatch_table) == old(k in _dispatch_table) and _dispatch_table[k] is old(_dispatch_table[k])))")
c.raises_only("registry/no-exception")
c.modifies("contents(_dispatch_table)")

c = M.contract("_reduce_method", props=["C15"])
c.param("m", T.Obj)
# from the property ("bound methods, class methods ... round-trip to equal behaviour"): the method is rebuilt from the very function and the very object it binds;
# a look-up of the function's *name* on the object finds another function when the method was reached through super(), through an alias whose name was
# re-defined, or is name-mangled (my first clause had been copied from the code: getattr(self, name))
c.ensures("builtin/bound-method-rebuilt-from-its-own-function-and-object-not-looked-up-by-name",
          "implies(attr(m, '__self__') is not None and not isinstance(attr(m, '__self__'), type), result[0] is _rebuild_method and "
          "result[1][0] is attr(m, '__func__') and result[1][1] is attr(m, '__self__'))")
# a class method is still looked up by name on its class (the plain function behind it cannot be pickled by reference by the pickle back-end); equal behaviour
# there rests on the class not shadowing the name (recorded under not_covered)
c.ensures("builtin/class-method-reduces-to-getattr-on-its-class",
          "implies(attr(m, '__self__') is not None and isinstance(attr(m, '__self__'), type), result[0] is getattr and result[1][0] is attr(m, '__self__') and "
          "result[1][1] is attr(attr(m, '__func__'), '__name__'))")
c.replay_for("builtin/bound-method-rebuilt-from-its-own-function-and-object-not-looked-up-by-name", "bound_method_round_trip")
c.ensures("builtin/unbound-reduces-to-getattr-on-its-class",
          "implies(attr(m, '__self__') is None, result[0] is getattr and result[1][0] is attr(m, '__class__') and result[1][1] is attr(attr(m, '__func__'), '__name__'))")
c.raises_only("builtin/no-exception")
c.modifies()

c = S.ext("types.MethodType", cite="types.MethodType(function, instance): the bound method object (calling it calls function(instance, ...))")
c.param("function", T.Obj).param("instance", T.Obj).returns(T.Obj).event("new_method", "function", "instance", "result").modifies()
c = M.contract("_rebuild_method", props=["C15"])
c.param("func", T.Obj).param("obj", T.Obj)
c.returns(T.Obj)
c.ensures("builtin/rebuilds-the-method-binding-that-function-to-that-object",
          "log_count('new_method') == 1 and log_arg('new_method', 0, 0) is func and log_arg('new_method', 0, 1) is obj and result is log_arg('new_method', 0, 2)")
c.raises_only("builtin/no-exception")
c.modifies()

c = M.contract("_reduce_method_descriptor", props=["C15"])
c.param("m", T.Obj)
c.ensures("builtin/descriptor-reduces-to-getattr-on-its-class",
          "result[0] is getattr and result[1][0] is attr(m, '__objclass__') and result[1][1] is attr(m, '__name__')")
c.raises_only("builtin/no-exception")
c.modifies()

c = M.contract("_reduce_partial", props=["C15"])
c.param("p", T.Obj)
c.ensures("builtin/partial-reduces-to-func-args-keywords",
          "result[0] is _rebuild_partial and result[1][0] is attr(p, 'func') and result[1][1] is attr(p, 'args') and "
          "implies(truthy(attr(p, 'keywords')), result[1][2] is attr(p, 'keywords'))")
c.ensures("builtin/partial-without-keywords-gets-an-empty-dict",
          "implies(not truthy(attr(p, 'keywords')), len(result[1][2]) == 0)")
c.raises_only("builtin/no-exception")
c.modifies()

c = M.contract("_rebuild_partial", props=["C15"])
c.param("func", T.Obj).param("args", T.Obj).param("keywords", T.Obj)
c.ensures("builtin/partial-rebuilt-from-the-same-parts", "log_count('partial') == 1 and log_arg('partial', 0, 0) is func and "
          "log_arg('partial', 0, 1) is args and log_arg('partial', 0, 2) is keywords")
c.raises_only("builtin/no-exception")
c.modifies()


@_impl("functools.partial", cite="functools.partial(func, *args, **keywords): a callable with .func/.args/.keywords equal to the arguments")
def _partial(eng, st, self_v, args, kwargs, node):
    from pyvc.values import VObj, fresh_const
    from pyvc.calls import Star
    func = args[0]
    star = [a for a in args[1:] if isinstance(a, Star)]
    rest = star[0].v if star else __import__("pyvc.values", fromlist=["VTuple"]).VTuple([a for a in args[1:]])
    kw = kwargs.get("**", NONE) if "**" in kwargs else st.new_loc("dict", dict(kwargs))
    st.emit("partial", [func, rest, kw], eng.site(node))
    return [eng.val(st, VObj(fresh_const("partial", T.IntS)))]


c = M.contract("get_loky_pickler", props=["C15"])
c.ensures("name/current-class", "result is _LokyPickler")
c.modifies()

# ---- the pickler: scoped customisation as a frame condition ---------------------------------
CP = "set_loky_pickler.CustomizablePickler"
HAS_CLS_DT = "cfg('hasattr:pickler-class-has-dispatch_table')"

c = M.contract(f"{CP}._set_dispatch_table", props=["C15", "C03"])
c.param("self", T.Ref("CustomizablePickler")).param("dispatch_table", DT)
c.ensures("pickler/table-installed", "self.dispatch_table is dispatch_table")
c.modifies("self.dispatch_table")
c.assumes("A-user")
i = S.invariant(f"{RED}:{CP}._set_dispatch_table", 0, "for ancestor_class in self._loky_pickler_cls.mro():")
i.inv("trivial", "True")

c = M.contract(f"{CP}.register", props=["C15", "C03"])
c.param("self", T.Ref("CustomizablePickler")).param("type", T.Obj).param("reduce_func", T.Obj)
c.ensures("pickler/register-writes-only-its-own-table",
          "type in self.dispatch_table and self.dispatch_table[type] is reduce_func and "
          "forall(Obj, lambda k: implies(k is not type, (k in self.dispatch_table) == old(k in self.dispatch_table) and "
          "self.dispatch_table[k] is old(self.dispatch_table[k])))")
c.raises_only("pickler/no-exception")
c.modifies("contents(self.dispatch_table)")

c = M.contract(f"{CP}.__init__", props=["C15", "C03"])
c.param("self", T.Ref("CustomizablePickler")).param("writer", T.Obj).param("reducers", T.Map(T.Obj, T.Obj, nullable=True), default=NONE)
c.param("protocol", T.Obj, default=__import__("pyvc.values", fromlist=["VInt"]).VInt(5))
c.free("loky_pickler_cls", T.Obj)
BASE = f"ite({HAS_CLS_DT}, old(self.dispatch_table), copyreg.dispatch_table)"
c.ensures("pickler/table-is-a-new-dictionary", "fresh(self.dispatch_table)")
c.ensures("pickler/overlay-base-then-loky-then-user",
          "forall(Obj, lambda k: (k in self.dispatch_table) == (old(k in " + BASE + ") or old(k in _dispatch_table) or (reducers is not None and old(k in reducers))))")
c.ensures("pickler/user-reducers-win-then-loky-then-base",
          "forall(Obj, lambda k: implies(k in self.dispatch_table, self.dispatch_table[k] is "
          "ite(reducers is not None and old(k in reducers), old(reducers[k]), ite(old(k in _dispatch_table), old(_dispatch_table[k]), old(" + BASE + "[k])))))")
c.raises("pickler/base-constructor-may-fail", "BaseException")
c.modifies("self.dispatch_table")
c.assumes("A-user")
c.note("the frame obligations generated for this contract are the non-interference claim: no dictionary that existed before the call "
       "(class-level tables, copyreg.dispatch_table, loky's _dispatch_table, the caller's reducers) is written")
i = S.invariant(f"{RED}:{CP}.__init__", 0, "for type, reduce_func in reducers.items():")
i.inv("table-still-the-new-one", "fresh(self.dispatch_table) and self.dispatch_table is at_entry(self.dispatch_table)")
i.inv("visited-reducers-installed", "forall(Obj, lambda k: implies(mem(__seen0, k), k in self.dispatch_table and self.dispatch_table[k] is reducers[k]))")
i.inv("others-as-after-the-loky-overlay",
      "forall(Obj, lambda k: implies(not mem(__seen0, k), (k in self.dispatch_table) == at_entry(k in self.dispatch_table) and "
      "self.dispatch_table[k] is at_entry(self.dispatch_table[k])))")

c = M.contract("dump", props=["C15"])
c.param("obj", T.Obj).param("file", T.Obj).param("reducers", T.Obj, default=NONE).param("protocol", T.Obj, default=NONE)
c.ensures("dump/one-pickler-with-the-given-reducers", "log_count('user_call') == 2 and log_arg('user_call', 0, 0) is obj(_LokyPickler)")
c.raises("dump/pickling-errors-propagate", "BaseException")
c.modifies()
c.assumes("A-user")

c = M.contract("dumps", props=["C15"])
c.param("obj", T.Obj).param("reducers", T.Obj, default=NONE).param("protocol", T.Obj, default=NONE)
c.returns(T.Obj)
c.ensures("dumps/delegates-with-the-same-reducers", "log_count('call:dump') == 1 and log_arg('call:dump', 0, 1) is obj and log_arg('call:dump', 0, 3) is reducers")
c.raises("dumps/pickling-errors-propagate", "BaseException")
c.modifies()
