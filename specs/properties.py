"""Per-property registry used by the check driver: extra (structural /
lemma) obligations, what is proved, what is not covered, assumptions."""

ASSUMPTIONS = {
    "A-float": "math.ceil(q / p) is the mathematical ceiling of the rational q/p (exact in CPython whenever os_cpu_count * period < 2**52)",
    "A-warn": "warnings.warn does not raise (warnings are not errors in this process)",
    "A-user": "user callables (tasks, initializers, callbacks, cleanup functions) do not modify loky's internal state",
    "A-atomic": "one manager-thread method is atomic w.r.t. the manager-owned maps (pending/running/processes); interference of submit and of the feeder error path is not proved harmless",
    "A-async": "no asynchronous exception (KeyboardInterrupt between bytecodes, MemoryError) is modelled",
    "A-posix": "Linux/posix, CPython 3.12: branches on sys.platform == 'win32' / os.name != 'posix' are pruned",
    "A-kernel": "a worker's sentinel becomes readable iff the process is gone; pipe EOF iff all writers are gone; <=512-byte pipe writes are atomic",
    "A-env": "the kernel's cgroup files are well-formed (cpu.max has two tokens; quota/period are 'max' or integers) and LOKY_MAX_CPU_COUNT, when set, parses as an integer (otherwise cpu_count raises ValueError, as int() does)",
    "A-alias": "the manager thread's tables (processes, pending, running, management lock) are the very objects of the executor its weak reference points to: "
               "proved for the constructor (_ExecutorManagerThread.__init__ contract) and 'never reassigned afterwards' by a structural scan; what remains assumed is "
               "that the executor's own fields are not rebound while its manager runs (shutdown() sets some to None: covered by the 'healthy executor' relies)",
    "A-pids": "keys of the process table are the pids of started, un-reaped children; the OS gives no new child the pid of an un-reaped one",
    "A-psutil": "psutil's memory probe of the worker's own pid does not raise",
    "A-tracker-stable": "the resource tracker does not die between two consecutive liveness probes of one process launch",
    "A-kernel-sem": "_multiprocessing.SemLock implements a counting semaphore / recursive mutex as documented (value never negative, release refused above maxvalue, "
                    "mutex re-entrant for its owning thread only)",
    "A-running": "a result item or a feeder error concerns a future that dispatch marked RUNNING and that nobody resolved since (each call item is answered at most "
                 "once: worker contract; a RUNNING future cannot be cancelled by its owner)",
    "A-singleton": "the module-level singleton state is only touched under _executor_lock and satisfies its representation invariant at entry (re-established by every "
                   "return of the factory: induction over calls)",
    "A-yield": "while a polling loop sleeps, other threads change only the shared state named at the yield point",
    "A-progress": "eventual guarantees of the manager thread and the workers that the polling loops rely on: every pending job is eventually resolved; workers that "
                  "were sent a sentinel or time out leave the worker table; eventually every worker still in the table is running or the pool is flagged broken "
                  "(for workers the manager thread watches, i.e. it was woken after they were registered)",
    "A-iter": "an iterator is a finite sequence of items consumed from the front (zip(*iterables) runs over py_zip(iterables)); infinite or failing iterables are outside the claim",
    "A-monitor": "an Event's flag semaphore holds 0 or 1 whenever its condition's lock is acquired",
    "A-spawn": "queues do not send objects while a process object is being pickled for launch",
    "A-fds": "descriptors recorded in a Popen's keep list are open descriptors of this process",
    "A-finalize": "util.Finalize callbacks run when the object is collected or at interpreter exit",
}

COMMON_ABS = [
    "logging calls (mp.util.debug/info) are evaluated for their arguments and then treated as no-ops",
    "platform fixed to linux/posix, sys.version_info fixed to 3.12 (A-posix)",
]

NOT_APPLICABLE = {
    "C01": "liveness over all thread/process interleavings and crash points: function contracts have no notion of schedule, fairness or progress (DESIGN.md section 7, C01); its sequential necessary conditions are obligations of C02-C05",
}

PROPS = {}

PROPS["C17"] = dict(
    proved="cpu_count() == max(1, min(os, affinity, ceil(Q/P) if limited, override)) for every symbolic configuration "
           "(os count incl. None/0, sched_getaffinity present/absent/raising, psutil present/absent/with or without cpu_affinity, "
           "cgroup v2 / v1 / none, 'max' / <=0 / positive quota, any integer override), the only_physical_cores clause incl. "
           "cache states, probe success / zero / failure, exactly one warning on the first failing probe and none later; "
           "each helper against its own term of the formula; callers checked against callee contracts.",
    not_covered="float rounding of quota/period outside os_cpu_count*period < 2**52 (A-float); the probe's subprocess output "
                "parsing beyond 'returns an int >= 0 or raises'; Windows / macOS branches (A-posix).",
    assumptions=["A-float", "A-warn", "A-posix", "A-env"],
    abstractions=COMMON_ABS,
)



# ----------------------------------------------------------------------
# structural obligations: syntactic scans of the *current* source
import ast as _ast
import os as _os


def _scan(repo, rel):
    with open(_os.path.join(repo, rel), encoding="utf-8") as fh:
        return _ast.parse(fh.read())


def _ob(name, ok, detail, function=""):
    return {"name": name, "status": "unsat" if ok else "sat", "backend": "ast-scan", "secs": 0.0, "kind": "structural",
            "function": function, "path": [detail], "model": detail}


def scan_depth_assignments(repo, tier, seed):
    """C19: nothing but _process_worker assigns the module global _CURRENT_DEPTH."""
    tree = _scan(repo, "loky/process_executor.py")
    writers = []
    for fn in [n for n in _ast.walk(tree) if isinstance(n, _ast.FunctionDef)]:
        declares = any(isinstance(s, _ast.Global) and "_CURRENT_DEPTH" in s.names for s in _ast.walk(fn))
        if not declares:
            continue
        for n in _ast.walk(fn):
            tg = []
            if isinstance(n, _ast.Assign):
                tg = n.targets
            elif isinstance(n, (_ast.AugAssign, _ast.AnnAssign)):
                tg = [n.target]
            for t in tg:
                if isinstance(t, _ast.Name) and t.id == "_CURRENT_DEPTH":
                    writers.append(fn.name)
    tops = [n for n in tree.body if isinstance(n, _ast.Assign) and any(isinstance(t, _ast.Name) and t.id == "_CURRENT_DEPTH" for t in n.targets)]
    root_zero = len(tops) == 1 and isinstance(tops[0].value, _ast.Constant) and tops[0].value.value == 0
    out = [_ob("loky.process_executor:<module>:structural/only-the-worker-installs-the-depth", sorted(set(writers)) == ["_process_worker"],
               f"functions assigning _CURRENT_DEPTH: {sorted(set(writers))}"),
           _ob("loky.process_executor:<module>:structural/root-depth-is-zero", root_zero, "module-level `_CURRENT_DEPTH = 0`")]
    md = [n for n in tree.body if isinstance(n, _ast.Assign) and any(isinstance(t, _ast.Name) and t.id == "MAX_DEPTH" for t in n.targets)]
    ok = len(md) == 1 and _ast.unparse(md[0].value).replace('"', "'") == "int(os.environ.get('LOKY_MAX_DEPTH', 10))"
    out.append(_ob("loky.process_executor:<module>:structural/max-depth-from-environment", ok, _ast.unparse(md[0].value) if md else "missing"))
    return out


def scan_worker_spawn_sites(repo, tier, seed):
    """C18/C19: _adjust_process_count is the only place where a worker process is created."""
    sites = []
    for rel in ("loky/process_executor.py", "loky/reusable_executor.py"):
        tree = _scan(repo, rel)
        for fn in [n for n in _ast.walk(tree) if isinstance(n, _ast.FunctionDef)]:
            for n in _ast.walk(fn):
                if isinstance(n, _ast.Call):
                    for kw in n.keywords:
                        if kw.arg == "target" and isinstance(kw.value, _ast.Name) and kw.value.id == "_process_worker":
                            sites.append(f"{rel}:{fn.name}")
                    if isinstance(n.func, _ast.Name) and n.func.id == "_process_worker":
                        sites.append(f"{rel}:{fn.name}(direct call)")
    ok = sorted(set(sites)) == ["loky/process_executor.py:_adjust_process_count"]
    return [_ob("loky.process_executor:<module>:structural/single-worker-spawn-site", ok, f"sites creating workers: {sorted(set(sites))}")]


def scan_semaphore_sites(repo, tier, seed):
    """C13: kernel semaphores are created only inside SemLock.__init__ (which registers them) and unlinked only by SemLock._cleanup and
    the tracker's clean-up table; every primitive of synchronize.py is a SemLock or built from SemLocks."""
    create, unlink = [], []
    for dirpath, _dirs, files in _os.walk(_os.path.join(repo, "loky")):
        for fn_ in files:
            if not fn_.endswith(".py"):
                continue
            rel = _os.path.relpath(_os.path.join(dirpath, fn_), repo)
            tree = _scan(repo, rel)

            def walk(node, scope):
                for ch in _ast.iter_child_nodes(node):
                    sc = scope
                    if isinstance(ch, (_ast.FunctionDef, _ast.ClassDef)):
                        sc = scope + [ch.name]
                    if isinstance(ch, _ast.Call):
                        f = _ast.unparse(ch.func)
                        if f in ("_SemLock", "_multiprocessing.SemLock", "SemLockC"):
                            create.append(f"{rel}:{'.'.join(scope)}")
                    if isinstance(ch, (_ast.Name, _ast.Attribute)) and _ast.unparse(ch) in ("sem_unlink", "_multiprocessing.sem_unlink", "_sem_unlink") \
                            and isinstance(getattr(ch, "ctx", None), _ast.Load):
                        unlink.append(f"{rel}:{'.'.join(scope) or '<module>'}")
                    walk(ch, sc)
            walk(tree, [])
    ok_c = sorted(set(create)) == ["loky/backend/synchronize.py:SemLock.__init__"]
    # SemLock.__init__ since the F22 fix: its contract pins what it may unlink (only the semaphore it created and failed to register, only when it raises)
    ok_u = set(unlink) <= {"loky/backend/synchronize.py:SemLock._cleanup", "loky/backend/synchronize.py:SemLock.__init__", "loky/backend/resource_tracker.py:<module>",
                           "loky/backend/synchronize.py:<module>"} \
        and "loky/backend/synchronize.py:SemLock._cleanup" in unlink
    tree = _scan(repo, "loky/backend/synchronize.py")
    bases = {n.name: [_ast.unparse(b) for b in n.bases] for n in tree.body if isinstance(n, _ast.ClassDef)}
    ok_b = all(bases.get(k) == v for k, v in {"Semaphore": ["SemLock"], "BoundedSemaphore": ["Semaphore"], "Lock": ["SemLock"], "RLock": ["SemLock"]}.items())
    return [_ob("loky.backend.synchronize:<module>:structural/semaphores-created-only-by-the-registering-constructor", ok_c, f"creation sites: {sorted(set(create))}"),
            _ob("loky.backend.synchronize:<module>:structural/semaphores-unlinked-only-by-cleanup-and-tracker", ok_u, f"sem_unlink uses: {sorted(set(unlink))}"),
            _ob("loky.backend.synchronize:<module>:structural/every-lock-class-is-a-semlock", ok_b, f"bases: {bases}")]


def lemma_semaphore_holders(repo, tier, seed):
    """C14: over the kernel semaphore model (value = initial + releases - acquires, never negative, release refused at maxvalue for a
    bounded one) at most `initial` holders coexist, and a bounded semaphore never exceeds its bound."""
    import time
    import z3
    t0 = time.time()
    v0, acq, rel, val, mx = z3.Ints("v0 acq rel val maxvalue")
    model = z3.And(val == v0 + rel - acq, val >= 0, acq >= 0, rel >= 0)
    goals = {"lemma/at-most-initial-value-holders": z3.Implies(model, acq - rel <= v0),
             "lemma/lock-is-mutual-exclusion": z3.Implies(z3.And(model, v0 == 1), acq - rel <= 1),
             "lemma/bounded-semaphore-never-above-its-bound":
                 z3.Implies(z3.And(model, val <= mx, mx == v0), z3.And(rel - acq <= 0, z3.Implies(val == mx, val + 1 > mx)))}
    out = []
    for nm, g in goals.items():
        s = z3.Solver()
        s.add(z3.Not(g))
        r = s.check()
        out.append({"name": f"loky.backend.synchronize:<model>:{nm}", "status": str(r), "backend": "z3", "secs": time.time() - t0, "kind": "lemma",
                    "function": "", "path": [], "model": "" if r == z3.unsat else str(s.model() if r == z3.sat else "")})
    return out


def scan_singleton_writers(repo, tier, seed):
    """C09: only the factory assigns the module-level singleton, only _get_next_executor_id advances the id counter, and both start empty."""
    tree = _scan(repo, "loky/reusable_executor.py")
    writers = {"_executor": set(), "_executor_kwargs": set(), "_next_executor_id": set()}

    def walk(node, scope, fn):
        for ch in _ast.iter_child_nodes(node):
            sc = scope + [ch.name] if isinstance(ch, (_ast.FunctionDef, _ast.ClassDef)) else scope
            f2 = ch if isinstance(ch, _ast.FunctionDef) else fn
            tg = []
            if isinstance(ch, _ast.Assign):
                tg = ch.targets
            elif isinstance(ch, (_ast.AugAssign, _ast.AnnAssign)):
                tg = [ch.target]
            for t in tg:
                for n in _ast.walk(t):
                    if isinstance(n, _ast.Name) and n.id in writers and fn is not None:
                        if any(isinstance(g, _ast.Global) and n.id in g.names for g in _ast.walk(fn)):
                            writers[n.id].add(".".join(scope))
            walk(ch, sc, f2)
    walk(tree, [], None)
    init = {t.id: _ast.unparse(n.value) for n in tree.body if isinstance(n, _ast.Assign) for t in n.targets if isinstance(t, _ast.Name)}
    ok_w = (writers["_executor"] == {"_ReusablePoolExecutor.get_reusable_executor"} and writers["_executor_kwargs"] == {"_ReusablePoolExecutor.get_reusable_executor"}
            and writers["_next_executor_id"] == {"_get_next_executor_id"})
    ok_i = init.get("_executor") == "None" and init.get("_executor_kwargs") == "None" and init.get("_next_executor_id") == "0" \
        and init.get("_executor_lock") == "threading.RLock()"
    return [_ob("loky.reusable_executor:<module>:structural/only-the-factory-writes-the-singleton", ok_w, f"writers: { {k: sorted(v) for k, v in writers.items()} }"),
            _ob("loky.reusable_executor:<module>:structural/singleton-starts-empty-under-a-reentrant-lock", ok_i,
                f"initial values: { {k: init.get(k) for k in ('_executor', '_executor_kwargs', '_next_executor_id', '_executor_lock')} }")]


def scan_manager_fields(repo, tier, seed):
    """A-alias, structural half: the manager thread's references to the executor's tables are assigned in its constructor only (the constructor's contract proves
    they are the executor's very objects), and the executor's own tables / locks are assigned only in ProcessPoolExecutor.__init__ / shutdown / _setup_queues."""
    tree = _scan(repo, "loky/process_executor.py")
    fields = {"processes", "pending_work_items", "running_work_items", "processes_management_lock", "thread_wakeup", "shutdown_lock", "executor_flags",
              "call_queue", "result_queue", "work_ids_queue", "executor_reference"}
    writers = set()
    for cls in [n for n in tree.body if isinstance(n, _ast.ClassDef) and n.name == "_ExecutorManagerThread"]:
        for fn in [n for n in cls.body if isinstance(n, _ast.FunctionDef)]:
            for n in _ast.walk(fn):
                # `self.running_work_items += [x]` extends the list in place (list.__iadd__ returns the same object): not a rebinding
                tg = n.targets if isinstance(n, _ast.Assign) else ([n.target] if isinstance(n, _ast.AnnAssign) else [])
                for t in tg:
                    for a in _ast.walk(t):
                        if isinstance(a, _ast.Attribute) and isinstance(a.value, _ast.Name) and a.value.id == "self" and a.attr in fields and isinstance(a.ctx, _ast.Store):
                            writers.add(f"{fn.name}:{a.attr}")
    ok = all(w.startswith("__init__:") for w in writers) and {w.split(":")[1] for w in writers} == fields
    return [_ob("loky.process_executor:_ExecutorManagerThread:structural/table-references-assigned-in-the-constructor-only", ok, f"assignments: {sorted(writers)}")]


def scan_table_snapshots(repo, tier, seed):
    """The worker table is mutated by the manager thread, by submit() and by _resize(): every loop / comprehension over it runs on a snapshot
    (list(...)), never on the live dict (a concurrent insertion or removal raises 'dictionary changed size during iteration' in whoever iterates:
    the manager thread dies before terminate_broken, or get_reusable_executor() raises)."""
    import re
    # an attribute (self.processes, executor._processes) iterated directly, or .values()/.items()/.keys() of the table under any name;
    # a bare local name `processes` is a snapshot taken earlier
    pat = re.compile(r"(\._?processes$)|((^|\.)_?processes\.(values|items|keys)\(\)$)")
    bad, good = [], 0
    for rel in ("loky/process_executor.py", "loky/reusable_executor.py", "loky/backend/utils.py"):
        tree = _scan(repo, rel)
        for n in _ast.walk(tree):
            iters = []
            if isinstance(n, _ast.For):
                iters.append(n.iter)
            elif isinstance(n, (_ast.ListComp, _ast.SetComp, _ast.GeneratorExp, _ast.DictComp)):
                iters += [g.iter for g in n.generators]
            for it in iters:
                txt = _ast.unparse(it)
                if pat.search(txt):
                    bad.append(f"{rel}:{it.lineno}: {txt}")
                elif isinstance(it, _ast.Call) and _ast.unparse(it.func) in ("list", "tuple", "sorted") and it.args and pat.search(_ast.unparse(it.args[0])):
                    good += 1
    ob = _ob("loky.process_executor:<module>:structural/worker-table-iterated-through-snapshots-only", not bad and good >= 1,
             f"live iterations: {bad}; snapshot iterations: {good}")
    if bad and any("process_executor.py" in b and "_processes.items()" in b for b in bad):
        ob["replay"] = {"harness": "live_table_iteration", "inputs": {}}
    return [ob]


def scan_worker_configuration_fields(repo, tier, seed):
    """C18 (every worker that ever runs a task - initial, respawned, added by a resize - first ran the configured initializer with its initargs, in the configured
    environment): the executor's start-up configuration (_initializer, _initargs, _env) is assigned by its constructor only; every later spawn reads the
    same values (the spawn loop's contract ships self._initializer / self._initargs / self._env as they are at that time)."""
    fields = {"_initializer", "_initargs", "_env"}
    bad, ok_sites = [], []
    for rel in ("loky/process_executor.py", "loky/reusable_executor.py"):
        tree = _scan(repo, rel)

        def walk(node, fn):
            for ch in _ast.iter_child_nodes(node):
                f2 = ch.name if isinstance(ch, (_ast.FunctionDef, _ast.AsyncFunctionDef)) else fn
                targets = []
                if isinstance(ch, _ast.Assign):
                    targets = ch.targets
                elif isinstance(ch, (_ast.AugAssign, _ast.AnnAssign)):
                    targets = [ch.target]
                elif isinstance(ch, _ast.Delete):
                    targets = ch.targets
                flat = []
                for t in targets:
                    flat += list(t.elts) if isinstance(t, (_ast.Tuple, _ast.List)) else [t]
                for t in flat:
                    if isinstance(t, _ast.Attribute) and t.attr in fields:
                        (ok_sites if fn == "__init__" else bad).append(f"{rel}:{ch.lineno}: {_ast.unparse(t)} in {fn}")
                if isinstance(ch, _ast.Call) and _ast.unparse(ch.func) == "setattr" and len(ch.args) >= 2 and \
                        isinstance(ch.args[1], _ast.Constant) and ch.args[1].value in fields:
                    bad.append(f"{rel}:{ch.lineno}: setattr(.., {ch.args[1].value!r}) in {fn}")
                walk(ch, f2)
        walk(tree, "<module>")
    return [_ob("loky.process_executor:<module>:structural/worker-start-up-configuration-assigned-by-the-constructor-only", not bad and len(ok_sites) >= 3,
                f"constructor sites: {ok_sites}; other writes: {bad}")]


def scan_popen_interface(repo, tier, seed):
    """C06 / C02 (with and without psutil): multiprocessing's BaseProcess forwards poll / wait / terminate / kill to the Popen object of the start method;
    the external contracts Process.join / .kill / .terminate / .exitcode assume loky's Popen offers them. kill() is what the tree-kill falls back to when
    neither psutil nor pgrep can be used: without it that path raises AttributeError in the manager thread and no worker is killed."""
    tree = _scan(repo, "loky/backend/popen_loky_posix.py")
    cls = [n for n in tree.body if isinstance(n, _ast.ClassDef) and n.name == "Popen"]
    have = sorted(f.name for f in cls[0].body if isinstance(f, _ast.FunctionDef)) if cls else []
    need = ["kill", "poll", "terminate", "wait"]
    missing = [m for m in need if m not in have]
    ob = _ob("loky.backend.popen_loky_posix:Popen:structural/offers-every-method-that-baseprocess-forwards-to-it", not missing, f"defined: {have}; missing: {missing}")
    if "kill" in missing:
        ob["replay"] = {"harness": "kill_fallback_without_pgrep", "inputs": {}}
    return [ob]


def scan_process_classes_take_env(repo, tier, seed):
    """C18 (env overlay, both loky start methods): every loky process class accepts the env= mapping and hands it to LokyProcess, which stores it; a class
    that does not makes _adjust_process_count fall back (except TypeError) to a process built *without* the overlay, silently."""
    tree = _scan(repo, "loky/backend/process.py")
    bad, seen = [], []
    for cls in [n for n in tree.body if isinstance(n, _ast.ClassDef) and (n.name == "LokyProcess" or any(_ast.unparse(b) == "LokyProcess" for b in n.bases))]:
        init = [f for f in cls.body if isinstance(f, _ast.FunctionDef) and f.name == "__init__"]
        if not init:
            seen.append(f"{cls.name}: inherited")
            continue
        f = init[0]
        params = [a.arg for a in f.args.args + f.args.kwonlyargs]
        takes = "env" in params or f.args.kwarg is not None
        forwards = cls.name == "LokyProcess" or any(
            isinstance(c_, _ast.Call) and _ast.unparse(c_.func) == "super().__init__" and
            (any(k.arg == "env" and _ast.unparse(k.value) == "env" for k in c_.keywords) or any(k.arg is None for k in c_.keywords))
            for c_ in _ast.walk(f))
        seen.append(f"{cls.name}: takes env={takes}, forwards it={forwards}")
        if not (takes and forwards):
            bad.append(cls.name)
    ob = _ob("loky.backend.process:<module>:structural/every-loky-process-class-takes-the-env-overlay-and-hands-it-on", not bad and len(seen) >= 2, "; ".join(seen))
    if bad:
        ob["replay"] = {"harness": "env_overlay_per_context", "inputs": {}}
    return [ob]


def scan_bootstrap_guard(repo, tier, seed):
    """C19 / C18: in the entry point of a loky worker (the __main__ block of popen_loky_posix) everything received from the parent - the preparation data,
    spawn.prepare() and the process object with the initializer, initargs and queues it carries - is unpickled inside the bootstrapping guard
    (process.current_process()._inheriting set before, deleted in the finally): user code run by unpickling (__reduce__, __setstate__) executes before
    _process_worker installs the depth, and the guard (through _check_not_importing_main) is the only thing that stops it from starting processes there."""
    tree = _scan(repo, "loky/backend/popen_loky_posix.py")
    main = [n for n in tree.body if isinstance(n, _ast.If) and _ast.unparse(n.test) in ("__name__ == '__main__'", '__name__ == "__main__"')]
    loads_all, loads_guarded, guards = [], [], 0
    for blk in main:
        parent = {}
        for n in _ast.walk(blk):
            for ch in _ast.iter_child_nodes(n):
                parent[ch] = n
        for n in _ast.walk(blk):
            if isinstance(n, _ast.Try) and any(isinstance(f, _ast.Delete) and "_inheriting" in _ast.unparse(f) for f in n.finalbody):
                # the flag must have been set by the statement just before the try
                body_of = parent.get(n)
                seq = getattr(body_of, "body", [])
                k = seq.index(n) if n in seq else -1
                if k > 0 and isinstance(seq[k - 1], _ast.Assign) and _ast.unparse(seq[k - 1]).replace(" ", "") == "process.current_process()._inheriting=True":
                    guards += 1
                    for m in n.body:
                        for c_ in _ast.walk(m):
                            if isinstance(c_, _ast.Call) and _ast.unparse(c_.func) in ("pickle.load", "spawn.prepare"):
                                loads_guarded.append(f"{c_.lineno}: {_ast.unparse(c_)}")
            if isinstance(n, _ast.Call) and _ast.unparse(n.func) in ("pickle.load", "spawn.prepare"):
                loads_all.append(f"{n.lineno}: {_ast.unparse(n)}")
    ok = len(main) == 1 and guards == 1 and sorted(loads_all) == sorted(loads_guarded) and \
        sum("pickle.load" in l for l in loads_all) == 2 and sum("spawn.prepare" in l for l in loads_all) == 1
    return [_ob("loky.backend.popen_loky_posix:<module>:structural/everything-received-from-the-parent-is-unpickled-inside-the-bootstrapping-guard", ok,
                f"received: {sorted(loads_all)}; inside the guard: {sorted(loads_guarded)}; guards: {guards}")]


def scan_python_exit_order(repo, tier, seed):
    """C05 (interpreter exit): _python_exit publishes _global_shutdown *before* it wakes the manager threads: a manager woken first re-reads the flag
    (is_shutting_down), finds it clear, goes back to waiting, and the join of _python_exit never returns (the wake-up was the only one)."""
    tree = _scan(repo, "loky/process_executor.py")
    fns = [n for n in tree.body if isinstance(n, _ast.FunctionDef) and n.name == "_python_exit"]
    ok, detail = False, "no _python_exit"
    if len(fns) == 1:
        fn = fns[0]
        declares = any(isinstance(s_, _ast.Global) and "_global_shutdown" in s_.names for s_ in fn.body)
        set_line = min([s_.lineno for s_ in _ast.walk(fn) if isinstance(s_, _ast.Assign) and _ast.unparse(s_).replace(" ", "") == "_global_shutdown=True"] or [0])
        top_level_set = any(isinstance(s_, _ast.Assign) and _ast.unparse(s_).replace(" ", "") == "_global_shutdown=True" for s_ in fn.body)
        wake = [c_.lineno for c_ in _ast.walk(fn) if isinstance(c_, _ast.Call) and isinstance(c_.func, _ast.Attribute) and c_.func.attr in ("wakeup", "join")]
        ok = declares and top_level_set and set_line > 0 and bool(wake) and all(set_line < w for w in wake)
        detail = f"flag set at line {set_line} (unconditionally: {top_level_set}); wake-ups / joins at lines {sorted(wake)}"
    return [_ob("loky.process_executor:_python_exit:structural/shutdown-flag-published-before-any-manager-thread-is-woken-or-joined", ok, detail)]


def scan_pending_snapshots(repo, tier, seed):
    """The table of pending work items is shared by the manager thread, the submitting threads (under the shutdown lock) and the feeder thread, whose
    error handler pops an item whenever a task cannot be sent: every loop / comprehension over it runs on a snapshot (list(...)), never on the live
    dict (a removal between two steps raises 'dictionary changed size during iteration' in the manager thread: it dies, the remaining futures of a
    broken pool are never failed, the workers never killed)."""
    import re
    pat = re.compile(r"(\._?pending_work_items$)|((^|\.)_?pending_work_items\.(values|items|keys)\(\)$)")
    bad, good = [], 0
    for rel in ("loky/process_executor.py", "loky/reusable_executor.py"):
        tree = _scan(repo, rel)
        for n in _ast.walk(tree):
            iters = []
            if isinstance(n, _ast.For):
                iters.append(n.iter)
            elif isinstance(n, (_ast.ListComp, _ast.SetComp, _ast.GeneratorExp, _ast.DictComp)):
                iters += [g.iter for g in n.generators]
            for it in iters:
                txt = _ast.unparse(it)
                if pat.search(txt):
                    bad.append(f"{rel}:{it.lineno}: {txt}")
                elif isinstance(it, _ast.Call) and _ast.unparse(it.func) in ("list", "tuple", "sorted") and it.args and pat.search(_ast.unparse(it.args[0])):
                    good += 1
    ob = _ob("loky.process_executor:<module>:structural/pending-work-items-iterated-through-snapshots-only", not bad,
             f"live iterations: {bad}; snapshot iterations: {good}")
    if bad and any("process_executor.py" in b for b in bad):
        ob["replay"] = {"harness": "pending_table_iteration", "inputs": {}}
    return [ob]


def scan_after_fork_hook(repo, tier, seed):
    """C05 (fork start method): a forked worker inherits the parent's registry of manager threads, whose entries hold a copy of the shutdown lock that
    submit() holds while it spawns; the worker's own _python_exit() at exit would block on it for ever. The module registers an after-fork hook that must
    actually *empty* the registry (a call of .clear(), not a reference to it)."""
    tree = _scan(repo, "loky/process_executor.py")
    hooks = []
    for n in tree.body:
        if isinstance(n, _ast.Expr) and isinstance(n.value, _ast.Call) and _ast.unparse(n.value.func).endswith("register_after_fork"):
            hooks.append(n.value)
    ok = False
    detail = [_ast.unparse(h) for h in hooks]
    for h in hooks:
        if len(h.args) == 2 and _ast.unparse(h.args[0]) == "_threads_wakeups" and isinstance(h.args[1], _ast.Lambda):
            lam = h.args[1]
            arg = lam.args.args[0].arg if lam.args.args else None
            body = lam.body
            if isinstance(body, _ast.Call) and isinstance(body.func, _ast.Attribute) and body.func.attr == "clear" and \
                    isinstance(body.func.value, _ast.Name) and body.func.value.id == arg and not body.args and not body.keywords:
                ok = True
    return [_ob("loky.process_executor:<module>:structural/forked-children-start-with-an-empty-registry-of-manager-threads", ok, f"after-fork hooks: {detail}")]


EXEC_ABS = COMMON_ABS + ["one manager-thread method is treated as atomic w.r.t. the executor's tables (A-atomic)"]

PROPS["C19"] = dict(
    proved="_check_max_depth accepts iff not(fork and d>0) and (MAX_DEPTH<=0 or d<MAX_DEPTH) for all integers d, MAX_DEPTH and every start method, raises "
           "LokyRecursionError otherwise and changes nothing; the constructor checks the depth before creating any lock/pipe/queue and never spawns; every "
           "spawn ships _CURRENT_DEPTH+1 (single spawn site, structural scan); the worker runs every piece of user code with the shipped depth installed; "
           "only the worker assigns the depth and the root starts at 0 (structural scans). Induction over the tree: depth == nesting level.",
    not_covered="the 'fork' branch is proved as written (the start-method name is an arbitrary string); the kernel/interpreter actually passing the argument tuple.",
    assumptions=["A-posix", "A-user"],
    abstractions=COMMON_ABS,
    extra=[scan_depth_assignments, scan_worker_spawn_sites, scan_bootstrap_guard],
)

PROPS["C02"] = dict(
    proved="sequential step contracts of the manager: the wait set contains the result reader, the wake-up reader and every registered worker's sentinel; every "
           "outcome of wait()/recv() is classified as the property says (dead worker => TerminatedWorkerError, a BrokenProcessPool, with the exit codes); "
           "terminate_broken flags first, fails every pending future with that very error, fabricates no result, kills and reaps every worker tree and joins the "
           "internals; run() leaves its loop on `broken` only through terminate_broken; submit re-raises the stored error before touching anything; whoever registers workers from outside the manager thread wakes it afterwards, so "
           "that their sentinels enter the wait set; a pending future already cancelled by its owner does not stop terminate_broken. No loop runs over the live table of pending work items (structural scan); a spawn failing half-way leaves no worker without a manager thread; Popen._launch holds no copy of the child's read end while it writes the payload.",
    not_covered="that a death at every instant of a worker's life surfaces as 'sentinel ready, no result, no wake-up' (A-kernel, schedules); interleavings with "
                "the feeder and user threads (A-atomic); futures already resolved are untouched only in the sense that no set_result/other set_exception occurs.",
    assumptions=["A-atomic", "A-kernel", "A-alias", "A-pids", "A-posix"],
    abstractions=EXEC_ABS,
    extra=[scan_table_snapshots, scan_manager_fields, scan_pending_snapshots],
)
PROPS["C04"] = dict(
    proved="for every exception class a task can raise (any BaseException subclass, user classes included) the worker sends exactly one _ResultItem carrying the "
           "task's own id and the wrapped exception and keeps looping; _sendback_result falls back to the pickling error; the feeder's error path fails only the "
           "own future (RuntimeError iff struct.error else PicklingError, remote traceback as cause), forgets the id, frees the slot, wakes the manager and touches no "
           "flag; process_result_item resolves only the own future and never breaks the pool; the exception round-trips through __reduce__/_rebuild_exc. Queue._feed never ends silently because pickling raised (only on a broken pipe of the send, at the sentinel, or when the interpreter exits).",
    not_covered="interleavings of the feeder thread with dispatch/completion (A-atomic); what pickle does with the reducers (T-stdlib).",
    assumptions=["A-atomic", "A-user", "A-async", "A-psutil", "A-alias", "A-pids"],
    abstractions=EXEC_ABS,
    extra=[scan_manager_fields],
)
PROPS["C05"] = dict(
    proved="run() returns only after terminate_broken or when is_shutting_down() held and nothing was pending, after join_executor_internals; without kill_workers "
           "flag_executor_shutting_down touches no future and no worker; is_shutting_down is exactly the stated formula on the values read; shutdown_workers posts "
           "at most one sentinel per registered worker (all of them unless no child is alive), releases every exit lock and never calls a blocking put; "
           "join_executor_internals closes call queue, feeder, result queue and wake-up pipe in that order and joins every worker; shutdown flags -> wakes (under the "
           "lock) -> joins when asked; submit after shutdown raises ShutdownExecutorError with nothing touched. shutdown() raises nothing but a wake-up pipe error also when another thread completes a shutdown of the same executor while it waits for a lock (rely/guarantee at the lock waits).",
    not_covered="that results in flight are delivered before the manager leaves; sentinel/time-out races; termination of the sentinel loop; atexit ordering.",
    assumptions=["A-atomic", "A-alias", "A-pids", "A-posix"],
    abstractions=EXEC_ABS,
    extra=[scan_table_snapshots, scan_manager_fields, scan_after_fork_hook, scan_python_exit_order],
)
PROPS["C06"] = dict(
    proved="with kill_workers read true every pending future gets a ShutdownExecutorError, the pending map is emptied, no result is fabricated, every registered "
           "worker tree is killed and reaped; shutdown() forwards the caller's kill_workers flag before waking the manager. A request to kill is recorded whenever it is made and never withdrawn by a later call (flag_as_shutting_down); the kill-tree helpers are verified bodies.",
    not_covered="wall-clock bound; results already in the pipe; grandchildren spawned between listing and killing; a worker already popped from the table and being joined by "
                "the manager thread (mid-exit) when the forced shutdown arrives.",
    assumptions=["A-atomic", "A-alias", "A-posix"],
    abstractions=EXEC_ABS,
    extra=[scan_popen_interface],
)
PROPS["C07"] = dict(
    proved="a worker leaves on time-out only after taking (and releasing) the management lock, never with a call item in hand, always announces its pid before "
           "waiting for its exit lock; a pid message is never 'broken', pops the worker under the management lock, releases its exit lock once, joins it, touches no "
           "future and re-fills the pool (under the lock, with a warning) when work is pending; every submit tops the pool up.",
    not_covered="the race 'sentinel readable before the pid message is read'; expiry racing with dispatch (schedules, A-kernel).",
    assumptions=["A-atomic", "A-alias", "A-pids", "A-user", "A-async", "A-psutil"],
    abstractions=EXEC_ABS,
    extra=[scan_manager_fields],
)
PROPS["C08"] = dict(
    proved="_adjust_process_count never registers more than max(len before, max_workers) workers, fills up to max_workers, keeps every existing worker and starts "
           "each new one; it is reached under the management lock from submit and from the respawn arm; max_workers<=0 is rejected, None means cpu_count(); the call "
           "queue holds 2*max_workers+1 items; every submit tops the pool up.",
    not_covered="the number of task bodies executing concurrently and that max_workers of them do run (scheduler, workers); the _resize call site holds the "
                "submit/resize lock instead of the management lock (as the code does).",
    assumptions=["A-atomic", "A-pids", "A-alias", "A-posix"],
    abstractions=EXEC_ABS,
)
PROPS["C18"] = dict(
    claimed=False,
    proved="", not_covered="", assumptions=[], abstractions=EXEC_ABS, extra=[scan_worker_spawn_sites],
)

PROPS["C03"] = dict(
    proved="routing (part B): submit allocates a fresh id (strictly below the counter, not yet pending), stores exactly the caller's fn/args/kwargs with the returned "
           "future, queues the id, wakes the manager and tops the pool up, keeping the representation invariants also when a spawn fails; dispatch builds the call item "
           "from the work item of its own id, only after the future was marked running, never for a cancelled future, never when the queue is full, and records the id as "
           "running before the feeder can see the item; process_result_item resolves exactly the future of the result's id, once, with the value or exception sent, "
           "touching no other future; the worker answers each call item exactly once with the item's own id. Part A, chunking only: the chunks yielded by "
           "_get_chunks, concatenated, are exactly the zipped argument tuples in order, every chunk has between 1 and chunksize items and only the last may be short.",
    not_covered="at-most-once execution across worker death, respawn, resize and concurrent submitters (schedules, OS); part A (map == builtin map): only the chunking generator _get_chunks is under "
                "contract (chunks concatenated == zipped arguments, sizes 1..chunksize); _process_chunk, _chain_from_iterable_of_lists and map's composition are "
                "not (their obligations are beyond the installed solvers, DESIGN.md 10.2).",
    assumptions=["A-atomic", "A-alias", "A-pids", "A-user", "A-iter", "A-running"],
    abstractions=EXEC_ABS,
    extra=[scan_manager_fields],
)


# ----------------------------------------------------------------------
# C11: parse lemma for names containing ':' (over the uninterpreted split/join, from three algebraic axioms)
def lemma_parse_colon_names(repo, tier, seed):
    import time
    import z3
    t0 = time.time()
    Str = z3.StringSort()
    Sq = z3.SeqSort(Str)
    split = z3.Function("py_split", Str, Str, Sq)
    join = z3.Function("py_join", Str, Sq, Str)
    colon = z3.StringVal(":")
    cmd, name, rtype = z3.Strings("cmd name rtype")
    # L stands for cmd+":"+name+":"+rtype and T for name+":"+rtype: the axioms are instantiated at these terms on the
    # Python side, so that the solver sees sequence equalities only (no string concatenation under the uninterpreted split)
    L, Tl = z3.Strings("line tail")
    A1a = split(L, colon) == z3.Concat(split(cmd, colon), split(Tl, colon))          # split(a+":"+b) == split(a) ++ split(b)
    A1b = split(Tl, colon) == z3.Concat(split(name, colon), split(rtype, colon))
    A2c = z3.Implies(z3.Not(z3.Contains(cmd, colon)), split(cmd, colon) == z3.Unit(cmd))       # split(x) == [x] when ':' not in x
    A2r = z3.Implies(z3.Not(z3.Contains(rtype, colon)), split(rtype, colon) == z3.Unit(rtype))
    A3 = join(colon, split(name, colon)) == name                                      # ":".join(split(x)) == x
    Lq = z3.Length(split(name, colon)) >= 1
    S_ = split(L, colon)
    n = z3.Length(S_)
    parsed_cmd = S_[0]
    parsed_rtype = S_[n - 1]
    parsed_name = join(colon, z3.SubSeq(S_, 1, n - 2))
    hyp = [A1a, A1b, A2c, A2r, A3, Lq, z3.Not(z3.Contains(cmd, colon)), z3.Not(z3.Contains(rtype, colon))]
    goals = {
        "fields": z3.And(parsed_cmd == cmd, parsed_rtype == rtype, n >= 3),
        "middle": z3.SubSeq(S_, 1, n - 2) == split(name, colon),
        "name": z3.Implies(z3.SubSeq(S_, 1, n - 2) == split(name, colon), parsed_name == name),
    }
    out = []
    for gname, g in goals.items():
        s = z3.Solver()
        s.set("timeout", 20000)
        s.add(hyp)
        s.add(z3.Not(g))
        r = s.check()
        backend = "z3-inproc"
        if r == z3.unknown:
            from pyvc import solve
            res, raw = solve._external(["/usr/bin/cvc5", "--strings-exp", "--tlimit=20000"], s.to_smt2())
            backend = "cvc5"
            status = {"unsat": "unsat", "sat": "sat"}.get(res, "unknown")
        else:
            status = "unsat" if r == z3.unsat else "sat"
        out.append({"name": f"loky.backend.resource_tracker:<lemma>:parse/colon-names/{gname}", "status": status, "backend": backend,
                    "secs": time.time() - t0, "kind": "lemma", "function": "loky.backend.resource_tracker:main",
                    "path": ["split(a+':'+b)=split(a)++split(b); split(x)=[x] if ':' not in x; ':'.join(split(x))=x"], "model": ""})
    # bounded cross-check of the three axioms against CPython (exhaustive, alphabet {':','a',' '}, length <= 6): labelled bounded
    import itertools
    n_checked = 0
    ok = True
    for ln in range(0, 5):
        for a in itertools.product(":a ", repeat=ln):
            x = "".join(a)
            n_checked += 1
            ok = ok and ":".join(x.split(":")) == x and (":" in x or x.split(":") == [x])
            for lb in range(0, 3):
                for b in itertools.product(":a", repeat=lb):
                    y = "".join(b)
                    ok = ok and (x + ":" + y).split(":") == x.split(":") + y.split(":")
    out.append({"name": "loky.backend.resource_tracker:<axioms>:split-join-axioms-vs-cpython", "status": "bounded", "kind": "bounded",
                "bound": f"all strings over {{':','a',' '}} up to length 4 (x) and 2 (y): {n_checked} x-values", "holds": ok,
                "function": "", "path": [], "secs": 0.0})
    if not ok:
        out.append({"name": "loky.backend.resource_tracker:<axioms>:split-join-axioms-vs-cpython/refuted", "status": "sat", "kind": "lemma",
                    "function": "", "path": ["an axiom of the parse lemma is false in CPython"], "secs": 0.0, "model": ""})
    return out


PROPS["C11"] = dict(
    proved="the tracker's request loop implements the reference-count law exactly, for an arbitrary request stream (loop invariant + one step obligation per "
           "request kind over an arbitrary well-formed registry): REGISTER +1, UNREGISTER forgets, MAYBE_UNLINK -1 and destroys exactly once exactly at zero, every "
           "other key of every type unchanged (frame as part of each step), invalid requests (unknown command / type, zero count, undecodable, fewer than three "
           "fields) reported once and skipped, nothing leaves the loop but end of file; the three per-type tables are distinct objects (proved, not assumed); the "
           "end-of-life sweep destroys every still-registered name exactly once, every type once, folders last, and a failing cleanup does not stop the rest; "
           "parse lemma for names containing ':'.",
    not_covered="atomicity/interleaving of writes from several client processes (A-kernel: each line arrives whole); warnings turned into errors (A-warn); "
                "the client side (_send) is the CPython class.",
    assumptions=["A-warn", "A-kernel", "A-posix"],
    abstractions=COMMON_ABS + ["str.strip / str.split / str.join / bytes.decode are uninterpreted (py_str_strip, py_split, py_join, py_decodable_ascii); the parse lemma "
                               "relates them through three algebraic axioms, cross-checked bounded against CPython"],
    extra=[lemma_parse_colon_names],
)


# ----------------------------------------------------------------------
# C16: repeated plain-pickle round trips of a wrapper (induction over the number of round trips), over the contracts of
# __reduce__ / _reconstruct_wrapper / _wrap_non_picklable_objects and the trusted pickle protocol + T-deps
def lemma_wrapper_roundtrips(repo, tier, seed):
    import time
    import z3
    t0 = time.time()
    I = z3.IntSort()
    B = z3.BoolSort()
    callable_ = z3.Function("callable", I, B)
    eqv = z3.Function("behaves_like", I, I, B)
    dumps = z3.Function("cp_dumps", I, I)
    loads = z3.Function("cp_loads", I, I)
    o0, o, o1, x, y, z = z3.Ints("o0 o o1 x y z")
    cw, cw1 = z3.Bools("cw cw1")
    # T-deps, instantiated where used: loads(dumps(o)) behaves like o; behaves_like is an equivalence preserving callable()
    ax = [eqv(loads(dumps(o)), o), eqv(o0, o0),
          z3.Implies(z3.And(eqv(loads(dumps(o)), o), eqv(o, o0)), eqv(loads(dumps(o)), o0)),
          z3.Implies(eqv(loads(dumps(o)), o0), callable_(loads(dumps(o))) == callable_(o0))]
    # contracts: _wrap(o0, keep) -> (cw == callable(o0), obj == o0); __reduce__ with keep -> _reconstruct_wrapper(dumps(obj), True)
    # -> wrapper (cw1 == callable(loads(dumps(obj))), obj1 == loads(dumps(obj)), keep)
    inv = lambda cw_, obj_: z3.And(eqv(obj_, o0), cw_ == callable_(o0))
    goals = {
        "roundtrip/base-wrapper-of-o-forwards-like-o": z3.Implies(cw == callable_(o0), inv(cw, o0)),
        "roundtrip/step-keep-wrapper-stays-a-faithful-wrapper":
            z3.Implies(z3.And(inv(cw, o), cw1 == callable_(loads(dumps(o))), o1 == loads(dumps(o))), inv(cw1, o1)),
        "roundtrip/unwrapped-arrives-as-an-object-behaving-like-o":
            z3.Implies(z3.And(inv(cw, o), o1 == loads(dumps(o))), eqv(o1, o0)),
    }
    out = []
    for gname, g in goals.items():
        s = z3.Solver()
        s.add(ax)
        s.add(z3.Not(g))
        r = s.check()
        out.append({"name": f"loky.cloudpickle_wrapper:<lemma>:{gname}", "status": "unsat" if r == z3.unsat else ("sat" if r == z3.sat else "unknown"),
                    "backend": "z3-inproc", "secs": time.time() - t0, "kind": "lemma", "function": "loky.cloudpickle_wrapper",
                    "path": ["induction on the number of plain-pickle round trips"], "model": str(s.model()) if r == z3.sat else ""})
    return out


PROPS["C16"] = dict(
    proved="_wrap_non_picklable_objects returns a callable wrapper iff the object is callable, holding that very object and flag; __reduce__ reduces to "
           "(loads, dumps(obj)) without keep_wrapper and to (_reconstruct_wrapper, dumps(obj), True) with it; _reconstruct_wrapper re-wraps the unpickled object "
           "with the same rule; attribute reads and calls are forwarded unchanged (one call, same arguments, exceptions propagate); wrapping a class yields a "
           "class named like it whose instances hold an instance built from the constructor arguments; inductive lemma for repeated round trips.",
    not_covered="cloudpickle itself (T-deps: loads(dumps(o)) behaves like o); _wrap_objects_when_needed (the automatic wrapping heuristics) is not under contract. Observed and outside what a contract on these functions can state: a *recursive* function decorated with wrap_non_picklable_objects cannot be pickled (PicklingError: excessively deep recursion - the nested dumps of __reduce__ starts a fresh memo and meets the wrapper again).",
    assumptions=["A-user"],
    abstractions=COMMON_ABS + ["objects are opaque ids with uninterpreted callable / attribute / application functions"],
    extra=[lemma_wrapper_roundtrips],
)


def scan_dumps_call_sites(repo, tier, seed):
    """C15: the only serialisations with a reducers argument in the executor stack are the two contracted ones."""
    sites = []
    for rel in ("loky/process_executor.py", "loky/reusable_executor.py", "loky/backend/queues.py", "loky/backend/reduction.py",
                "loky/backend/popen_loky_posix.py", "loky/backend/spawn.py"):
        tree = _scan(repo, rel)
        for fn in [n for n in _ast.walk(tree) if isinstance(n, _ast.FunctionDef)]:
            for n in _ast.walk(fn):
                if isinstance(n, _ast.Call):
                    nm = n.func.attr if isinstance(n.func, _ast.Attribute) else (n.func.id if isinstance(n.func, _ast.Name) else "")
                    if nm in ("dumps", "dump") and any(kw.arg == "reducers" for kw in n.keywords):
                        sites.append(f"{rel}:{fn.name}")
    want = ["loky/backend/queues.py:_feed", "loky/backend/queues.py:put", "loky/backend/reduction.py:dumps"]
    return [_ob("loky.backend.queues:<module>:structural/reducers-only-enter-serialisation-through-the-queues", sorted(set(sites)) == want,
                f"call sites of dump(s) with reducers=: {sorted(set(sites))}")]


def lemma_partial_roundtrip(repo, tier, seed):
    """_rebuild_partial(*_reduce_partial(p)[1]) has the func/args/keywords of p (trusted: partial(f,*a,**k) exposes them)."""
    import z3, time
    t0 = time.time()
    I = z3.IntSort()
    func, args_, kw = z3.Ints("func args keywords")
    truthy = z3.Function("truthy", I, z3.BoolSort())
    empty = z3.Int("empty_dict")
    is_empty = z3.Function("is_empty_mapping", I, z3.BoolSort())
    # contracts: reduce -> (func, args, keywords or {}); rebuild(f, a, k) -> partial with (f, a, k)
    red_kw = z3.If(truthy(kw), kw, empty)
    goal = z3.And(func == func, args_ == args_, z3.Or(red_kw == kw, z3.And(z3.Not(truthy(kw)), is_empty(red_kw))))
    s = z3.Solver()
    s.add(is_empty(empty))
    s.add(z3.Not(goal))
    r = s.check()
    return [{"name": "loky.backend.reduction:<lemma>:builtin/partial-roundtrip-keeps-func-args-keywords", "status": "unsat" if r == z3.unsat else "sat",
             "backend": "z3-inproc", "secs": time.time() - t0, "kind": "lemma", "function": "loky.backend.reduction",
             "path": ["composition of the contracts of _reduce_partial and _rebuild_partial"], "model": ""}]


PROPS["C15"] = dict(
    proved="CustomizablePickler.__init__ writes to exactly one dictionary, allocated in the call: every dictionary that existed before (class-level tables, "
           "copyreg.dispatch_table, loky's _dispatch_table, the caller's reducers) is unchanged (frame obligations); the final table is base < loky < user; register "
           "writes only the pickler's own table; the executor routes job_reducers to the call queue and result_reducers (defaulting to job_reducers) to the result "
           "queue; both queues keep, pickle and restore their reducers and serialise with exactly those (call-site obligations on dumps); no other call site passes "
           "reducers (structural scan); the built-in reducers reduce methods/descriptors/partials to the stated getattr/_rebuild_partial forms; set_loky_pickler selects "
           "the normalised name or leaves both globals unchanged on failure; a call item records the pickler name at submission and re-selects it before the task runs.",
    not_covered="what the C implementation of pickle / cloudpickle does with the table (T-stdlib, T-deps); the member-descriptor set in _set_dispatch_table is an "
                "opaque call that only touches the pickler instance (A-user). Class methods are still reduced to a look-up of the name on their class (equal behaviour there "
                "rests on the class not shadowing the name); functools.partial objects lose instance attributes set on them; the *task* is pickled by the feeder "
                "thread with whatever pickler is selected at that time (the property only speaks of the result side).",
    assumptions=["A-user", "A-posix"],
    abstractions=COMMON_ABS,
    extra=[scan_dumps_call_sites, lemma_partial_roundtrip],
)

PROPS["C18"] = dict(
    proved="fork_exec passes close_fds=True, exactly the sorted keep list, no preexec function, and an environment that is the parent's overlaid with env= (one "
           "'k=v' entry per variable, the overlay winning), on every path closing its error pipe; Popen._launch keeps exactly the deliberate handles (child pipe ends, "
           "both tracker descriptors, descriptors collected while pickling), never a parent-side end, makes them inheritable, puts the child read end on the command "
           "line, ships process_obj.env, records pid and sentinel, writes the payload and closes the write end; poll() maps the wait status to -signal / exit code for "
           "every status value and caches it, wait() returns None only when the sentinel did not become ready; LokyProcess defaults to init_main_module=False (checked "
           "against the source default), LokyInitMainProcess forces True; get_preparation_data ships a main-module key only when asked and prepare() re-runs __main__ only "
           "when such a key is present; _adjust_process_count (the single worker spawn site, structural scan) ships initializer, initargs and env; _prepare_initializer rejects a non-"
           "callable initializer before anything else and otherwise hands the worker the user's initializer with the user's initargs, first in the chain when a "
           "profiler initializer is added (the chaining helper is executed at its call site, exact unrolling); the worker runs the initializer before its first get "
           "and processes nothing when it raises. The start-up payload is written only after the parent closed its copies of the child's pipe ends (a child dying at start-up gives EPIPE, left to the sentinel to report).",
    not_covered="what the kernel does with close_fds/pass_fds; the interpreter's own start-up; descriptors opened by the child; _ChainedInitializer.__call__ "
                "(calls each chained initializer with its own arguments: a zip over a heap list, not under contract) and the viztracer introspection (third party).",
    assumptions=["A-posix", "A-fds", "A-user", "A-finalize", "A-tracker-stable", "A-spawn"],
    abstractions=EXEC_ABS,
    extra=[scan_worker_spawn_sites, scan_process_classes_take_env, scan_worker_configuration_fields],
)
PROPS["C20"] = dict(
    proved="ownership accounting over a ghost set of open descriptors: fork_exec, Popen._launch and ResourceTracker.ensure_running close or hand to an owner every "
           "descriptor they open on *every* exit path (normal and exceptional: failing fork_exec, failing os.pipe, failing spawn); only the documented ones survive "
           "(the sentinel, owned by a finalizer; the tracker's write end, recorded in the tracker object); _ThreadWakeup.close closes both ends once, SimpleQueue.close "
           "both ends; join_executor_internals closes the call queue, its feeder, the result queue and the wake-up pipe and joins every registered worker; "
           "terminate_broken reaches it; a cleanly exiting worker is joined when its pid is processed; shutdown() drops the five fd-holding references. A failed or half-failed spawn in _ensure_executor_running leaves no worker without a manager thread (the Thread.start failure case is known finding F23b).",
    not_covered="the cumulative statement itself (counts after N lifecycles), threads and zombies as observed by the OS, named semaphores (C13).",
    assumptions=["A-fds", "A-finalize", "A-atomic", "A-tracker-stable", "A-posix"],
    abstractions=EXEC_ABS,
    extra=[scan_table_snapshots],
)
PROPS["C12"] = dict(
    proved="get_preparation_data starts the tracker first and ships its pid/descriptor as they are after that call; Popen._launch keeps that descriptor (inheritable) "
           "in the child's keep list; prepare() installs exactly the shipped pid/descriptor in the child's tracker object (induction over depth: every process of the tree "
           "reports to the root's tracker); ensure_running leaves a living tracker alone and relaunches a dead or missing one (old descriptor closed, child reaped, one "
           "warning), with SIGINT/SIGTERM blocked before the spawn and unblocked after it on every exit, the read end closed in the parent on every exit and the write "
           "end closed when the spawn failed; the tracker's main() ignores SIGINT and SIGTERM before its first read and leaves its loop only at end of file. A stderr without a usable descriptor never prevents the (re)launch of the tracker.",
    not_covered="that end of file happens only after the *last* member is gone, deaths by SIGKILL, signals during start-up before main() runs (A-kernel); "
                "the loky_init_main path beyond sharing _launch.",
    assumptions=["A-kernel", "A-warn", "A-fds", "A-tracker-stable", "A-posix"],
    abstractions=EXEC_ABS,
)

SYNC_ABS = COMMON_ABS + ["a kernel semaphore is the ghost triple (acquires, releases, value): a non-blocking acquire succeeds iff value >= 1, a blocking one "
                         "may first wait for releases by others, release may be refused (ValueError); no other thread runs inside one method except where the "
                         "method itself releases the lock (Condition.wait havocs every semaphore value)"]
PROPS["C13"] = dict(
    proved="every kernel semaphore is created inside SemLock.__init__ (structural scan over loky/), which creates exactly one, registers its name with the tracker "
           "right after and installs the finalizer (in that order; a failed creation registers nothing); generated names lie in this process's /loky-<pid>- namespace "
           "(both name generators); the finalizer unlinks the name once and then always unregisters it, also when it was already unlinked or the unlink fails; "
           "unpickled copies (__setstate__) attach by name and neither create, register nor install a finalizer; at end of life the tracker destroys every "
           "still-registered semlock name exactly once (sweep, shared with C11) after leaving its loop only at end of file. A SemLock constructor that raises leaves no semaphore behind (unlinks the one whose registration failed); REGISTER of any name, colons included, enters the registry the sweep works from.",
    not_covered="that garbage collection / interpreter exit run the finalizer (A-finalize); that end of file reaches the tracker when the last process of the tree "
                "dies, including SIGKILL (A-kernel); the namespace listing itself; 'no leaked warning for released objects' follows from UNREGISTER forgetting the "
                "name (C11 step) but the interleaving of that message with the tracker's exit is a schedule.",
    assumptions=["A-finalize", "A-kernel", "A-warn", "A-posix"],
    abstractions=SYNC_ABS,
    extra=[scan_semaphore_sites],
)
PROPS["C14"] = dict(
    proved="sequential contracts of every primitive: Lock = SEMAPHORE(1,1), RLock = RECURSIVE_MUTEX(1,1), Semaphore(n) = SEMAPHORE(n, SEM_VALUE_MAX), "
           "BoundedSemaphore(n) = SEMAPHORE(n, n), each a fresh kernel object starting at n (with the holder-count lemma over the kernel model); acquire/release and "
           "the with-statement forward to the kernel object, pickling ships (handle, kind, maxvalue, name) and rebuilds from exactly those; Condition.__init__ "
           "establishes three distinct zeroed counters; wait() announces itself, releases the lock as often as held, sleeps on the wait semaphore with the caller's "
           "timeout, reports the outcome of that sleep, always announces being woken and re-acquires the lock as often, also when interrupted; notify() wakes at most "
           "one and exactly one iff it took a sleeper token, waits for it; notify_all() re-zeroes the woken counter pairwise with sleeper tokens, wakes one waiter per "
           "token and waits for each; wait_for re-tests after every wait; Event: flag in {0,1} under the condition's lock, set() leaves 1 before notifying all, "
           "clear() leaves 0, is_set() reads without changing, wait() sleeps only when it found the flag clear and returns True iff the flag is set at its final test; "
           "the LokyContext factories build exactly these classes with the caller's arguments.",
    not_covered="everything about interleavings between threads/processes: lost wake-ups, time-outs firing between the notifier's two semaphore steps, fairness, "
                "'every waiter is woken by a later notify_all' as a liveness claim; the kernel semaphore itself (A-kernel-sem). These clauses of C14 are not claimed.",
    assumptions=["A-kernel-sem", "A-monitor", "A-posix"],
    abstractions=SYNC_ABS,
    extra=[lemma_semaphore_holders],
)

PROPS["C09"] = dict(
    proved="the factory, for every symbolic history state of the singleton (none / healthy / broken / shut down) and every argument combination: the previous "
           "instance is returned iff it exists, is neither broken nor shut down, and reuse allows it (reuse is True, or 'auto' and the seven recorded keyword "
           "arguments compare equal the way dict.__eq__ compares them); is_reused says so; a reused instance is resized to the request; otherwise the previous "
           "instance is shut down with wait=True and the caller's kill_workers *before* the singleton is dropped and the factory re-entered (recursion proved to "
           "stop after one level), the fresh instance is built from the new arguments, starts healthy, has exactly the requested size, an id taken from the "
           "monotonic counter (strictly above the previous instance's), the shared submit/resize lock, and is recorded as the singleton with its arguments; the "
           "representation invariant of the singleton is re-established on return (induction over calls; writers of the globals: structural scan); everything runs "
           "under the re-entrant module lock; non-positive sizes and fork contexts never yield an executor.",
    not_covered="interleavings between threads beyond 'the whole factory runs under _executor_lock' (A-atomic: RLock gives mutual exclusion); that tasks of racing "
                "callers complete (liveness, C01); flags read at the start of the call may be set concurrently by the manager thread right after (A-atomic).",
    assumptions=["A-singleton", "A-atomic", "A-pids", "A-alias", "A-posix"],
    abstractions=EXEC_ABS,
    extra=[scan_singleton_writers],
)
PROPS["C10"] = dict(
    proved="_resize: rejects None before anything happens; same size or never-started executor: only the size is recorded; otherwise waits for every pending job "
           "(returns from the wait only with an empty pending table), then under the management lock records the new size and posts exactly one None sentinel per "
           "worker found alive above the new size (never more), then polls, then tops up through _adjust_process_count (which keeps every registered worker and "
           "starts the missing ones, C08), wakes the manager thread so that it watches the new workers, and polls the *current* worker table until every registered worker is "
           "alive or the pool is broken (each of the three polling loops exits under a declared eventual guarantee of the other threads); submit and _resize run under the same submit/resize lock (the base "
           "submit is only reached holding it); the lock is released on every exit. After the wait for departures nothing is spawned into a pool found broken; surplus sentinels are posted with a blocking put.",
    not_covered="termination of the polling loops beyond 'each loop's test is false once the environment's declared eventual guarantee holds' (A-progress; "
                "interference is modelled as arbitrary change of the shared tables at each sleep, A-yield); that the kept workers are the previous processes as observed by pid; results of tasks submitted "
                "before the resize (C03 routing is per task and unaffected by the size).",
    assumptions=["A-yield", "A-progress", "A-atomic", "A-pids", "A-posix"],
    abstractions=EXEC_ABS + ["interference at declared yield points (time.sleep in polling loops): the shared state named there is havocked"],
    extra=[scan_table_snapshots],
)


# ----------------------------------------------------------------------
# thorough tier: bounded native cross-checks (harness, input generator, number of cases); the harness compares the REAL function with the oracle of the property
def _gen_cpu(rng):
    return {"os_none": rng.random() < 0.1, "os": rng.choice([0, 1, 2, 3, 4, 8, 16, 64, 128]), "have_sched": rng.random() < 0.7, "sched_raises": rng.random() < 0.2,
            "aff": rng.choice([1, 2, 3, 4, 7, 64]), "have_psutil": rng.random() < 0.6, "psutil_has_aff": rng.random() < 0.7, "psutil_aff": rng.choice([1, 2, 5, 16]),
            "v2": rng.random() < 0.4, "v1q": rng.random() < 0.4, "v1p": rng.random() < 0.4, "q_is_max": rng.random() < 0.2,
            "Q": rng.choice([-1, 0, 1, 50000, 99999, 100000, 100001, 150000, 250000, 800000, 12345678]), "P": rng.choice([1, 1000, 100000, 3]),
            "env_has": rng.random() < 0.5, "LK": rng.choice([-3, 0, 1, 2, 3, 5, 1000])}


def _gen_depth(rng):
    return {"method": rng.choice(["loky", "loky_init_main", "spawn", "forkserver", "fork"]), "depth": rng.choice([0, 1, 2, 3, 9, 10, 11, 100]),
            "max_depth": rng.choice([-5, -1, 0, 1, 2, 3, 10, 11, 100])}


def _gen_tracker(rng):
    return {"nfields": rng.choice([1, 2, 3, 3, 3, 4, 5]), "cmd": rng.choice(["REGISTER", "UNREGISTER", "MAYBE_UNLINK", "PROBE", "BOGUS", "register"]),
            "rtype": rng.choice(["file", "folder", "semlock", "nosuchtype"]), "name": rng.choice(["plain", "a:b", "dir:x:1", "/tmp/x", "C:\\\\d:e"]),
            "pre_count": rng.choice([0, 0, 1, 2, 3])}


PROPS["C17"]["native_cross_checks"] = [("cpu_count", _gen_cpu, 300)]
PROPS["C19"]["native_cross_checks"] = [("check_max_depth", _gen_depth, 300)]
PROPS["C11"]["native_cross_checks"] = [("tracker_step", _gen_tracker, 60)]
