"""Per-property registry used by the check driver: extra (structural /
lemma) obligations, what is proved, what is not covered, assumptions."""

ASSUMPTIONS = {
    "A-float": "math.ceil(q / p) is the mathematical ceiling of the rational q/p (exact in CPython whenever os_cpu_count * period < 2**52)",
    "A-warn": "warnings.warn does not raise (warnings are not errors in this process)",
    "A-user": "user callables (tasks, initializers, callbacks, cleanup functions) do not modify loky's internal state",
    "A-atomic": "one manager-thread method is atomic w.r.t. the manager-owned maps (pending/running/processes); interference of submit and of the feeder error path is not proved harmless",
    "A-async": "no asynchronous exception (KeyboardInterrupt between bytecodes, MemoryError) is modelled",
    "A-posix": "Linux/posix, CPython 3.12: branches on sys.platform == 'win32' / os.name != 'posix' are pruned",
    "A-kernel": "a worker's sentinel becomes readable iff the process is gone; pipe EOF iff all writers are gone; <=512-byte pipe writes are atomic",
    "A-env": "the kernel's cgroup files are well-formed (cpu.max has two tokens; quota/period are 'max' or integers) and LOKY_MAX_CPU_COUNT, when set, parses as an integer (otherwise cpu_count raises ValueError, as int() does)",
    "A-alias": "the manager thread's tables (processes, pending, running, management lock) are the very objects of the executor its weak reference points to (set once in _ExecutorManagerThread.__init__)",
    "A-pids": "keys of the process table are the pids of started, un-reaped children; the OS gives no new child the pid of an un-reaped one",
    "A-psutil": "psutil's memory probe of the worker's own pid does not raise",
    "A-finalize": "util.Finalize callbacks run when the object is collected or at interpreter exit",
}

COMMON_ABS = [
    "logging calls (mp.util.debug/info) are evaluated for their arguments and then treated as no-ops",
    "platform fixed to linux/posix, sys.version_info fixed to 3.12 (A-posix)",
]

NOT_APPLICABLE = {
    "C01": "liveness over all thread/process interleavings and crash points: function contracts have no notion of schedule, fairness or progress (DESIGN.md section 7, C01); its sequential necessary conditions are obligations of C02-C05",
}

PROPS = {}

PROPS["C17"] = dict(
    proved="cpu_count() == max(1, min(os, affinity, ceil(Q/P) if limited, override)) for every symbolic configuration "
           "(os count incl. None/0, sched_getaffinity present/absent/raising, psutil present/absent/with or without cpu_affinity, "
           "cgroup v2 / v1 / none, 'max' / <=0 / positive quota, any integer override), the only_physical_cores clause incl. "
           "cache states, probe success / zero / failure, exactly one warning on the first failing probe and none later; "
           "each helper against its own term of the formula; callers checked against callee contracts.",
    not_covered="float rounding of quota/period outside os_cpu_count*period < 2**52 (A-float); the probe's subprocess output "
                "parsing beyond 'returns an int >= 0 or raises'; Windows / macOS branches (A-posix).",
    assumptions=["A-float", "A-warn", "A-posix", "A-env"],
    abstractions=COMMON_ABS,
)



# ----------------------------------------------------------------------
# structural obligations: syntactic scans of the *current* source
import ast as _ast
import os as _os


def _scan(repo, rel):
    with open(_os.path.join(repo, rel), encoding="utf-8") as fh:
        return _ast.parse(fh.read())


def _ob(name, ok, detail, function=""):
    return {"name": name, "status": "unsat" if ok else "sat", "backend": "ast-scan", "secs": 0.0, "kind": "structural",
            "function": function, "path": [detail], "model": detail}


def scan_depth_assignments(repo, tier, seed):
    """C19: nothing but _process_worker assigns the module global _CURRENT_DEPTH."""
    tree = _scan(repo, "loky/process_executor.py")
    writers = []
    for fn in [n for n in _ast.walk(tree) if isinstance(n, _ast.FunctionDef)]:
        declares = any(isinstance(s, _ast.Global) and "_CURRENT_DEPTH" in s.names for s in _ast.walk(fn))
        if not declares:
            continue
        for n in _ast.walk(fn):
            tg = []
            if isinstance(n, _ast.Assign):
                tg = n.targets
            elif isinstance(n, (_ast.AugAssign, _ast.AnnAssign)):
                tg = [n.target]
            for t in tg:
                if isinstance(t, _ast.Name) and t.id == "_CURRENT_DEPTH":
                    writers.append(fn.name)
    tops = [n for n in tree.body if isinstance(n, _ast.Assign) and any(isinstance(t, _ast.Name) and t.id == "_CURRENT_DEPTH" for t in n.targets)]
    root_zero = len(tops) == 1 and isinstance(tops[0].value, _ast.Constant) and tops[0].value.value == 0
    out = [_ob("loky.process_executor:<module>:structural/only-the-worker-installs-the-depth", sorted(set(writers)) == ["_process_worker"],
               f"functions assigning _CURRENT_DEPTH: {sorted(set(writers))}"),
           _ob("loky.process_executor:<module>:structural/root-depth-is-zero", root_zero, "module-level `_CURRENT_DEPTH = 0`")]
    md = [n for n in tree.body if isinstance(n, _ast.Assign) and any(isinstance(t, _ast.Name) and t.id == "MAX_DEPTH" for t in n.targets)]
    ok = len(md) == 1 and _ast.unparse(md[0].value).replace('"', "'") == "int(os.environ.get('LOKY_MAX_DEPTH', 10))"
    out.append(_ob("loky.process_executor:<module>:structural/max-depth-from-environment", ok, _ast.unparse(md[0].value) if md else "missing"))
    return out


def scan_worker_spawn_sites(repo, tier, seed):
    """C18/C19: _adjust_process_count is the only place where a worker process is created."""
    sites = []
    for rel in ("loky/process_executor.py", "loky/reusable_executor.py"):
        tree = _scan(repo, rel)
        for fn in [n for n in _ast.walk(tree) if isinstance(n, _ast.FunctionDef)]:
            for n in _ast.walk(fn):
                if isinstance(n, _ast.Call):
                    for kw in n.keywords:
                        if kw.arg == "target" and isinstance(kw.value, _ast.Name) and kw.value.id == "_process_worker":
                            sites.append(f"{rel}:{fn.name}")
                    if isinstance(n.func, _ast.Name) and n.func.id == "_process_worker":
                        sites.append(f"{rel}:{fn.name}(direct call)")
    ok = sorted(set(sites)) == ["loky/process_executor.py:_adjust_process_count"]
    return [_ob("loky.process_executor:<module>:structural/single-worker-spawn-site", ok, f"sites creating workers: {sorted(set(sites))}")]


EXEC_ABS = COMMON_ABS + ["one manager-thread method is treated as atomic w.r.t. the executor's tables (A-atomic)"]

PROPS["C19"] = dict(
    proved="_check_max_depth accepts iff not(fork and d>0) and (MAX_DEPTH<=0 or d<MAX_DEPTH) for all integers d, MAX_DEPTH and every start method, raises "
           "LokyRecursionError otherwise and changes nothing; the constructor checks the depth before creating any lock/pipe/queue and never spawns; every "
           "spawn ships _CURRENT_DEPTH+1 (single spawn site, structural scan); the worker runs every piece of user code with the shipped depth installed; "
           "only the worker assigns the depth and the root starts at 0 (structural scans). Induction over the tree: depth == nesting level.",
    not_covered="the 'fork' branch is proved as written (the start-method name is an arbitrary string); the kernel/interpreter actually passing the argument tuple.",
    assumptions=["A-posix", "A-user"],
    abstractions=COMMON_ABS,
    extra=[scan_depth_assignments, scan_worker_spawn_sites],
)

PROPS["C02"] = dict(
    proved="sequential step contracts of the manager: the wait set contains the result reader, the wake-up reader and every registered worker's sentinel; every "
           "outcome of wait()/recv() is classified as the property says (dead worker => TerminatedWorkerError, a BrokenProcessPool, with the exit codes); "
           "terminate_broken flags first, fails every pending future with that very error, fabricates no result, kills and reaps every worker tree and joins the "
           "internals; run() leaves its loop on `broken` only through terminate_broken; submit re-raises the stored error before touching anything.",
    not_covered="that a death at every instant of a worker's life surfaces as 'sentinel ready, no result, no wake-up' (A-kernel, schedules); interleavings with "
                "the feeder and user threads (A-atomic); futures already resolved are untouched only in the sense that no set_result/other set_exception occurs.",
    assumptions=["A-atomic", "A-kernel", "A-alias", "A-pids", "A-posix"],
    abstractions=EXEC_ABS,
)
PROPS["C04"] = dict(
    proved="for every exception class a task can raise (any BaseException subclass, user classes included) the worker sends exactly one _ResultItem carrying the "
           "task's own id and the wrapped exception and keeps looping; _sendback_result falls back to the pickling error; the feeder's error path fails only the "
           "own future (RuntimeError iff struct.error else PicklingError, remote traceback as cause), forgets the id, frees the slot, wakes the manager and touches no "
           "flag; process_result_item resolves only the own future and never breaks the pool; the exception round-trips through __reduce__/_rebuild_exc.",
    not_covered="interleavings of the feeder thread with dispatch/completion (A-atomic); what pickle does with the reducers (T-stdlib).",
    assumptions=["A-atomic", "A-user", "A-async", "A-psutil", "A-alias", "A-pids"],
    abstractions=EXEC_ABS,
)
PROPS["C05"] = dict(
    proved="run() returns only after terminate_broken or when is_shutting_down() held and nothing was pending, after join_executor_internals; without kill_workers "
           "flag_executor_shutting_down touches no future and no worker; is_shutting_down is exactly the stated formula on the values read; shutdown_workers posts "
           "at most one sentinel per registered worker (all of them unless no child is alive), releases every exit lock and never calls a blocking put; "
           "join_executor_internals closes call queue, feeder, result queue and wake-up pipe in that order and joins every worker; shutdown flags -> wakes (under the "
           "lock) -> joins when asked; submit after shutdown raises ShutdownExecutorError with nothing touched.",
    not_covered="that results in flight are delivered before the manager leaves; sentinel/time-out races; termination of the sentinel loop; atexit ordering.",
    assumptions=["A-atomic", "A-alias", "A-pids", "A-posix"],
    abstractions=EXEC_ABS,
)
PROPS["C06"] = dict(
    proved="with kill_workers read true every pending future gets a ShutdownExecutorError, the pending map is emptied, no result is fabricated, every registered "
           "worker tree is killed and reaped; shutdown() forwards the caller's kill_workers flag before waking the manager.",
    not_covered="wall-clock bound; results already in the pipe; grandchildren spawned between listing and killing; the kill-tree helpers' own bodies are "
                "assumed contracts until utils.py is under contract.",
    assumptions=["A-atomic", "A-alias", "A-posix"],
    abstractions=EXEC_ABS,
)
PROPS["C07"] = dict(
    proved="a worker leaves on time-out only after taking (and releasing) the management lock, never with a call item in hand, always announces its pid before "
           "waiting for its exit lock; a pid message is never 'broken', pops the worker under the management lock, releases its exit lock once, joins it, touches no "
           "future and re-fills the pool (under the lock, with a warning) when work is pending; every submit tops the pool up.",
    not_covered="the race 'sentinel readable before the pid message is read'; expiry racing with dispatch (schedules, A-kernel).",
    assumptions=["A-atomic", "A-alias", "A-pids", "A-user", "A-async", "A-psutil"],
    abstractions=EXEC_ABS,
)
PROPS["C08"] = dict(
    proved="_adjust_process_count never registers more than max(len before, max_workers) workers, fills up to max_workers, keeps every existing worker and starts "
           "each new one; it is reached under the management lock from submit and from the respawn arm; max_workers<=0 is rejected, None means cpu_count(); the call "
           "queue holds 2*max_workers+1 items; every submit tops the pool up.",
    not_covered="the number of task bodies executing concurrently and that max_workers of them do run (scheduler, workers); the _resize call site holds the "
                "submit/resize lock instead of the management lock (as the code does).",
    assumptions=["A-atomic", "A-pids", "A-alias", "A-posix"],
    abstractions=EXEC_ABS,
)
PROPS["C18"] = dict(
    claimed=False,
    proved="", not_covered="", assumptions=[], abstractions=EXEC_ABS, extra=[scan_worker_spawn_sites],
)
