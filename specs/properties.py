"""Per-property registry used by the check driver: extra (structural /
lemma) obligations, what is proved, what is not covered, assumptions."""

ASSUMPTIONS = {
    "A-float": "math.ceil(q / p) is the mathematical ceiling of the rational q/p (exact in CPython whenever os_cpu_count * period < 2**52)",
    "A-warn": "warnings.warn does not raise (warnings are not errors in this process)",
    "A-user": "user callables (tasks, initializers, callbacks, cleanup functions) do not modify loky's internal state",
    "A-atomic": "one manager-thread method is atomic w.r.t. the manager-owned maps (pending/running/processes); interference of submit and of the feeder error path is not proved harmless",
    "A-async": "no asynchronous exception (KeyboardInterrupt between bytecodes, MemoryError) is modelled",
    "A-posix": "Linux/posix, CPython 3.12: branches on sys.platform == 'win32' / os.name != 'posix' are pruned",
    "A-kernel": "a worker's sentinel becomes readable iff the process is gone; pipe EOF iff all writers are gone; <=512-byte pipe writes are atomic",
    "A-alias": "the manager thread's tables (processes, pending, running, management lock) are the very objects of the executor its weak reference points to (set once in _ExecutorManagerThread.__init__)",
    "A-pids": "keys of the process table are the pids of started, un-reaped children; the OS gives no new child the pid of an un-reaped one",
    "A-psutil": "psutil's memory probe of the worker's own pid does not raise",
    "A-finalize": "util.Finalize callbacks run when the object is collected or at interpreter exit",
}

COMMON_ABS = [
    "logging calls (mp.util.debug/info) are evaluated for their arguments and then treated as no-ops",
    "platform fixed to linux/posix, sys.version_info fixed to 3.12 (A-posix)",
]

NOT_APPLICABLE = {
    "C01": "liveness over all thread/process interleavings and crash points: function contracts have no notion of schedule, fairness or progress (DESIGN.md section 7, C01); its sequential necessary conditions are obligations of C02-C05",
}

PROPS = {}

PROPS["C17"] = dict(
    proved="cpu_count() == max(1, min(os, affinity, ceil(Q/P) if limited, override)) for every symbolic configuration "
           "(os count incl. None/0, sched_getaffinity present/absent/raising, psutil present/absent/with or without cpu_affinity, "
           "cgroup v2 / v1 / none, 'max' / <=0 / positive quota, any integer override), the only_physical_cores clause incl. "
           "cache states, probe success / zero / failure, exactly one warning on the first failing probe and none later; "
           "each helper against its own term of the formula; callers checked against callee contracts.",
    not_covered="float rounding of quota/period outside os_cpu_count*period < 2**52 (A-float); the probe's subprocess output "
                "parsing beyond 'returns an int >= 0 or raises'; Windows / macOS branches (A-posix).",
    assumptions=["A-float", "A-warn", "A-posix"],
    abstractions=COMMON_ABS,
)

PROPS["C19"] = dict(
    claimed=False,
    proved="",
    not_covered="",
    assumptions=["A-posix"],
    abstractions=COMMON_ABS,
)
