"""Command line: python3-vt -m pyvc verify <module:qualname> ..."""
import argparse
import json
import os
import sys
import time


def main():
    ap = argparse.ArgumentParser()
    sub = ap.add_subparsers(dest="cmd")
    v = sub.add_parser("verify")
    v.add_argument("keys", nargs="+")
    v.add_argument("--repo", default=os.environ.get("VERIF_REPO", "/repo"))
    v.add_argument("-v", action="store_true")
    a = ap.parse_args()
    sys.path.insert(0, os.path.dirname(os.path.dirname(os.path.abspath(__file__))))
    from pyvc import Engine, EngineError
    from pyvc.source import Repo
    import specs
    schema = specs.load_all()
    if a.cmd == "verify":
        for key in a.keys:
            eng = Engine(schema, Repo(a.repo))
            t0 = time.time()
            try:
                res = eng.verify(key)
            except EngineError as e:
                print(f"ENGINE-ERROR {key}: {e}")
                if a.v:
                    import traceback
                    traceback.print_exc()
                continue
            agg = {}
            for r in res:
                agg.setdefault(r.name, []).append(r)
            for name, rs in agg.items():
                sts = {r.status for r in rs}
                print(f"  {name}: {'/'.join(sorted(sts))} paths={len(rs)} t={sum(r.secs for r in rs):.3f}s")
                if a.v:
                    for r in rs:
                        if r.status not in ("unsat",):
                            print("     path:", r.path)
                            print("     model:", getattr(r, "model_txt", "")[:1500])
            print(f"{key}: {len(res)} VCs, paths={eng.paths}, {time.time()-t0:.2f}s")


if __name__ == "__main__":
    main()
