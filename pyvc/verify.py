"""Spec-language evaluation and the per-function verification driver."""
import ast
import time
import z3

from . import types as ty
from . import solve
from .values import (V, VInt, VBool, VReal, VStr, VNone, VRef, VObj, VOpt,
                     VTuple, VLoc, VSeq, VAbs, VFn, VClass, VModule, VConst,
                     NONE, EngineError, flatten, unflatten, fresh_const,
                     fresh_name, fresh_value, to_obj_term, const_id,
                     is_nullable)
from .state import State, QHyp, Event, initial_array
from .engine import Ctl, VCResult
from .source import assigned_names

SPEC_FUNCS = {
    "old", "at_entry", "implies", "iff", "ite", "forall", "fresh", "log_tags",
    "log_count", "log_arg", "log_before", "held", "exc_is", "keys", "dom_eq",
    "map_eq", "is_int", "is_str", "is_none", "kind", "log_has", "typed",
    "int_of_str", "str_is_int", "ceil_div", "app", "callable_", "attr",
    "log_pos", "yielded", "exists_event", "all_events", "isinstance_",
    "truthy", "mem", "count_held", "seq", "select", "glob0", "obj", "strip",
    "split", "join", "cfg", "reaches", "no_event_between", "log_len", "the",
    "split_ws", "as_", "tail", "has_loop", "ordered", "count_events", "pre", "app_call", "dynattr", "seq1", "prefix_of", "unbox", "is_bound", "obj_id", "cls_is", "cls_id_is", "no_lock_held", "has_dynattr", "local_or",
}


class VArr(V):
    """A ghost array / set value in spec expressions."""

    def __init__(self, t, elem=None):
        self.t = t
        self.elem = elem

    def __repr__(self):
        return f"VArr({self.t})"


class VGhostNS(V):
    pass


def wrap_term(t):
    s = t.sort()
    if s == ty.IntS:
        return VInt(t)
    if s == ty.BoolS:
        return VBool(t)
    if s == ty.RealS:
        return VReal(t)
    if s == ty.StrS:
        return VStr(t)
    if s.kind() == z3.Z3_ARRAY_SORT:
        return VArr(t)
    if s.kind() == z3.Z3_SEQ_SORT:
        return VSeq(t, ty.Obj)
    raise EngineError(f"cannot wrap term of sort {s}")


def term_of(v):
    if isinstance(v, (VInt, VBool, VReal, VStr, VRef, VObj, VArr, VSeq)):
        return v.t
    if isinstance(v, VNone):
        return z3.IntVal(0)
    return to_obj_term(v)


class SpecMixin:
    def spec_names(self):
        return {"G"}

    def spec_name(self, name, st):
        return [self.val(st, VGhostNS())]

    # ------------------------------------------------------------------
    def spec_value(self, expr, st, env, old=None, entry=None, mode="goal", module=None):
        """Evaluate a spec expression (string) to a value, purely."""
        if isinstance(expr, V):
            return expr
        tree = self._parse(expr)
        was_spec, was_ctl = self.spec, self.ctl
        self.spec = True
        prev_ctl = self.ctl
        ctl = Ctl(old=old if old is not None else (prev_ctl.old if prev_ctl else None),
                  entry=entry if entry is not None else (prev_ctl.entry if prev_ctl else None))
        ctl.log_start = getattr(prev_ctl, "log_start", 0) if prev_ctl else 0
        ctl.env = env
        ctl.mode = mode
        ctl.st = st
        ctl.iter = getattr(prev_ctl, "iter", None) if prev_ctl else None
        self.ctl = ctl
        parent = st.cur
        if module is not None:
            prev = st.push_frame(module, "<contract>", parent=None)
        else:
            prev = st.push_frame(st.frames[parent].module if parent else "<spec>", st.frames[parent].func if parent else "<spec>", parent=parent)
        fr = st.frame
        fr.vars.update(env)
        fr.is_spec = True
        try:
            rs = self.ev(tree.body, st)
            if len(rs) != 1 or rs[0][0] != "val":
                raise EngineError(f"spec expression {expr!r} is not a pure single value")
            return rs[0][2]
        finally:
            fid = st.cur
            st.cur = prev
            st.frames.pop(fid, None)
            self.spec, self.ctl = was_spec, was_ctl

    _parse_cache = {}

    def _parse(self, expr):
        t = self._parse_cache.get(expr)
        if t is None:
            try:
                t = ast.parse(expr.strip(), mode="eval")
            except SyntaxError as e:
                raise EngineError(f"bad spec expression {expr!r}: {e}")
            self._parse_cache[expr] = t
        return t

    def spec_eval(self, expr, st, env, old=None, entry=None, mode="goal", module=None):
        v = self.spec_value(expr, st, env, old, entry, mode, module)
        return self.truth(v, st)

    # ------------------------------------------------------------------
    def ev_Call(self, node, st):
        if self.spec and isinstance(node.func, ast.Name):
            if node.func.id in self.schema.spec_funcs:
                vals = [self._one(self.ev(x, st)) for x in node.args]
                return [self.val(st, self.schema.spec_funcs[node.func.id](self, st, *vals))]
            if node.func.id in SPEC_FUNCS:
                return [self.val(st, self.spec_call(node.func.id, node, st))]
        return super().ev_Call(node, st)

    def ev_Attribute(self, node, st):
        if self.spec and isinstance(node.value, ast.Name) and node.value.id == "G":
            name = node.attr
            if name not in self.schema.ghosts:
                raise EngineError(f"unknown ghost {name}")
            w = wrap_term(st.ghost_get(name))
            if isinstance(w, VArr):
                w.elem = self.schema.ghosts[name].elem
            return [self.val(st, w)]
        return super().ev_Attribute(node, st)

    def get_item(self, c, k, st):
        if isinstance(c, VArr):
            t = z3.Select(c.t, term_of(k))
            if c.elem == "obj":
                return [self.val(st, VObj(t))]
            return [self.val(st, wrap_term(t))]
        return super().get_item(c, k, st)

    def contains(self, coll, x, st):
        if isinstance(coll, VArr):
            return z3.Select(coll.t, term_of(x))
        return super().contains(coll, x, st)

    def eq(self, a, b, st):
        if isinstance(a, VArr) and isinstance(b, VArr):
            return a.t == b.t
        return super().eq(a, b, st)

    def _in_state(self, other, node, st):
        """Evaluate node in another state with the current spec bindings."""
        if other is None:
            raise EngineError("old()/at_entry() without a saved state")
        cur_fr = st.frame
        parent = other.cur
        # same parent chain position as in `st`
        sp = cur_fr.parent
        prev = other.push_frame(cur_fr.module, cur_fr.func, parent=sp if sp in other.frames else parent)
        other.frame.vars.update(cur_fr.vars)
        # locals that did not exist yet in the other state (assigned since: loop items, loop indices) resolve to their current values;
        # a local that existed there keeps the value it had there (old(x) / at_entry(x) of a local is its earlier value)
        known = set()
        ofr = other.frames.get(other.frame.parent) if other.frame.parent else None
        while ofr is not None:
            known |= set(ofr.vars)
            ofr = other.frames.get(ofr.parent) if ofr.parent else None
        fr_ = st.frames.get(cur_fr.parent) if cur_fr.parent else None
        while fr_ is not None:
            for n_, v_ in fr_.vars.items():
                if n_ not in known and n_ not in other.frame.vars:
                    other.frame.vars[n_] = v_
            fr_ = st.frames.get(fr_.parent) if fr_.parent else None
        nq, npc = len(other.qhyps), len(other.pc)
        try:
            rs = self.ev(node, other)
            if len(rs) != 1 or rs[0][0] != "val":
                raise EngineError("old(...) is not a pure single value")
            return rs[0][2]
        finally:
            fid = other.cur
            other.cur = prev
            other.frames.pop(fid, None)
            # typing facts discovered while reading the other state hold there forever
            for q in other.qhyps[nq:]:
                st.qhyps.append(q)
            for key_, val_ in getattr(other, "_mvt", {}).items():
                if not any(x is val_[2] for x in st.qhyps):
                    st.qhyps.append(val_[2])
            for f in other.pc[npc:]:
                st.pc.append(f)

    def spec_call(self, name, node, st):
        a = node.args
        ctl = self.ctl

        def val(n):
            return self._one(self.ev(n, st))

        def cstr(n):
            return self._const_str(val(n))

        if name == "old":
            return self._in_state(ctl.old, a[0], st)
        if name == "at_entry":
            return self._in_state(ctl.entry, a[0], st)
        if name == "pre":
            return self._in_state(getattr(ctl, "iter", None), a[0], st)
        if name == "implies":
            ant = z3.simplify(self.truth(val(a[0]), st))
            if z3.is_false(ant):
                return VBool(True)      # lazy: the consequent may be ill-kinded
            return VBool(z3.Implies(ant, self.truth(val(a[1]), st)))
        if name == "iff":
            return VBool(self.truth(val(a[0]), st) == self.truth(val(a[1]), st))
        if name == "ite":
            cnd = z3.simplify(self.truth(val(a[0]), st))
            if z3.is_true(cnd):
                return val(a[1])         # lazy on constants: the other branch may be ill-kinded
            if z3.is_false(cnd):
                return val(a[2])
            return self.merge(cnd, val(a[1]), val(a[2]))
        if name == "forall":
            return self.spec_forall(node, st)
        if name == "fresh":
            v = val(a[0])
            return VBool(z3.And(v.t >= ctl.old.alloc, v.t > 0))
        if name == "held":
            v = val(a[0])
            return VBool(z3.Or([h == v.t for h in st.held] or [z3.BoolVal(False)]))
        if name == "no_lock_held":
            return VBool(z3.BoolVal(len(st.held) == 0))
        if name == "count_held":
            v = val(a[0])
            return VInt(z3.Sum([z3.If(h == v.t, 1, 0) for h in st.held] or [z3.IntVal(0)]))
        if name == "exc_is":
            v = val(a[0])
            cname = cstr(a[1])
            return VBool(z3.And(v.t != 0, self.schema.exc_isinstance(self.exc_cls_term(st, v), cname)))
        if name == "keys":
            m = val(a[0])
            return VArr(st.map_dom(m))
        if name == "dom_eq":
            m1, m2 = val(a[0]), val(a[1])
            return VBool(m1.t == m2.t) if isinstance(m1, VArr) else VBool(st.map_dom(m1) == st.map_dom(m2))
        if name == "tail":
            # evaluate with the log restricted to the events after the last loop summary
            idx = 0
            for k_, e_ in enumerate(st.log):
                if e_.tag.startswith("loop:"):
                    idx = k_ + 1
            saved = (getattr(ctl, "log_start", 0), set(st.log_opaque))
            ctl.log_start = max(idx, saved[0])
            st.log_opaque = set()
            try:
                return val(a[0])
            finally:
                ctl.log_start = saved[0]
                st.log_opaque = saved[1]
        if name == "local_or":
            # local_or('name', default): the value of a local variable of the function under verification when it exists and is bound, else the default
            # (lets an invariant mention a helper variable without turning its absence into an engine error)
            nm = cstr(a[0])
            fr = st.frame
            while fr is not None:
                if nm in fr.vars and fr.vars[nm] is not None:
                    return fr.vars[nm]
                fr = st.frames.get(fr.parent) if fr.parent else None
            return val(a[1])
        if name == "has_loop":
            start0 = getattr(ctl, "log_start", 0)
            return VBool(any(e_.tag.startswith("loop:") for e_ in st.log[start0:]))
        if name == "ordered":
            # ordered(tagA, lamA, tagB, lamB): every A-event with lamA precedes every B-event with lamB
            ta, tb = cstr(a[0]), cstr(a[2])
            start0 = getattr(ctl, "log_start", 0)
            lg = st.log[start0:]
            conds = []
            for i_, ea in enumerate(lg):
                if ea.tag != ta:
                    continue
                for j_, eb in enumerate(lg):
                    if eb.tag != tb or j_ > i_:
                        continue
                    conds.append(z3.Not(z3.And(self._apply_lambda(a[1], ea.args, st), self._apply_lambda(a[3], eb.args, st))))
            return VBool(z3.And(conds) if conds else z3.BoolVal(True))
        if name == "as_":
            v = val(a[0])
            return VRef(term_of(v), cstr(a[1]))
        if name == "the":
            v = val(a[0])
            return v.inner if isinstance(v, VOpt) else v
        if name == "split_ws":
            f = z3.Function("py_split_ws", ty.StrS, z3.SeqSort(ty.StrS))
            return VSeq(f(val(a[0]).t), ty.Str)
        if name == "is_none":
            return VBool(self.eq(val(a[0]), NONE, st))
        if name == "is_int":
            return VBool(isinstance(val(a[0]), (VInt,)))
        if name == "is_str":
            return VBool(isinstance(val(a[0]), VStr))
        if name == "int_of_str":
            from .engine import _str2int
            return VInt(_str2int(val(a[0]).t))
        if name == "str_is_int":
            from .engine import _str_ok_int
            return VBool(_str_ok_int(val(a[0]).t))
        if name == "strip":
            f = z3.Function("py_str_strip", ty.StrS, ty.StrS)
            return VStr(f(val(a[0]).t))
        if name == "split":
            f = z3.Function("py_split", ty.StrS, ty.StrS, z3.SeqSort(ty.StrS))
            return VSeq(f(val(a[0]).t, val(a[1]).t), ty.Str)
        if name == "join":
            f = z3.Function("py_join", ty.StrS, z3.SeqSort(ty.StrS), ty.StrS)
            return VStr(f(val(a[0]).t, val(a[1]).t))
        if name == "ceil_div":
            q, p = self._int(val(a[0])), self._int(val(a[1]))
            return VInt(-((-q) / p))
        if name == "app":
            from .engine import _app
            f = val(a[0])
            args = [val(x) for x in a[1:]]
            return VObj(_app(to_obj_term(f), to_obj_term(VTuple(args))))
        if name == "app_call":
            # app_call(f, star_args, star_kwargs): the result of f(*star_args, **star_kwargs) as call_user encodes it
            from .engine import _app
            from .calls import Star
            f = val(a[0])
            sa = val(a[1])
            kw = val(a[2]) if len(a) > 2 else None
            args_ = self.expand_star(sa, st) if isinstance(sa, (VTuple, VLoc)) else [Star(sa)]
            kwargs_ = {}
            if kw is not None:
                if isinstance(kw, VLoc):
                    kwargs_ = dict(st.loc(kw).data)
                else:
                    kwargs_ = {"**": kw}
            return VObj(_app(to_obj_term(f), self.user_arg_term(args_, kwargs_)))
        if name == "dynattr":
            f_ = z3.Function("obj_getattr_dyn", ty.IntS, ty.StrS, ty.IntS)
            return VObj(f_(to_obj_term(val(a[0])), val(a[1]).t))
        if name == "has_dynattr":
            h_ = z3.Function("obj_hasattr_dyn", ty.IntS, ty.StrS, ty.BoolS)
            return VBool(h_(to_obj_term(val(a[0])), val(a[1]).t))
        if name == "attr":
            from .engine import _attr
            return VObj(_attr(to_obj_term(val(a[0])), z3.IntVal(const_id(f"attr:{cstr(a[1])}"))))
        if name == "callable_":
            return self._one(self.bi_callable([val(a[0])], {}, st, node))
        if name == "truthy":
            return VBool(self.truth(val(a[0]), st))
        if name == "obj":
            return VObj(to_obj_term(val(a[0])))
        if name == "obj_id":
            return VInt(to_obj_term(val(a[0])))
        if name == "cfg":
            return VBool(z3.Bool(f"cfg!{cstr(a[0])}"))
        if name == "mem":
            c = val(a[0])
            x = val(a[1])
            return VBool(self.contains(c, x, st))
        if name == "select":
            return wrap_term(z3.Select(term_of(val(a[0])), term_of(val(a[1]))))
        if name == "seq":
            v = val(a[0])
            if isinstance(v, VRef) and isinstance(v.T, ty.Lst):
                return VSeq(st.lst_get(v), v.T.elem)
            if isinstance(v, VSeq):
                return v
            raise EngineError(f"seq() of {v!r}")
        if name == "is_bound":
            m, recv, mn = val(a[0]), val(a[1]), cstr(a[2])
            ok = isinstance(m, VFn) and m.kind == "bound" and m.name == mn and isinstance(m.self_, VRef)
            return VBool(z3.And(z3.BoolVal(ok), m.self_.t == recv.t) if ok else z3.BoolVal(False))
        if name == "unbox":
            from .engine import _unbox_int
            return VInt(_unbox_int(term_of(val(a[0]))))
        if name == "prefix_of":
            x, y = val(a[0]), val(a[1])
            return VBool(z3.PrefixOf(x.t, y.t))
        if name == "seq1":
            v = val(a[0])
            T_ = self.type_of_value(v)
            return VSeq(z3.Unit(flatten(v, T_)[0]), T_)
        if name == "yielded":
            if st.gen_out is None:
                raise EngineError("yielded() outside a generator")
            return VTuple(list(st.gen_out))
        if name == "cls_id_is":
            # a recorded exception-class id is (a subclass of) the named class
            return VBool(self.schema.exc_isinstance(term_of(val(a[0])), cstr(a[1])))
        if name == "cls_is":
            # exact dynamic class of a reference
            return VBool(st.cls_of(term_of(val(a[0]))) == const_id(f"class:{cstr(a[1])}"))
        if name == "isinstance_":
            return VBool(self.isinstance_cond(val(a[0]), val(a[1]), st))
        # ---- path-local event log
        start = getattr(ctl, "log_start", 0)
        log = st.log[start:]
        if name == "log_tags":
            skip = {cstr(x) for x in a}
            return VTuple([VStr(e.tag) for e in log if e.tag not in skip and not any(e.tag.startswith(p[:-1]) for p in skip if p.endswith("*"))])
        if name == "log_len":
            return VInt(len(log))
        if name == "log_count":
            tag = cstr(a[0])
            self._log_visible(st, tag)
            return VInt(sum(1 for e in log if e.tag == tag))
        if name == "log_has":
            tag = cstr(a[0])
            self._log_visible(st, tag)
            return VBool(any(e.tag == tag for e in log))
        if name == "log_arg":
            tag = cstr(a[0])
            i = self._const_int(val(a[1]))
            j = self._const_int(val(a[2]))
            evs = [e for e in log if e.tag == tag]
            if not (-len(evs) <= i < len(evs)):
                # no such event on this path: an unconstrained value, guard with log_count
                return VObj(fresh_const("noevent", ty.IntS))
            return evs[i].args[j]
        if name == "log_pos":
            tag = cstr(a[0])
            i = self._const_int(val(a[1])) if len(a) > 1 else 0
            idx = [k for k, e in enumerate(log) if e.tag == tag]
            if not (-len(idx) <= i < len(idx)):
                return VInt(-1)
            return VInt(idx[i])
        if name == "log_before":
            ta, tb = cstr(a[0]), cstr(a[1])
            self._log_visible(st, ta)
            self._log_visible(st, tb)
            ia = [k for k, e in enumerate(log) if e.tag == ta]
            ib = [k for k, e in enumerate(log) if e.tag == tb]
            return VBool(all(x < y for x in ia for y in ib))
        if name == "no_event_between":
            # no_event_between(tagA, tagB, tagX): no X strictly between the first A and the last B
            ta, tb, tx = cstr(a[0]), cstr(a[1]), cstr(a[2])
            ia = [k for k, e in enumerate(log) if e.tag == ta]
            ib = [k for k, e in enumerate(log) if e.tag == tb]
            if not ia or not ib:
                return VBool(True)
            lo, hi = ia[0], ib[-1]
            return VBool(not any(e.tag == tx for e in log[lo + 1:hi]))
        if name == "all_events":
            # all_events(tag, lambda a0, a1, ...: cond)
            tag = cstr(a[0])
            self._log_visible(st, tag)
            lam = a[1]
            conds = []
            for e in log:
                if e.tag != tag:
                    continue
                conds.append(self._apply_lambda(lam, e.args, st))
            return VBool(z3.And(conds) if conds else z3.BoolVal(True))
        if name == "count_events":
            tag = cstr(a[0])
            self._log_visible(st, tag)
            lam = a[1]
            terms = [z3.If(self._apply_lambda(lam, e.args, st), 1, 0) for e in log if e.tag == tag]
            return VInt(z3.Sum(terms) if terms else z3.IntVal(0))
        if name == "exists_event":
            # positive use only: a witness in the visible part of the log is enough
            tag = cstr(a[0])
            lam = a[1]
            conds = [self._apply_lambda(lam, e.args, st) for e in log if e.tag == tag]
            return VBool(z3.Or(conds) if conds else z3.BoolVal(False))
        raise EngineError(f"spec function {name} not implemented")

    def _log_visible(self, st, tag):
        start = getattr(self.ctl, "log_start", 0)
        if tag in st.log_opaque and any(e.tag.startswith("loop:") for e in st.log[start:]):
            raise EngineError(
                f"log query on {tag!r}, but such events are hidden by a loop summary; use ghost state")

    def _apply_lambda(self, lam, args, st):
        if not isinstance(lam, ast.Lambda):
            raise EngineError("expected a lambda")
        names = [x.arg for x in lam.args.args]
        fr = st.frame
        saved = {n: fr.vars.get(n, _MISSING) for n in names}
        for n, v in zip(names, args):
            fr.vars[n] = v
        for n in names[len(args):]:
            fr.vars[n] = VConst("<absent-argument>")
        try:
            return self.truth(self._one(self.ev(lam.body, st)), st)
        finally:
            for n, v in saved.items():
                if v is _MISSING:
                    fr.vars.pop(n, None)
                else:
                    fr.vars[n] = v

    def spec_forall(self, node, st):
        """forall(T, lambda k: body).  Goal position: skolemise.  Hypothesis
        position: keep for instantiation (returns True)."""
        Tn, lam = node.args[0], node.args[1]
        T = eval(compile(ast.Expression(Tn), "<type>", "eval"), {n: getattr(ty, n) for n in dir(ty)})
        if isinstance(T, str):
            T = ty.Ref(T)
        sort = T.comps[0]
        ctl = self.ctl
        name = lam.args.args[0].arg

        def typing(t, s_=None):
            s_ = s_ or st
            if isinstance(T, (ty.Ref, ty.Map, ty.Lst, ty.Exc)):
                conds = [t > 0, t < s_.alloc]
                cname = getattr(T, "cls", None)
                if isinstance(T, ty.Ref) and cname in self.schema.classes:
                    subs = [n for n in self.schema.classes if cname in self.schema.mro(n)]
                    conds.append(z3.Or([s_.cls_of(t) == const_id(f"class:{n}") for n in subs]))
                elif isinstance(T, ty.Exc):
                    conds.append(s_.cls_of(t) == const_id("class:<exc>"))
                return z3.And(conds)
            return z3.BoolVal(True)

        if ctl.mode == "goal":
            k = fresh_const(f"sk_{name}", sort)
            body = self._apply_lambda(lam, [unflatten(T, (k,))], st)
            return VBool(z3.Implies(typing(k), body))
        # hypothesis: instantiate lazily against a frozen copy of the states
        st_c = st.clone()
        ctl_c = Ctl(old=ctl.old, entry=ctl.entry)
        ctl_c.log_start = getattr(ctl, "log_start", 0)
        ctl_c.env = getattr(ctl, "env", {})
        ctl_c.mode = "hyp"
        frame_vars = dict(st.frame.vars)
        spec_parent = st.frame.parent

        def body_at(t, self=self, st_c=st_c, ctl_c=ctl_c, lam=lam, T=T):
            s = st_c.clone()
            was_spec, was_ctl = self.spec, self.ctl
            self.spec, self.ctl = True, ctl_c
            ctl_c.st = s
            prev = s.push_frame(s.frames[spec_parent].module if spec_parent in s.frames else "<spec>",
                                s.frames[spec_parent].func if spec_parent in s.frames else "<spec>",
                                parent=spec_parent if spec_parent in s.frames else None)
            s.frame.vars.update(frame_vars)
            try:
                b = self._apply_lambda(lam, [unflatten(T, (t,))], s)
                return z3.Implies(typing(t, s), b)
            finally:
                self.spec, self.ctl = was_spec, was_ctl
        st.qhyps.append(QHyp(sort, body_at, f"forall {name}"))
        return VBool(True)


_MISSING = object()


class VerifyMixin:
    def verify(self, key):
        """Generate and discharge all obligations of one contract."""
        c = self.schema.contracts[key]
        if c.trusted:
            raise EngineError(f"{key} is a trusted external, nothing to verify")
        mi, fnode = self.repo.func(key)
        self.cur_key = key
        self.cur_contract = c
        self.call_stack = [key]
        t0 = time.time()
        n_before = len(self.results)
        st = State(self.schema)
        st.push_frame(mi.name, key)
        # symbolic parameters
        entries = [(st, {})]
        plist = list(c.params)
        if c.vararg:
            plist.append((c.vararg[0], c.vararg[1], False, None))
        if c.kwarg:
            plist.append((c.kwarg[0], c.kwarg[1], False, None))
        src_names = [x.arg for x in fnode.args.posonlyargs + fnode.args.args + fnode.args.kwonlyargs]
        if fnode.args.vararg:
            src_names.append(fnode.args.vararg.arg)
        if fnode.args.kwarg:
            src_names.append(fnode.args.kwarg.arg)
        declared = [p[0] for p in plist]
        extra_free = getattr(c, "free_vars", {})
        for nm, FT in extra_free.items():
            plist.append((nm, FT, False, None))
        declared = [p[0] for p in plist]
        for nm in declared:
            if nm not in src_names and nm not in extra_free:
                raise EngineError(f"contract {key}: parameter {nm!r} not in the source signature {src_names}")
        for nm in src_names:
            if nm not in declared and nm not in extra_free:
                raise EngineError(f"contract {key}: source parameter {nm!r} has no declaration")
        for nm, T, has_d, d in plist:
            nxt = []
            for s, env in entries:
                for s2, v in self.fresh_of_type(s, T, f"p_{nm}"):
                    e2 = dict(env)
                    e2[nm] = v
                    nxt.append((s2, e2))
            entries = nxt
        self.check_defaults(c, key, mi, fnode)
        n_paths = 0
        exits = []
        for s, env in entries:
            states = [s]
            for gname in getattr(c, "touch_", []):
                nxt2 = []
                for s_ in states:
                    nxt2 += [x[0] for x in self.glob_value(s_, mi.name, gname)]
                states = nxt2
            for s_ in states:
                n_paths += self._verify_entry(c, key, mi, fnode, s_, env, src_names, exits)
        self.paths = n_paths
        # vacuity guards
        self.vacuity(c, key, n_paths, exits)
        return self.results[n_before:]

    def check_defaults(self, c, key, mi, fnode):
        """A default declared in the contract (callers rely on it) must be the literal default of the source."""
        a = fnode.args
        pos = a.posonlyargs + a.args
        src = {}
        for arg, d in zip(pos[len(pos) - len(a.defaults):], a.defaults):
            src[arg.arg] = d
        for arg, d in zip(a.kwonlyargs, a.kw_defaults):
            if d is not None:
                src[arg.arg] = d
        for nm, T, has_d, d in c.params:
            if not has_d or nm not in src or not isinstance(d, V):
                continue
            node = src[nm]
            if not self._is_literal(node):
                continue
            st0 = self._scratch_state(mi.name)
            sv = self._one(self.ev(node, st0))
            try:
                same = z3.simplify(self.eq(sv, d, st0)) if not (isinstance(sv, VTuple) and isinstance(d, VNone)) else z3.BoolVal(True)
            except EngineError:
                continue
            ok = z3.is_true(same)
            self.results.append(VCResult(f"{key}:defaults/{nm}", self.prop_of(None), key, "unsat" if ok else "sat", "ast-scan", 0.0,
                                         [f"source default {ast.unparse(node)} vs contract default {d!r}"], None, kind="structural"))

    def _verify_entry(self, c, key, mi, fnode, s, env, src_names, exits):
        fr = s.frame
        fr.vars.update(env)
        fr.local_names = assigned_names(fnode.body) | set(env)
        # every declared (non-union) module global has its entry value from the start
        for (gm, gn), gd in self.schema.globs.items():
            if gm != "<ext>" and not isinstance(gd.T, ty.Union) and (gm, gn) not in s.globs:
                was = self.spec
                self.spec = True
                try:
                    self.glob_value(s, gm, gn)
                finally:
                    self.spec = was
        qual = key.split(":")[1]
        if "." in qual and "<locals>" not in qual:
            fr.cls = self.schema.src_class.get((mi.name, qual.rsplit(".", 1)[0]))
        else:
            fr.cls = getattr(c, "in_class", None)
        fr.self_name = src_names[0] if src_names else None
        spec_env = dict(env)
        for nm, expr in c.lets:
            spec_env[nm] = self.spec_value(expr, s, spec_env)
        for label, expr in c.requires_:
            s.assume(self.spec_eval(expr, s, spec_env, mode="hyp"))
        for label, expr, tag in getattr(c, "relies_", []):
            s.assume(self.spec_eval(expr, s, spec_env, mode="hyp"))
        for lk in c.entry_held:
            s.held.append(self.spec_value(lk, s, spec_env).t)
        if not self.feasible(s):
            return 0
        old = s.clone()
        self.ctl = Ctl(old=old)
        self.ctl.log_start = len(s.log)
        self.cur_env = spec_env
        if getattr(c, "generator", False):
            s.gen_out = []
        hooks = []
        for label, expr, prop in getattr(c, "at_user_call_", []):
            hooks.append(self._mk_user_hook(key, label, expr, prop, spec_env, old))
        self.user_call_hooks = hooks
        self.at_call_hooks = [(ck, self._mk_call_hook(key, ck, label, expr, prop, spec_env, old))
                              for ck, label, expr, prop in getattr(c, "at_call_", [])]
        for ck, paths, guar, _tag, when in getattr(c, "yield_at_", []):
            self.at_call_hooks.append((ck, self._mk_yield_hook(paths, guar, spec_env, old, when)))
        outs = self.exec_block(fnode.body, s)
        self.user_call_hooks = []
        self.at_call_hooks = []
        n = 0
        for o in outs:
            n += 1
            self.check_exit(c, key, o, spec_env, old, exits)
        return n

    def _mk_user_hook(self, key, label, expr, prop, env, old):
        def hook(engine, fn, args, kwargs, st, node):
            e2 = dict(env)
            e2["callee"] = fn
            g = engine.spec_eval(expr, st, e2, old=old)
            src = ""
            if isinstance(node, ast.Call):
                src = "@" + ast.unparse(node.func)
            engine.prove(st, g, f"{key}:at-user-call/{label}{src}", prop=engine.prop_of(prop),
                         kind="user-call", site=engine.site(node))
        return hook

    def _mk_yield_hook(self, paths, guarantee, env, old, when=None):
        def hook(engine, cenv, st, node):
            engine._havoc_mod = None
            if when is not None:
                w = z3.simplify(engine.spec_eval(when, st, dict(env), old=old))
                if z3.is_false(w):
                    return
                if not z3.is_true(w):
                    raise EngineError(f"yield point condition {when!r} is not decided at the call")
            for p_ in paths:
                engine.havoc_path(p_, st, env)
            if guarantee:
                st.assume(engine.spec_eval(guarantee, st, dict(env), old=old, mode="hyp"))
            engine.abstractions.add("interference at declared yield points (time.sleep in polling loops): the shared state named there is havocked")
        return hook

    def _mk_call_hook(self, key, callee_key, label, expr, prop, env, old):
        def hook(engine, cenv, st, node):
            e2 = dict(env)
            for k_, v_ in (cenv or {}).items():
                e2[f"arg_{k_}"] = v_
            g = engine.spec_eval(expr, st, e2, old=old)
            engine.prove(st, g, f"{key}:at-call:{callee_key.split(':')[-1]}/{label}", prop=engine.prop_of(prop),
                         kind="at-call", site=engine.site(node))
        return hook

    def check_exit(self, c, key, o, env, old, exits):
        kind, s, v = o
        self.ctl = Ctl(old=old)
        self.ctl.log_start = len(old.log)
        self.cur_env = env
        if kind in ("brk", "cont"):
            raise EngineError(f"{kind} escaped function {key}")
        if kind in ("next", "ret"):
            res = v if kind == "ret" else NONE
            # the declared return type is what callers assume (a fresh value of that type): a scalar of another kind (a sentinel string where an
            # integer is promised, None where a value is promised) is a violation, not an engine error in the clauses that compare it
            RT = c.returns_
            scal = {ty._Int: (VInt,), ty._Str: (VStr,), ty._Bool: (VBool,), ty._Real: (VReal, VInt)}
            want = scal.get(type(RT.inner if isinstance(RT, ty.Opt) else RT))
            if want is not None and isinstance(res, (VInt, VStr, VBool, VReal, VNone)) and not isinstance(res, want) \
                    and not (isinstance(res, VNone) and isinstance(RT, ty.Opt)) and not (isinstance(res, VBool) and VInt in want):
                self.prove(s, z3.BoolVal(False), f"{key}:post/returns-a-value-of-the-declared-type", prop=self.prop_of(None))
                exits.append(("ret", s, dict(env), old))
                self.check_frame(c, key, s, old, env)
                return
            e2 = dict(env)
            e2[c.result_name] = res
            self.cur_env = e2
            for label, expr, prop in c.ensures_:
                g = self.spec_eval(expr, s, e2, old=old)
                self.prove(s, g, f"{key}:post/{label}", prop=self.prop_of(prop))
            exits.append(("ret", s, e2, old))
        else:
            e2 = dict(env)
            e2["exc"] = v
            cls_t = self.exc_cls_term(s, v)
            matched = []
            for label, exc, when, post, prop in c.exsures_:
                is_e = self.schema.exc_isinstance(cls_t, exc)
                parts = []
                if when is not None:
                    parts.append(self._in_old(when, old, e2))
                if post is not None:
                    parts.append(self.spec_eval(post, s, e2, old=old))
                g = z3.Implies(is_e, z3.And(parts) if parts else z3.BoolVal(True))
                self.prove(s, g, f"{key}:raises/{label}", prop=self.prop_of(prop))
                matched.append(is_e)
            if c.only_raises is not None:
                label, prop = c.only_raises
                g = z3.Or(matched) if matched else z3.BoolVal(False)
                r = self.prove(s, g, f"{key}:{label}", prop=self.prop_of(prop))
            exits.append(("exc", s, e2, old))
        self.check_frame(c, key, s, old, env)

    def _in_old(self, expr, old, env):
        o = old.clone()
        return self.spec_eval(expr, o, env, old=old)

    # ------------------------------------------------------------------
    def check_frame(self, c, key, st, old, env):
        """Everything not named in `modifies` is unchanged."""
        if c.modifies_ is None:
            return
        allowed_fields = {}
        allowed_maps = {}
        allowed_lsts = {}
        ghosts = set()
        globs = set()
        for path in c.modifies_:
            path = path.strip()
            if path.startswith("G."):
                ghosts.add(path[2:])
            elif path.startswith("glob:"):
                mod, name = path[5:].rsplit(".", 1)
                globs.add((mod, name))
            elif path.startswith("contents("):
                try:
                    v = self.spec_value(path[9:-1], old.clone(), env, old=old)
                except EngineError:
                    self._havoc_mod = key.split(":")[0]
                    v = self._none_owner(path[9:-1], old.clone(), env)
                if isinstance(v, VNone):
                    continue
                if isinstance(v, VRef) and isinstance(v.T, ty.Map):
                    allowed_maps.setdefault(v.T.cls, []).append(v.t)
                elif isinstance(v, VRef) and isinstance(v.T, ty.Lst):
                    allowed_lsts.setdefault(v.T.cls, []).append(v.t)
                else:
                    raise EngineError(f"modifies {path}: not a container")
            else:
                objx, field = path.rsplit(".", 1)
                try:
                    v = self.spec_value(objx, old.clone(), env, old=old)
                except EngineError:
                    self._havoc_mod = key.split(":")[0]
                    v = self._none_owner(objx, old.clone(), env)
                if isinstance(v, VNone):
                    continue
                if not isinstance(v, VRef):
                    raise EngineError(f"modifies {path}: {v!r} is not a reference")
                owner, T = self.schema.field(v.cls, field)
                allowed_fields.setdefault((owner, field), []).append(v.t)
        for hk, arrs in st.heap.items():
            oarrs = old.heap.get(hk)
            if oarrs is None:
                oarrs = self._initial_arrays(hk, arrs)
            if all(a.eq(b) for a, b in zip(arrs, oarrs)):
                continue
            cls, field = hk
            if cls == "<obj>":
                continue        # allocation metadata, written at fresh addresses only
            if cls.startswith("dict[") and field in ("dom", "val", "len"):
                allow = allowed_maps.get(cls, [])
            elif cls.startswith("list[") and field == "items":
                allow = allowed_lsts.get(cls, [])
            else:
                allow = allowed_fields.get(hk, [])
            a = fresh_const("fa", ty.IntS)
            cond = z3.And([a > 0, a < old.alloc] + [a != t for t in allow])
            goal = z3.Implies(cond, z3.And([z3.Select(x, a) == z3.Select(y, a) for x, y in zip(arrs, oarrs)]))
            self.prove(st, goal, f"{key}:frame/{cls}.{field}", prop=self.prop_of(None), kind="frame")
        for name, t in st.ghost.items():
            if name in ghosts:
                continue
            ot = old.ghost.get(name)
            if ot is None:
                ot = z3.Const(f"G0!{name}", self.schema.ghosts[name].sort)
            if t.eq(ot):
                continue
            self.prove(st, t == ot, f"{key}:frame/G.{name}", prop=self.prop_of(None), kind="frame")
        for gk, v in st.globs.items():
            if gk in globs:
                continue
            ov = old.globs.get(gk)
            if ov is v:
                continue
            if ov is None:
                # first touched during the body: compare with the initial symbol
                continue_ok = False
                try:
                    o2 = old.clone()
                    was = self.spec
                    self.spec = True
                    try:
                        ov = self.glob_value(o2, gk[0], gk[1])[0][1]
                    finally:
                        self.spec = was
                except EngineError:
                    ov = None
            if ov is None:
                self.prove(st, z3.BoolVal(False), f"{key}:frame/glob:{gk[1]}", prop=self.prop_of(None), kind="frame")
                continue
            try:
                g = self.identical(v, ov, st) if not isinstance(v, (VInt, VStr, VReal, VBool)) else self.eq(v, ov, st)
            except EngineError:
                g = z3.BoolVal(False)
            self.prove(st, g, f"{key}:frame/glob:{gk[1]}", prop=self.prop_of(None), kind="frame")

    def _initial_arrays(self, hk, arrs):
        cls, field = hk
        return tuple(initial_array(cls, field, i, a.sort().range()) for i, a in enumerate(arrs))

    # ------------------------------------------------------------------
    def vacuity(self, c, key, n_paths, exits):
        def rec(name, ok, detail=""):
            self.results.append(VCResult(name, self.prop_of(None), key, "unsat" if ok else "vacuous",
                                         "guard", 0.0, [detail], None, kind="guard"))
        rec(f"{key}:guard/reachable", n_paths > 0, f"{n_paths} exit paths")
        want = c.expect_.get("paths")
        if want is not None:
            rec(f"{key}:guard/min-paths", n_paths >= want, f"{n_paths} >= {want}")
        for label, expr in c.covers_:
            hit = False
            for kind, s, env, old in exits:
                try:
                    self.ctl = Ctl(old=old)
                    self.ctl.log_start = len(old.log)
                    g = self.spec_eval(expr, s.clone(), env, old=old)
                except EngineError:
                    continue
                if solve.feasible(s.pc + [g]):
                    hit = True
                    break
            rec(f"{key}:guard/cover/{label}", hit, expr)
        for label, expr in c.twins_:
            refuted = False
            for kind, s, env, old in exits:
                if kind != "ret":
                    continue
                s2 = s.clone()
                self.ctl = Ctl(old=old)
                self.ctl.log_start = len(old.log)
                g = self.spec_eval(expr, s2, env, old=old)
                insts = solve.instantiate(s2.qhyps, s2.pc + [z3.Not(g)]) if s2.qhyps else []
                v = solve.check(s2.pc + insts + [z3.Not(g)], want_model=False)
                if v.status == "sat":
                    refuted = True
                    break
            rec(f"{key}:guard/twin/{label}", refuted, expr)
