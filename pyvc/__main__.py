from .cli import main
main()
