"""Attribute access, calls, builtins, methods of built-in containers,
contract application, inlining, user (opaque) calls."""
import ast
import z3

from . import types as ty
from .values import (V, VInt, VBool, VReal, VStr, VNone, VRef, VObj, VOpt,
                     VTuple, VLoc, VSeq, VAbs, VFn, VClass, VModule, VConst,
                     NONE, EngineError, flatten, unflatten, fresh_const,
                     fresh_name, fresh_value, to_obj_term, const_id,
                     is_nullable)
from .engine import (_truthy, _obj_eq, _attr, _app, _callable, _str2int,
                     _str_ok_int, _hasattr, _isinst, _unbox_int)
from .state import QHyp, Event
from .source import assigned_names

EXC_FIELDS = {"__cause__": "cause", "__traceback__": "tb", "errno": "errno",
              "returncode": "returncode", "msg": "msg", "tb": "tb",
              "__context__": "context", "args": "payload"}


import re
LOG_CLAUSE = re.compile(r"\b(log_[a-z_]+|all_events|exists_event|ordered|tail|has_loop|yielded)\(")


class Star:
    def __init__(self, v):
        self.v = v


class CallMixin:
    # ------------------------------------------------------------------
    # attributes
    def get_attr(self, v, name, st, node=None):
        if isinstance(v, VOpt):
            raise EngineError(f"attribute {name} of an optional (not split)")
        if isinstance(v, VNone):
            return [self.raise_new(st, "AttributeError")]
        if isinstance(v, VRef):
            if v.cls == "<exc>":
                if name in EXC_FIELDS:
                    fv, T = st.read_field(v, EXC_FIELDS[name])
                    return [self.val(s, x) for s, x in self.split_value(st, fv, T)]
                if name == "__class__":
                    return [self.val(st, VObj(to_obj_term(VInt(self.exc_cls_term(st, v)))))]
                if self.schema.has_field("<exc>", name):
                    fv, T = st.read_field(v, name)
                    return [self.val(s, x) for s, x in self.split_value(st, fv, T)]
                raise EngineError(f"exception attribute {name}")
            if isinstance(v.T, (ty.Map, ty.Lst)):
                return [self.val(st, VFn("cmethod", name=name, self_=v))]
            fw = self.forwarded(v.cls, name)
            if fw is not None:
                tgt, T = st.read_field(v, fw[0])
                return [self.val(st, VFn("bound", name=fw[1], self_=tgt))]
            if self.schema.has_field(v.cls, name):
                fv, T = st.read_field(v, name)
                return [self.val(s, x) for s, x in self.split_value(st, fv, T)]
            m = self.find_method(v.cls, name)
            if m is not None:
                return [self.val(st, VFn("bound", name=name, self_=v))]
            if name == "__class__":
                return [self.val(st, VClass(v.cls))]
            if name == "__module__":
                d_ = self.schema.classes.get(v.cls)
                return [self.val(st, VStr(d_.module or "" if d_ else ""))]
            if name == "__dict__":
                # the instance dictionary, only usable through .get(name[, default]) (= getattr restricted to instance attributes)
                return [self.val(st, VFn("instdict", name="__dict__", self_=v))]
            lit = self._class_level_literal(v.cls, name)
            if lit is not None:
                # an attribute the schema does not declare but the class body defines as a literal (a default, a cache slot): an instance may have
                # stored its own value under that name (uninterpreted presence / value), otherwise the class-level literal is read
                f_ = z3.Function("obj_getattr_dyn", ty.IntS, ty.StrS, ty.IntS)
                h_ = z3.Function("obj_hasattr_dyn", ty.IntS, ty.StrS, ty.BoolS)
                self.abstractions.add("attribute defined by a class-level literal and not declared in the schema: instance override is uninterpreted")
                ot = to_obj_term(v)
                out_ = []
                for b_, s_ in self.branch(st, h_(ot, z3.StringVal(name))):
                    if b_:
                        out_.append(self.val(s_, VObj(f_(ot, z3.StringVal(name)))))
                    else:
                        out_ += self.ev(lit, s_)
                return out_
            raise EngineError(f"class {v.cls} has no field or method {name!r} in the schema")
        if isinstance(v, VModule):
            dotted = f"{v.name}.{name}"
            if v.name == "loky" or v.name.startswith("loky."):
                if self.repo.has_module(dotted):
                    return [self.val(st, VModule(dotted))]
                return self.lookup_global(v.name, name, st)
            return [self.val(st, self.ext_symbol(dotted, st))]
        if isinstance(v, VClass):
            if name == "__name__":
                return [self.val(st, VStr(v.name.rsplit(":", 1)[-1]))]
            if name == "__module__":
                return [self.val(st, VStr(v.module or ""))]
            m = self.find_method(v.name, name)
            if m is not None:
                return [self.val(st, VFn("unbound", name=name, extra=v.name))]
            key = f"{v.name}.{name}"
            if key in self.schema.contracts:
                return [self.val(st, VFn("ext", name=key))]
            cls_attrs = getattr(self.schema, "class_attrs", {})
            if (v.name, name) in cls_attrs:
                return [self.val(st, cls_attrs[(v.name, name)])]
            return [self.val(st, VConst(f"{v.name}.{name}"))]
        if isinstance(v, VObj):
            nid = z3.IntVal(const_id(f"attr:{name}"))
            if name == "__call__":
                return [self.val(st, VFn("opaque", t=v.t))]
            self.abstractions.add("attributes of opaque objects are uninterpreted obj_attr(o, name)")
            return [self.val(st, VObj(_attr(v.t, nid)))]
        if isinstance(v, (VStr, VLoc, VTuple, VSeq, VAbs)):
            return [self.val(st, VFn("cmethod", name=name, self_=v))]
        if isinstance(v, VFn):
            if name == "__module__":
                mod = v.module or (v.name.split(":")[0] if v.name and ":" in v.name else "")
                return [self.val(st, VStr(mod))]
            if name == "__name__":
                nm = (v.name or "").split(":")[-1].split(".")[-1]
                return [self.val(st, VStr(nm))]
            if v.kind == "opaque":
                nid = z3.IntVal(const_id(f"attr:{name}"))
                return [self.val(st, VObj(_attr(v.t, nid)))]
            if v.kind == "instdict" and name == "get":
                return [self.val(st, VFn("instdict_get", name="get", self_=v.self_))]
            if v.kind == "partial":
                if name == "func":
                    return [self.val(st, v.extra[0])]
                if name == "args":
                    return [self.val(st, VTuple(v.extra[1]))]
                if name == "keywords":
                    return [self.val(st, st.new_loc("dict", dict(v.extra[2])))]
            if name == "__doc__":
                return [self.val(st, VObj(fresh_const("doc", ty.IntS)))]
            if v.kind == "ext":
                return [self.val(st, self.ext_symbol(f"{v.name}.{name}", st))]
            if v.kind == "builtin" and v.name == "dict" and name == "fromkeys":
                return [self.val(st, VFn("dict_fromkeys", name="fromkeys"))]
            raise EngineError(f"attribute {name} of function {v!r}")
        if isinstance(v, VConst):
            return [self.val(st, VConst(f"{v.name}.{name}"))]
        if isinstance(v, VInt) or isinstance(v, VBool) or isinstance(v, VReal):
            return [self.val(st, VFn("cmethod", name=name, self_=v))]
        raise EngineError(f"attribute {name} of {v!r}")

    def set_attr(self, v, name, val, st):
        if isinstance(v, VRef):
            if v.cls == "<exc>":
                fld = EXC_FIELDS.get(name, name)
                st.write_field(v, fld, val)
                return [("next", st, None)]
            fw = self.forwarded(v.cls, name)
            if fw is not None:
                # self.acquire = self._semlock.acquire: an instance attribute that must forward to the wrapped object
                st.emit("bind_method", [v, VStr(name), val])
                return [("next", st, None)]
            if not self.schema.has_field(v.cls, name):
                if getattr(self, "cur_key", None) and not self.spec:
                    # the code under verification stores an attribute the class is not declared to have (a cache, a flag): it is outside every
                    # `modifies` frame, hence a frame violation of the function - reported as such, not as an engine error
                    self.prove(st, z3.BoolVal(False), f"{self.cur_key}:frame/writes-an-attribute-the-class-does-not-declare:{v.cls}.{name}",
                               prop=self.prop_of(None))
                    return [("next", st, None)]
                raise EngineError(f"write to undeclared field {v.cls}.{name}")
            self.check_guarded_write(v, name, st)
            if isinstance(val, VLoc):
                _o, FT = self.schema.field(v.cls, name)
                val = self.heapify(val, FT, st)
            st.write_field(v, name, val)
            return [("next", st, None)]
        if isinstance(v, VObj):
            # attribute store on an opaque object (e.g. e.args = ...): event
            st.emit("setattr", [v, VStr(name), val])
            return [("next", st, None)]
        if isinstance(v, (VModule, VConst)):
            # assignment to an attribute of an external module / object (sys.path, sys.argv, ...): not tracked
            self.abstractions.add("assignments to attributes of external modules (sys.path, sys.argv, process.ORIGINAL_DIR) are dropped")
            return [("next", st, None)]
        if isinstance(v, (VFn, VClass)):
            st.emit("setattr", [v, VStr(name), val])
            return [("next", st, None)]
        raise EngineError(f"attribute store on {v!r}")

    def forwarded(self, cls, name):
        for c_ in self.schema.mro(cls):
            d = self.schema.classes.get(c_)
            if d is not None and name in getattr(d, "forward", {}):
                return d.forward[name]
        return None

    def check_guarded_write(self, ref, field, st):
        pass

    def _class_level_literal(self, cls, name):
        """The literal a class body (along the MRO, in the verified source) assigns to `name`, or None."""
        for c in self.schema.mro(cls):
            d = self.schema.classes.get(c)
            if d is None or not d.module:
                continue
            try:
                mi = self.repo.module(d.module)
            except EngineError:
                continue
            cnode = mi.classes.get(d.src_name or c) if hasattr(mi, "classes") else None
            if cnode is None:
                continue
            for stmt_ in cnode.body:
                if isinstance(stmt_, ast.Assign) and len(stmt_.targets) == 1 and isinstance(stmt_.targets[0], ast.Name) and \
                        stmt_.targets[0].id == name and isinstance(stmt_.value, ast.Constant):
                    return stmt_.value
        return None

    def find_method(self, cls, name):
        """('src', module, FunctionDef, cls) | ('ext', key) | None along the MRO."""
        for c in self.schema.mro(cls):
            key = f"{c}.{name}"
            d = self.schema.classes.get(c)
            if d is not None and d.module:
                mi = self.repo.module(d.module)
                q = f"{d.src_path or d.src_name}.{name}"
                if q in mi.funcs:
                    return ("src", d.module, mi.funcs[q], c, q)
                if d.src_path:
                    try:
                        _mi, fnode = self.repo.func(f"{d.module}:{q}")
                        if isinstance(fnode, ast.FunctionDef) and fnode.name == name:
                            return ("src", d.module, fnode, c, q)
                    except EngineError:
                        pass
            if key in self.schema.contracts:
                return ("ext", key, None, c, None)
        return None

    # ------------------------------------------------------------------
    # calls
    def ev_Call(self, node, st):
        out = []
        # super() needs the syntactic context
        if isinstance(node.func, ast.Attribute) and isinstance(node.func.value, ast.Call) \
                and isinstance(node.func.value.func, ast.Name) and node.func.value.func.id == "super":
            return self.ev_super_call(node, st)
        for r in self.ev(node.func, st):
            if r[0] == "exc":
                out.append(r)
                continue
            fn = r[2]
            arg_nodes = [a.value if isinstance(a, ast.Starred) else a for a in node.args]
            kw_nodes = [k.value for k in node.keywords]
            for kind, s, vs in self.ev_list(arg_nodes + kw_nodes, r[1]):
                if kind == "exc":
                    out.append((kind, s, vs))
                    continue
                args = []
                for a, v in zip(node.args, vs):
                    if isinstance(a, ast.Starred):
                        args += self.expand_star(v, s)
                    else:
                        args.append(v)
                kwargs = {}
                for k, v in zip(node.keywords, vs[len(node.args):]):
                    if k.arg is None:
                        if isinstance(v, VLoc) and s.loc(v).kind == "dict":
                            kwargs.update(s.loc(v).data)
                        else:
                            kwargs["**"] = v
                    else:
                        kwargs[k.arg] = v
                out += self.call_value(fn, args, kwargs, s, node)
        return out

    def expand_star(self, v, st):
        if isinstance(v, (VTuple, VLoc)):
            return self.concrete_items(v, st)
        return [Star(v)]

    def site(self, node):
        return getattr(node, "lineno", None)

    def call_value(self, fn, args, kwargs, st, node=None):
        if isinstance(fn, VFn):
            k = fn.kind
            if k == "builtin":
                return self.call_builtin(fn.name, args, kwargs, st, node)
            if k == "cmethod":
                return self.call_cmethod(fn.self_, fn.name, args, kwargs, st, node)
            if k == "func":
                return self.call_loky_func(fn.name, None, args, kwargs, st, node)
            if k == "bound":
                return self.call_method(fn.self_, fn.name, args, kwargs, st, node)
            if k == "unbound":
                m0 = self.find_method(fn.extra, fn.name)
                if m0 and m0[0] == "src" and self._is_classmethod(m0[2]):
                    # Class.method(...): the class itself is the first argument
                    return self.call_loky_func(f"{m0[1]}:{m0[4]}", VClass(fn.extra), args, kwargs, st, node)
                if not args:
                    m = self.find_method(fn.extra, fn.name)
                    if m and m[0] == "src" and self._is_static(m[2]):
                        return self.call_src_method(m, None, args, kwargs, st, node)
                    raise EngineError("unbound method call without self")
                m = self.find_method(fn.extra, fn.name)
                if m and m[0] == "src" and self._is_static(m[2]):
                    return self.call_src_method(m, None, args, kwargs, st, node)
                return self.call_method(args[0], fn.name, args[1:], kwargs, st, node, start_cls=fn.extra)
            if k == "dict_fromkeys":
                # dict.fromkeys(iterable[, value]) over a concrete iterable: exact, and every key maps to the SAME value object (no copy), as in CPython
                if kwargs or not 1 <= len(args) <= 2:
                    raise EngineError("dict.fromkeys: unsupported call shape")
                dflt = args[1] if len(args) > 1 else NONE
                data = {}
                for kv in self.concrete_items(args[0], st):
                    data[self._key_const(kv)] = dflt
                return [self.val(st, st.new_loc("dict", data))]
            if k == "instdict_get":
                # obj.__dict__.get(name[, default]): a declared field is always set by the constructor; any other name may or may not have been stored
                # on the instance (uninterpreted presence, as getattr with a computed name)
                nm, dflt = args[0], (args[1] if len(args) > 1 else NONE)
                ov = fn.self_
                if isinstance(nm, VStr) and z3.is_string_value(z3.simplify(nm.t)) and isinstance(ov, VRef) and self.schema.has_field(ov.cls, self._const_str(nm)):
                    return self.get_attr(ov, self._const_str(nm), st, node)
                f_ = z3.Function("obj_getattr_dyn", ty.IntS, ty.StrS, ty.IntS)
                h_ = z3.Function("obj_hasattr_dyn", ty.IntS, ty.StrS, ty.BoolS)
                self.abstractions.add("obj.__dict__.get(name) for an undeclared name: uninterpreted presence / value")
                ot = to_obj_term(ov)
                out = []
                for b, s_ in self.branch(st, h_(ot, nm.t)):
                    out.append(self.val(s_, VObj(f_(ot, nm.t)) if b else dflt))
                return out
            if k == "ext":
                return self.apply_contract(self.schema.contracts[fn.name], None, args, kwargs, st, node)
            if k == "closure":
                return self.call_closure(fn, args, kwargs, st, node)
            if k == "opaque":
                return self.call_user(fn, args, kwargs, st, node)
            if k == "partial":
                f0, a0, k0 = fn.extra
                kk = dict(k0)
                kk.update(kwargs)
                return self.call_value(f0, list(a0) + list(args), kk, st, node)
            raise EngineError(f"call of {fn!r}")
        if isinstance(fn, VClass):
            return self.construct(fn, args, kwargs, st, node)
        if isinstance(fn, VObj):
            return self.call_user(VFn("opaque", t=fn.t), args, kwargs, st, node)
        if isinstance(fn, VRef):
            m = self.find_method(fn.cls, "__call__")
            if m is not None:
                return self.call_method(fn, "__call__", args, kwargs, st, node)
            raise EngineError(f"call of object of class {fn.cls}")
        if isinstance(fn, VConst):
            if fn.name in self.schema.contracts:
                return self.apply_contract(self.schema.contracts[fn.name], None, args, kwargs, st, node)
            raise EngineError(f"unresolved call: no contract for external {fn.name!r}")
        raise EngineError(f"call of {fn!r}")

    def _is_static(self, fnode):
        for d in fnode.decorator_list:
            if isinstance(d, ast.Name) and d.id == "staticmethod":
                return True
        return False

    def _is_classmethod(self, fnode):
        for d in fnode.decorator_list:
            if isinstance(d, ast.Name) and d.id == "classmethod":
                return True
        return False

    def call_method(self, self_v, name, args, kwargs, st, node, start_cls=None):
        if isinstance(self_v, (VNone,)):
            return [self.raise_new(st, "AttributeError")]
        if not isinstance(self_v, VRef):
            raise EngineError(f"method {name} on {self_v!r}")
        m = self.find_method(start_cls or self_v.cls, name)
        if m is None:
            raise EngineError(f"unresolved call: method {self_v.cls}.{name}")
        if m[0] == "ext":
            return self.apply_contract(self.schema.contracts[m[1]], self_v, args, kwargs, st, node)
        return self.call_src_method(m, self_v, args, kwargs, st, node)

    def call_src_method(self, m, self_v, args, kwargs, st, node):
        _, module, fnode, cls, q = m
        key = f"{module}:{q}"
        if self._is_static(fnode):
            return self.call_loky_func(key, None, args, kwargs, st, node)
        if self._is_classmethod(fnode) and self_v is None:
            raise EngineError("classmethod call")
        return self.call_loky_func(key, self_v, args, kwargs, st, node)

    def ev_super_call(self, node, st):
        """super().method(...) inside a method of a schema class."""
        meth = node.func.attr
        f = st.frame
        cls = getattr(f, "cls", None)
        self_v = f.vars.get(getattr(f, "self_name", "self"))
        if cls is None or self_v is None:
            raise EngineError("super() outside a schema-class method")
        bases = self.schema.mro(cls)[1:]
        out = []
        arg_nodes = [a.value if isinstance(a, ast.Starred) else a for a in node.args]
        kw_nodes = [k.value for k in node.keywords]
        for kind, s, vs in self.ev_list(arg_nodes + kw_nodes, st):
            if kind == "exc":
                out.append((kind, s, vs))
                continue
            args = []
            for a_, v_ in zip(node.args, vs):
                if isinstance(a_, ast.Starred):
                    args += self.expand_star(v_, s)
                else:
                    args.append(v_)
            kwargs = {k.arg: v for k, v in zip(node.keywords, vs[len(arg_nodes):])}
            if any(k.arg is None for k in node.keywords):
                kwargs = {}
                for k, v in zip(node.keywords, vs[len(arg_nodes):]):
                    if k.arg is None:
                        if isinstance(v, VLoc):
                            kwargs.update(s.loc(v).data)
                        else:
                            kwargs["**"] = v
                    else:
                        kwargs[k.arg] = v
            done = False
            for b in bases:
                m = self.find_method(b, meth)
                if m is not None:
                    if m[0] == "ext":
                        out += self.apply_contract(self.schema.contracts[m[1]], self_v, args, kwargs, s, node)
                    else:
                        out += self.call_src_method(m, self_v, args, kwargs, s, node)
                    done = True
                    break
            if not done:
                raise EngineError(f"unresolved call: super().{meth} from {cls}")
        return out

    # ------------------------------------------------------------------
    def call_loky_func(self, key, self_v, args, kwargs, st, node):
        """A function of the loky package: contract if there is one, else
        inline its current source."""
        c = self.schema.contracts.get(key)
        if c is not None and not c.inline and key != self.cur_key_inlining_guard(key):
            return self.apply_contract(c, self_v, args, kwargs, st, node)
        if c is not None and not c.inline:
            return self.apply_contract(c, self_v, args, kwargs, st, node)
        mi, fnode = self.repo.func(key)
        if self.inline_depth >= self.MAX_INLINE_DEPTH or key in self.call_stack:
            raise EngineError(f"unresolved call: {key} has no contract and cannot be inlined further")
        self.inlined.add(key)
        return self.inline_call(mi.name, fnode, key, self_v, args, kwargs, st, node)

    def cur_key_inlining_guard(self, key):
        return None

    def bind_args(self, fnode, self_v, args, kwargs, st, defaults_module):
        """Python argument binding -> [(state, {name: V})] (defaults are
        evaluated in the defining module)."""
        a = fnode.args
        names = [x.arg for x in a.posonlyargs + a.args]
        env = {}
        pos = list(args)
        if self_v is not None:
            pos = [self_v] + pos
        if any(isinstance(p, Star) for p in pos):
            # opaque *args: only allowed when the callee takes *args too
            if a.vararg is None:
                raise EngineError("opaque *args into fixed parameters")
        kwargs = dict(kwargs)
        extra_kw = kwargs.pop("**", None)
        n = len(names)
        fixed = [p for p in pos if not isinstance(p, Star)]
        stars = [p for p in pos if isinstance(p, Star)]
        for i, nm in enumerate(names):
            if i < len(fixed):
                env[nm] = fixed[i]
        rest = fixed[n:]
        if a.vararg is not None:
            if stars:
                env[a.vararg.arg] = stars[0].v if not rest else VObj(fresh_const("args", ty.IntS))
            else:
                env[a.vararg.arg] = VTuple(rest)
        elif rest:
            return [("exc",) + self.raise_new(st, "TypeError")[1:]]
        kwonly = [x.arg for x in a.kwonlyargs]
        for k, v in list(kwargs.items()):
            if k in names or k in kwonly:
                if k in env:
                    return [("exc",) + self.raise_new(st, "TypeError")[1:]]
                env[k] = v
                del kwargs[k]
        if a.kwarg is not None:
            if extra_kw is not None and not kwargs:
                env[a.kwarg.arg] = extra_kw
            elif extra_kw is not None:
                env[a.kwarg.arg] = VObj(fresh_const("kwargs", ty.IntS))
            else:
                env[a.kwarg.arg] = st.new_loc("dict", kwargs)
        elif kwargs:
            return [("exc",) + self.raise_new(st, "TypeError")[1:]]
        # defaults
        results = [(st, env)]
        dflt = [None] * (n - len(a.defaults)) + list(a.defaults)
        todo = [(nm, d) for nm, d in zip(names, dflt)] + list(zip(kwonly, a.kw_defaults))
        for nm, d in todo:
            nxt = []
            for s, e in results:
                if nm in e:
                    nxt.append((s, e))
                    continue
                if d is None:
                    if extra_kw is not None:
                        e = dict(e)
                        e[nm] = VObj(fresh_const(f"kw_{nm}", ty.IntS))
                        nxt.append((s, e))
                        continue
                    nxt.append(("exc",) + self.raise_new(s, "TypeError")[1:])
                    continue
                prev = s.cur
                s.push_frame(defaults_module, "<defaults>")
                for r in self.ev(d, s):
                    r[1].cur = prev
                    if r[0] == "exc":
                        nxt.append(r)
                    else:
                        e2 = dict(e)
                        e2[nm] = r[2]
                        nxt.append((r[1], e2))
            results = nxt
        return results

    def inline_call(self, module, fnode, key, self_v, args, kwargs, st, node,
                    closure_parent=None, cls=None):
        out = []
        for b in self.bind_args(fnode, self_v, args, kwargs, st, module):
            if b[0] == "exc":
                out.append(("exc", b[1], b[2]))
                continue
            s, env = b
            prev = s.push_frame(module, key, parent=closure_parent)
            fr = s.frame
            fr.vars.update(env)
            fr.local_names = (assigned_names(fnode.body) if isinstance(fnode.body, list) else set()) | set(env)
            if cls is None and self_v is not None and isinstance(self_v, VRef):
                m = key.split(":")[1] if ":" in key else key
                if "." in m:
                    src_cls = m.rsplit(".", 1)[0]
                    cls = self.schema.src_class.get((module, src_cls))
            fr.cls = cls
            fr.self_name = fnode.args.args[0].arg if fnode.args.args else None
            self.inline_depth += 1
            self.call_stack.append(key)
            try:
                body_out = self.exec_body(fnode, s)
            finally:
                self.inline_depth -= 1
                self.call_stack.pop()
            for o in body_out:
                kind, s2, v = o
                fid = s2.cur
                s2.cur = prev
                if kind == "next":
                    out.append(("val", s2, NONE))
                elif kind == "ret":
                    out.append(("val", s2, v))
                elif kind == "exc":
                    out.append(("exc", s2, v))
                else:
                    raise EngineError(f"{kind} escaped function {key}")
        return out

    def exec_body(self, fnode, st):
        if isinstance(fnode, ast.Lambda):
            return [("ret", r[1], r[2]) if r[0] == "val" else r for r in self.ev(fnode.body, st)]
        return self.exec_block(fnode.body, st)

    def call_closure(self, fn, args, kwargs, st, node):
        key = fn.extra or (fn.name or "<closure>")
        c = self.schema.contracts.get(key)
        if c is not None and not c.inline:
            return self.apply_contract(c, None, args, kwargs, st, node)
        return self.inline_call(fn.module, fn.node, key, None,
                                args, kwargs, st, node, closure_parent=fn.frame)

    # ------------------------------------------------------------------
    def construct(self, cls, args, kwargs, st, node):
        sc = self.schema
        if cls.exc_id is not None:
            e = st.new_obj("<exc>")
            st.write_field(e, "cls", VInt(cls.exc_id))
            st.write_field(e, "cause", NONE)
            st.write_field(e, "context", st.cur_exc if st.cur_exc is not None else NONE)
            if args and not isinstance(args[0], Star):
                st.write_field(e, "msg", args[0])
            if cls.node is not None:
                for sub in cls.node.body:
                    if isinstance(sub, ast.FunctionDef) and sub.name == "__init__":
                        key = f"{cls.module}:{cls.name}.__init__"
                        res = self.inline_call(cls.module, sub, key, e, args, kwargs, st, node)
                        return [("val", r[1], e) if r[0] == "val" else r for r in res]
            return [self.val(st, e)]
        if cls.name in sc.contracts:
            return self.apply_contract(sc.contracts[cls.name], None, args, kwargs, st, node)
        d = sc.classes.get(cls.name)
        if d is None:
            raise EngineError(f"unresolved call: constructor of {cls.name}")
        obj = st.new_obj(cls.name)
        m = self.find_method(cls.name, "__init__")
        if m is None:
            return [self.val(st, obj)]
        if m[0] == "ext":
            res = self.apply_contract(sc.contracts[m[1]], obj, args, kwargs, st, node)
        else:
            res = self.call_src_method(m, obj, args, kwargs, st, node)
        return [("val", r[1], obj) if r[0] == "val" else r for r in res]

    # ------------------------------------------------------------------
    def user_arg_term(self, args, kwargs):
        """Encoding of an argument list of an opaque call as one object id."""
        packed = [a.v if isinstance(a, Star) else a for a in args]
        argid = to_obj_term(VTuple(packed)) if not any(isinstance(a, Star) for a in args) \
            else to_obj_term(VTuple([VConst("*")] + packed))
        for k in sorted(kwargs):
            argid = z3.Function("box_kw", ty.IntS, ty.IntS, ty.IntS, ty.IntS)(
                argid, z3.IntVal(const_id(f"kw:{k}")), to_obj_term(kwargs[k]))
        return argid

    def call_user(self, fn, args, kwargs, st, node, label=None):
        """Opaque user callable: may return anything, may raise an
        exception of *any* class below BaseException; does not touch loky
        state (assumption A-user)."""
        packed = [a.v if isinstance(a, Star) else a for a in args]
        argid = self.user_arg_term(args, kwargs)
        fid = to_obj_term(fn)
        for hook in self.user_call_hooks:
            hook(self, fn, args, kwargs, st, node)
        st.emit("user_call", [fn] + packed, self.site(node))
        s_exc = st.clone()
        out = []
        res = VObj(_app(fid, argid))
        st.notes.append(f"user call@{self.site(node)} returns")
        out.append(self.val(st, res))
        e = fresh_value(ty.Exc(), "uexc")
        s_exc.assume(z3.And(e.t > 0, e.t >= s_exc.alloc))
        # the exception object is new: give it an address above alloc
        nxt = fresh_const("alloc", ty.IntS)
        s_exc.assume(nxt == e.t + 1)
        s_exc.alloc = nxt
        c, _ = s_exc.read_field(e, "cls")
        s_exc.assume(self.schema.exc_valid(c.t))
        s_exc.notes.append(f"user call@{self.site(node)} raises")
        s_exc.emit("user_raise", [fn, e], self.site(node))
        out.append(("exc", s_exc, e))
        self.abstractions.add("user callables: result obj_app(f,args), may raise any BaseException subclass, no effect on loky state (A-user)")
        return out

    # ------------------------------------------------------------------
    # contract application (modular call rule)
    def bind_contract_args(self, c, self_v, args, kwargs, st):
        env = {}
        pos = list(args)
        if self_v is not None:
            pos = [self_v] + pos
        names = [p[0] for p in c.params]
        kwargs = dict(kwargs)
        extra_kw = kwargs.pop("**", None)
        fixed = [p for p in pos if not isinstance(p, Star)]
        stars = [p for p in pos if isinstance(p, Star)]
        for i, (nm, T, has_d, d) in enumerate(c.params):
            if i < len(fixed):
                env[nm] = fixed[i]
        rest = fixed[len(names):]
        if c.vararg is not None:
            if stars:
                env[c.vararg[0]] = stars[0].v
            else:
                env[c.vararg[0]] = VTuple(rest)
        elif rest or stars:
            raise EngineError(f"too many positional arguments for contract {c.key}")
        for k, v in list(kwargs.items()):
            if k in names:
                env[k] = v
                del kwargs[k]
        if c.kwarg is not None:
            env[c.kwarg[0]] = extra_kw if (extra_kw is not None and not kwargs) else st.new_loc("dict", kwargs)
        elif kwargs:
            raise EngineError(f"unexpected keyword arguments {sorted(kwargs)} for contract {c.key}")
        for nm, T, has_d, d in c.params:
            if nm not in env:
                if not has_d:
                    raise EngineError(f"missing argument {nm} for contract {c.key}")
                env[nm] = d if isinstance(d, V) else self.spec_value(d, st, {})
            else:
                env[nm] = self.coerce_arg(env[nm], T, st)
        return env

    def coerce_arg(self, v, T, st=None):
        """An opaque value passed where the contract declares a scalar: read it as that scalar; a list / dict literal passed where a heap
        container is declared: allocate it."""
        if isinstance(v, VLoc) and st is not None and isinstance(T, (ty.Lst, ty.Map)):
            return self.heapify(v, T, st)
        if isinstance(v, VObj):
            if isinstance(T, ty._Int):
                return VInt(_unbox_int(v.t))
            if isinstance(T, ty._Bool):
                return VBool(z3.And(v.t != 0, _truthy(v.t)))
            if isinstance(T, ty._Str):
                f = z3.Function("unbox_str", ty.IntS, ty.StrS)
                return VStr(f(v.t))
            if isinstance(T, (ty.Ref, ty.Map, ty.Lst)):
                return VRef(v.t, T.cls, T if isinstance(T, (ty.Map, ty.Lst)) else None)
            if isinstance(T, ty.Opt) and isinstance(T.inner, ty._Real):
                return VOpt(v.t == 0, VReal(z3.Function("unbox_real", ty.IntS, ty.RealS)(v.t)))
            if isinstance(T, ty.Opt) and isinstance(T.inner, ty._Int):
                return VOpt(v.t == 0, VInt(_unbox_int(v.t)))
        return v

    def apply_contract(self, c, self_v, args, kwargs, st, node):
        if c.trusted:
            self.trusted_used.add(c.key)
        else:
            self.applied.add(c.key)
        impl = getattr(c, "impl", None)
        if impl is not None:
            for ck, hook in getattr(self, "at_call_hooks", []):
                if ck == c.key:
                    penv = {str(i_): a_ for i_, a_ in enumerate(args) if isinstance(a_, V)}
                    if self_v is not None:
                        penv["self"] = self_v
                    hook(self, penv, st, node)
            return impl(self, st, self_v, args, kwargs, node)
        env = self.bind_contract_args(c, self_v, args, kwargs, st)
        for ck, hook in getattr(self, "at_call_hooks", []):
            if ck == c.key:
                hook(self, env, st, node)
        cmod = c.key.split(":")[0] if ":" in c.key else getattr(c, "spec_module", None)
        caller = self.cur_key or "?"
        short = c.key.split(":")[-1]
        site = self.site(node)
        for nm, expr in c.lets:
            env[nm] = self.spec_value(expr, st, env, module=cmod)
        # preconditions: named call-site obligations
        for label, expr in c.requires_:
            g = self.spec_eval(expr, st, env, module=cmod)
            self.prove(st, g, f"{caller}@call:{short}/pre/{label}",
                       prop=self.prop_of(None), kind="call-pre", site=site)
            st.assume(g)
        for lk in getattr(c, "entry_held", []):
            lv = self.spec_value(lk, st, env, module=cmod)
            g = z3.Or([h == lv.t for h in st.held] or [z3.BoolVal(False)])
            self.prove(st, g, f"{caller}@call:{short}/pre/holds:{lk}",
                       prop=self.prop_of(None), kind="call-pre", site=site)
        old = st.clone()
        outs = []
        # exceptional outcomes
        exc_specs = [(lab, exc, when, post) for (lab, exc, when, post, _p) in c.exsures_] + \
                    [(None, exc, when, None) for (exc, when) in c.may_raise]
        # one outcome per distinct (class, when); in it every `raises` clause whose class the exception is an instance of applies (the callee was
        # verified against all of them: verify.py proves isinstance(exc, E_j) -> post_j for each j)
        seen_specs = set()
        for lab, exc, when, post in exc_specs:
            if (exc, when) in seen_specs:
                continue
            seen_specs.add((exc, when))
            s = old.clone()
            if when is not None:
                w = self.spec_eval(when, s, env, module=cmod)
                if not self.feasible(s, w):
                    continue
                s.assume(w)
            self.havoc_modifies(c, s, env)
            e = s.new_obj("<exc>")
            ct = fresh_const("exccls", ty.IntS)
            s.assume(self.schema.exc_valid(ct, exc))
            s.write_field(e, "cls", VInt(ct))
            for tag, eargs in c.events_:
                s.emit(tag, [self.spec_value(a, old, env, module=cmod) for a in eargs], site)
            if not getattr(c, "quiet", False):
                s.emit(f"raise:{short}", [e], site)
            env2 = dict(env)
            env2["exc"] = e
            for (_l2, exc2, when2, post2, _p2) in c.exsures_:
                if post2 is None:
                    continue
                if exc2 == exc and when2 == when:
                    for part in self.caller_visible_parts(post2):
                        s.assume(self.spec_eval(part, s, env2, old=old, mode="hyp", module=cmod))
                elif when2 is None:
                    is_e = self.schema.exc_isinstance(ct, exc2)
                    if self.feasible(s, is_e):
                        for part in self.caller_visible_parts(post2):
                            s.assume(z3.Implies(is_e, self.spec_eval(part, s, env2, old=old, mode="hyp", module=cmod)))
            if not getattr(c, "quiet", False):
                s.notes.append(f"{short}@{site} raises {exc}")
            outs.append(("exc", s, e))
        # normal outcome
        self.havoc_modifies(c, st, env)
        if getattr(c, "fresh_result", False):
            RT = c.returns_
            results = [(st, st.new_obj(RT.cls, RT if isinstance(RT, (ty.Map, ty.Lst)) else None))]
            if isinstance(RT, ty.Map):
                st.map_clear(results[0][1])
            elif isinstance(RT, ty.Ref) and RT.cls in self.schema.classes:
                subs = [n for n in self.schema.classes if RT.cls in self.schema.mro(n)]
                if len(subs) > 1:
                    # a new object of the declared class or of one of its subclasses
                    r0 = results[0][1]
                    cid = fresh_const("newcls", ty.IntS)
                    key_ = ("<obj>", "cls")
                    st.heap[key_] = (z3.Store(st.heap[key_][0], r0.t, cid),)
                    st.assume(z3.Or([cid == const_id(f"class:{n}") for n in subs]))
        elif c.pure and not isinstance(c.returns_, ty._NoneT):
            results = self.pure_result(c, env, st)
        else:
            results = self.fresh_of_type(st, c.returns_, "ret") if not isinstance(c.returns_, ty._NoneT) else [(st, NONE)]
        for s, res in results:
            # keep the un-split optional for the ensures, then split
            env2 = dict(env)
            env2["result"] = res
            for tag, eargs in c.events_:
                s.emit(tag, [self.spec_value(a, old, env2, module=cmod) for a in eargs], site)
            if not c.trusted:
                s.emit(f"call:{short}", [res] + [env[p[0]] for p in c.params], site)
            if c.result_name != "result":
                env2[c.result_name] = res
                env2.pop("result", None)
                if "result" in env:
                    env2["result"] = env["result"]
            for label, expr, _p in c.ensures_:
                for part in self.caller_visible_parts(expr):
                    s.assume(self.spec_eval(part, s, env2, old=old, mode="hyp", module=cmod))
            if not c.ensures_ or self.feasible(s):
                outs.append(("val", s, res))
                n_normal_ok = True
            elif not exc_specs and s is results[-1][0] and not any(o_[0] == "val" for o_ in outs):
                # a contract whose postcondition cannot be met at this call site would silently remove the path
                self.results.append(__import__("pyvc.engine", fromlist=["VCResult"]).VCResult(
                    f"{caller}@call:{short}/guard/postcondition-satisfiable", self.prop_of(None), self.cur_key, "vacuous",
                    "guard", 0.0, list(s.notes), None, kind="guard", site=site))
        return outs

    def pure_result(self, c, env, st):
        """Result of a pure trusted function: an uninterpreted function of
        its arguments (so that specs and code agree on it)."""
        terms = []
        for nm, T, has_d, d in c.params:
            terms += list(flatten(env[nm], T))
        RT = c.returns_
        outs = []
        for i, rs in enumerate(RT.comps):
            f = z3.Function(f"pure!{c.key}!{i}", *([t.sort() for t in terms] + [rs])) if terms else None
            outs.append(f(*terms) if terms else z3.Const(f"pure!{c.key}!{i}", rs))
        v = unflatten(RT, tuple(outs))
        st._typing(v, RT)
        return self.split_value(st, v, RT)

    _parts_cache = {}

    def caller_visible_parts(self, expr):
        """Conjuncts of a postcondition that do not speak about the callee's own event log (those are proved of the
        callee but mean nothing in the caller's log)."""
        hit = self._parts_cache.get(expr)
        if hit is not None:
            return hit
        if not LOG_CLAUSE.search(expr):
            parts = [expr]
        else:
            parts = []
            try:
                tree = ast.parse(expr.strip(), mode="eval").body
                conj = tree.values if isinstance(tree, ast.BoolOp) and isinstance(tree.op, ast.And) else [tree]
                for cj in conj:
                    txt = ast.unparse(cj)
                    if not LOG_CLAUSE.search(txt):
                        parts.append(txt)
            except SyntaxError:
                parts = []
            if len(parts) > 1:
                # one expression again: `and` stays lazy over the kept conjuncts (an earlier one may guard the kind of a later one)
                parts = [" and ".join(f"({t})" for t in parts)]
        self._parts_cache[expr] = parts
        return parts

    def prop_of(self, prop):
        if prop is not None:
            return prop
        # an untagged clause serves every property its contract is registered for
        c = self.cur_contract
        return list(c.props) if c is not None and c.props else None

    def havoc_modifies(self, c, st, env):
        self._havoc_mod = c.key.split(":")[0] if ":" in c.key else None
        if c.modifies_ and not c.trusted:
            # the callee may have allocated objects: references it leaves behind may be new
            nxt = fresh_const("alloc", ty.IntS)
            st.assume(nxt >= st.alloc)
            st.alloc = nxt
        acts = [self.resolve_havoc(path, st, env) for path in (c.modifies_ or [])]
        for act in acts:
            act()

    def havoc_path(self, path, st, env):
        self.resolve_havoc(path, st, env)()

    def resolve_havoc(self, path, st, env):
        """Resolve the owner of a modifies path in the *current* state and return the action that havocs it (so that all owners
        of one modifies clause are resolved in the pre-state, before any of them is havocked)."""
        path = path.strip()
        if path.startswith("G."):
            name = path[2:]
            d = self.schema.ghosts[name]
            return lambda: st.ghost_set(name, fresh_const(f"hG_{name}", d.sort))
        if path.startswith("glob:"):
            mod, name = path[5:].rsplit(".", 1)
            d = self.schema.globs[(mod, name)]

            def act_glob():
                st.globs[(mod, name)] = fresh_value(d.T, f"hglob_{name}") if not isinstance(d.T, ty.Union) else VObj(fresh_const("hglob", ty.IntS))
                if not isinstance(d.T, ty.Union):
                    st._typing(st.globs[(mod, name)], d.T)
            return act_glob
        if path.startswith("contents(") and path.endswith(")"):
            try:
                v = self.spec_value(path[9:-1], st, env, module=self._havoc_mod)
            except EngineError:
                v = self._none_owner(path[9:-1], st, env)
            if isinstance(v, VRef) and isinstance(v.T, ty.Map):
                return lambda: st.map_havoc(v)
            if isinstance(v, VRef) and isinstance(v.T, ty.Lst):
                return lambda: st.lst_set(v, fresh_const("hlst", z3.SeqSort(v.T.elem.comps[0])))
            if isinstance(v, VNone):
                return lambda: None          # the owner is None in this state: nothing to change
            raise EngineError(f"modifies contents of {v!r}")
        if "." in path:
            objx, field = path.rsplit(".", 1)
            try:
                v = self.spec_value(objx, st, env, module=self._havoc_mod)
            except EngineError:
                v = self._none_owner(objx, st, env)
            if isinstance(v, VNone):
                return lambda: None          # the owner is None in this state: nothing to change
            if not isinstance(v, VRef):
                raise EngineError(f"modifies path {path}: {v!r} is not a reference")
            owner, T = self.schema.field(v.cls, field)

            def act_field():
                nv = fresh_value(T, f"h_{field}")
                st._typing(nv, T)
                st.write_field(v, field, nv)
            return act_field
        raise EngineError(f"modifies path {path!r}")

    def _none_owner(self, objx, st, env):
        """`a.b.c` where a prefix is None in this state: VNone (the path names nothing); anything else is an error."""
        parts = objx.split(".")
        for n in range(1, len(parts)):
            try:
                pv = self.spec_value(".".join(parts[:n]), st, env, module=self._havoc_mod)
            except EngineError:
                break
            if isinstance(pv, VNone):
                return NONE
        raise EngineError(f"modifies path owner {objx!r} cannot be evaluated")

    # ------------------------------------------------------------------
    # built-in functions
    def call_builtin(self, name, args, kwargs, st, node):
        m = getattr(self, "bi_" + name, None)
        if m is None:
            raise EngineError(f"unsupported builtin {name}")
        return m(args, kwargs, st, node)

    def bi_len(self, args, kwargs, st, node):
        v = args[0]
        if isinstance(v, VTuple):
            return [self.val(st, VInt(len(v.items)))]
        if isinstance(v, VLoc):
            return [self.val(st, VInt(len(st.loc(v).data)))]
        if isinstance(v, VStr):
            return [self.val(st, VInt(z3.Length(v.t)))]
        if isinstance(v, VSeq):
            return [self.val(st, VInt(z3.Length(v.t)))]
        if isinstance(v, VAbs):
            return [self.val(st, VInt(v.length))]
        if isinstance(v, VRef) and isinstance(v.T, ty.Map):
            return [self.val(st, VInt(st.map_len(v)))]
        if isinstance(v, VRef) and isinstance(v.T, ty.Lst):
            return [self.val(st, VInt(z3.Length(st.lst_get(v))))]
        if isinstance(v, VObj):
            f = z3.Function("obj_len", ty.IntS, ty.IntS)
            st.assume(f(v.t) >= 0)
            return [self.val(st, VInt(f(v.t)))]
        if isinstance(v, VRef):
            m = self.find_method(v.cls, "__len__")
            if m:
                return self.call_method(v, "__len__", [], {}, st, node)
        raise EngineError(f"len of {v!r}")

    def _minmax(self, args, st, is_min):
        items = args
        if len(args) == 1:
            items = self.concrete_items(args[0], st)
        acc = items[0]
        for x in items[1:]:
            if isinstance(acc, VReal) or isinstance(x, VReal):
                a, b = self._real(acc), self._real(x)
                acc = VReal(z3.If(b < a if is_min else b > a, b, a))
            else:
                a, b = self._int(acc), self._int(x)
                acc = VInt(z3.If(b < a if is_min else b > a, b, a))
        return [self.val(st, acc)]

    def bi_min(self, args, kwargs, st, node):
        return self._minmax(args, st, True)

    def bi_max(self, args, kwargs, st, node):
        return self._minmax(args, st, False)

    def bi_abs(self, args, kwargs, st, node):
        x = self._int(args[0])
        return [self.val(st, VInt(z3.If(x < 0, -x, x)))]

    def bi_int(self, args, kwargs, st, node):
        v = args[0]
        if isinstance(v, (VInt, VBool)):
            return [self.val(st, VInt(self._int(v)))]
        if isinstance(v, VReal):
            t = z3.simplify(v.t)
            if z3.is_rational_value(t):
                fl = t.numerator_as_long() // t.denominator_as_long() if t.numerator_as_long() >= 0 else -((-t.numerator_as_long()) // t.denominator_as_long())
                return [self.val(st, VInt(fl))]
            # truncation toward zero
            fl = z3.ToInt(v.t)
            return [self.val(st, VInt(z3.If(v.t >= 0, fl, -z3.ToInt(-v.t))))]
        if isinstance(v, VStr):
            ok = _str_ok_int(v.t)
            self.abstractions.add("int(str): uninterpreted py_int_of_str guarded by py_str_is_int (ValueError otherwise)")
            if self.spec:
                return [self.val(st, VInt(_str2int(v.t)))]
            out = []
            for b, s in self.branch(st, ok):
                if b:
                    out.append(self.val(s, VInt(_str2int(v.t))))
                else:
                    out.append(self.raise_new(s, "ValueError"))
            return out
        if isinstance(v, VObj):
            # int(fd) etc. on an opaque object
            return [self.val(st, VInt(_unbox_int(v.t)))]
        raise EngineError(f"int() of {v!r}")

    def bi_float(self, args, kwargs, st, node):
        return [self.val(st, VReal(self._real(args[0])))]

    def bi_bool(self, args, kwargs, st, node):
        return [self.val(st, VBool(self.truth(args[0], st)))]

    def bi_str(self, args, kwargs, st, node):
        v = args[0] if args else VStr("")
        if isinstance(v, VStr):
            return [self.val(st, v)]
        if isinstance(v, VInt):
            return [self.val(st, VStr(z3.If(v.t >= 0, z3.IntToStr(v.t), z3.Concat(z3.StringVal("-"), z3.IntToStr(-v.t)))))]
        self.abstractions.add("str(obj) is an opaque string term")
        return [self.val(st, VStr(fresh_const("str", ty.StrS)))]

    def bi_repr(self, args, kwargs, st, node):
        return [self.val(st, VStr(fresh_const("repr", ty.StrS)))]

    def bi_format(self, args, kwargs, st, node):
        return [self.val(st, VStr(fresh_const("fmt", ty.StrS)))]

    def bi_print(self, args, kwargs, st, node):
        st.emit("print", list(args), self.site(node))
        return [self.val(st, NONE)]

    def bi_id(self, args, kwargs, st, node):
        return [self.val(st, VInt(to_obj_term(args[0])))]

    def bi_callable(self, args, kwargs, st, node):
        v = args[0]
        if isinstance(v, (VFn,)):
            if v.kind == "opaque":
                return [self.val(st, VBool(z3.And(v.t != 0, _callable(v.t))))]
            return [self.val(st, VBool(True))]
        if isinstance(v, VClass):
            return [self.val(st, VBool(True))]
        if isinstance(v, VObj):
            return [self.val(st, VBool(z3.And(v.t != 0, _callable(v.t))))]
        if isinstance(v, VRef):
            if self.find_method(v.cls, "__call__"):
                return [self.val(st, VBool(True))]
            return [self.val(st, VBool(False))]
        return [self.val(st, VBool(False))]

    def bi_type(self, args, kwargs, st, node):
        v = args[0]
        if isinstance(v, VRef) and v.cls == "<exc>":
            return [self.val(st, VObj(to_obj_term(VInt(self.exc_cls_term(st, v)))))]
        if isinstance(v, VRef):
            return [self.val(st, VClass(v.cls))]
        f = z3.Function("obj_type", ty.IntS, ty.IntS)
        return [self.val(st, VObj(f(to_obj_term(v))))]

    def bi_isinstance(self, args, kwargs, st, node):
        v, c = args
        return [self.val(st, VBool(self.isinstance_cond(v, c, st)))]

    def bi_issubclass(self, args, kwargs, st, node):
        raise EngineError("issubclass")

    def isinstance_cond(self, v, c, st):
        if isinstance(c, VTuple):
            return z3.Or([self.isinstance_cond(v, x, st) for x in c.items])
        if isinstance(v, VOpt):
            return z3.And(z3.Not(v.isnone), self.isinstance_cond(v.inner, c, st))
        if isinstance(c, VFn) and c.kind == "builtin":
            nm = c.name
            table = {"int": (VInt, VBool), "str": (VStr,), "bool": (VBool,), "float": (VReal,),
                     "tuple": (VTuple,), "bytes": (VStr,)}
            if isinstance(v, VObj):
                return _isinst(v.t, z3.IntVal(const_id(f"class:{nm}")))
            if nm in table:
                return z3.BoolVal(isinstance(v, table[nm]))
            if nm == "list":
                return z3.BoolVal(isinstance(v, VLoc) and st.loc(v).kind == "list" or isinstance(v, VRef) and isinstance(v.T, ty.Lst))
            if nm == "dict":
                return z3.BoolVal(isinstance(v, VLoc) and st.loc(v).kind == "dict" or isinstance(v, VRef) and isinstance(v.T, ty.Map))
            raise EngineError(f"isinstance(_, {nm})")
        if isinstance(c, VConst) or isinstance(c, VObj):
            cid = to_obj_term(c)
            if isinstance(v, (VObj, VRef)):
                return _isinst(v.t, cid)
            return _isinst(to_obj_term(v), cid)
        if not isinstance(c, VClass):
            raise EngineError(f"isinstance(_, {c!r})")
        if isinstance(v, VRef):
            if c.exc_id is not None:
                if v.cls != "<exc>":
                    return z3.BoolVal(False)
                return z3.And(v.t != 0, self.schema.exc_isinstance(self.exc_cls_term(st, v), c.name))
            if v.cls == "<exc>":
                return z3.BoolVal(False)
            return z3.BoolVal(c.name in self.schema.mro(v.cls))
        if isinstance(v, VObj):
            if c.exc_id is not None:
                ids = self.schema.exc_descendants(c.name)
                return z3.And(v.t != 0, st.cls_of(v.t) == const_id("class:<exc>"),
                              self.schema.exc_isinstance(self.exc_cls_term(st, VRef(v.t, "<exc>")), c.name))
            if c.name in self.schema.classes:
                subs = [n for n in self.schema.classes if c.name in self.schema.mro(n)]
                return z3.And(v.t != 0, z3.Or([st.cls_of(v.t) == const_id(f"class:{n}") for n in subs]))
            return _isinst(v.t, z3.IntVal(const_id(f"class:{c.name}")))
        if isinstance(v, VFn) and v.kind == "partial":
            return z3.BoolVal(c.name == "functools.partial")
        if isinstance(v, VFn) and v.kind == "opaque":
            return _isinst(v.t, z3.IntVal(const_id(f"class:{c.name}")))
        return z3.BoolVal(False)

    def bi_hasattr(self, args, kwargs, st, node):
        v, n = args
        name = self._const_str(n)
        if isinstance(v, VModule):
            cfg = getattr(self.schema, "config_hasattr", {})
            key = f"{v.name}.{name}"
            if key in cfg:
                return [self.val(st, VBool(cfg[key]))]
            return [self.val(st, VBool(True))]
        if isinstance(v, VRef):
            cfg = getattr(self.schema, "config_hasattr", {})
            key = f"{v.cls}.{name}"
            if key in cfg:
                return [self.val(st, VBool(cfg[key]))]
            if v.cls != "<exc>" and (self.schema.has_field(v.cls, name) or self.find_method(v.cls, name)):
                return [self.val(st, VBool(True))]
            return [self.val(st, VBool(False))]
        if isinstance(v, (VObj,)):
            return [self.val(st, VBool(_hasattr(v.t, z3.IntVal(const_id(f"attr:{name}")))))]
        if isinstance(v, VClass):
            return [self.val(st, VBool(_hasattr(to_obj_term(v), z3.IntVal(const_id(f"attr:{name}")))))]
        raise EngineError(f"hasattr({v!r}, {name})")

    def _const_str(self, v):
        if isinstance(v, VStr):
            t = z3.simplify(v.t)
            if z3.is_string_value(t):
                return t.as_string()
        raise EngineError(f"need a constant string, got {v!r}")

    def bi_getattr(self, args, kwargs, st, node):
        v, n = args[0], args[1]
        default = args[2] if len(args) > 2 else None
        if not (isinstance(n, VStr) and z3.is_string_value(z3.simplify(n.t))):
            # dynamic attribute name: only on opaque objects
            f = z3.Function("obj_getattr_dyn", ty.IntS, ty.StrS, ty.IntS)
            h = z3.Function("obj_hasattr_dyn", ty.IntS, ty.StrS, ty.BoolS)
            self.abstractions.add("getattr with a computed name is uninterpreted obj_getattr_dyn / obj_hasattr_dyn")
            ov = to_obj_term(v)
            out = []
            for b, s in self.branch(st, h(ov, n.t)):
                if b:
                    out.append(self.val(s, VObj(f(ov, n.t))))
                elif default is not None:
                    out.append(self.val(s, default))
                else:
                    out.append(self.raise_new(s, "AttributeError"))
            return out
        name = self._const_str(n)
        if isinstance(v, VObj):
            nid = z3.IntVal(const_id(f"attr:{name}"))
            if default is None:
                return [self.val(st, VObj(_attr(v.t, nid)))]
            has = _hasattr(v.t, nid)
            out = []
            for b, s in self.branch(st, has):
                out.append(self.val(s, VObj(_attr(v.t, nid)) if b else default))
            return out
        if isinstance(v, VNone):
            if default is not None:
                return [self.val(st, default)]
            return [self.raise_new(st, "AttributeError")]
        if isinstance(v, VRef) and v.cls == "<exc>":
            if name in EXC_FIELDS:
                return self.get_attr(v, name, st, node)
            if name == "errno":
                return self.get_attr(v, name, st, node)
        try:
            return self.get_attr(v, name, st, node)
        except EngineError:
            if default is not None:
                cfg = getattr(self.schema, "config_getattr_default", None)
                return [self.val(st, default)]
            raise

    def bi_setattr(self, args, kwargs, st, node):
        v, n, val = args
        return [("val", o[1], NONE) for o in self.set_attr(v, self._const_str(n), val, st)]

    def bi_tuple(self, args, kwargs, st, node):
        if not args:
            return [self.val(st, VTuple([]))]
        v = args[0]
        if isinstance(v, VTuple):
            return [self.val(st, v)]
        if isinstance(v, VLoc):
            return [self.val(st, VTuple(self.concrete_items(v, st)))]
        if isinstance(v, (VSeq, VAbs)):
            return [self.val(st, v)]
        if isinstance(v, VRef) and isinstance(v.T, ty.Lst):
            return [self.val(st, VSeq(st.lst_get(v), v.T.elem))]
        if isinstance(v, VObj):
            return [self.val(st, v)]
        if isinstance(v, VRef) and v.cls == "ISlice":
            # tuple(itertools.islice(it, n)): the next min(n, remaining) items of the underlying iterator, which advances by as many
            it, _ = st.read_field(v, "it")
            n, _ = st.read_field(v, "n")
            seqs, poss = st.ghost_get("it_seq"), st.ghost_get("it_pos")
            sq, pos = z3.Select(seqs, it.t), z3.Select(poss, it.t)
            st.assume(z3.And(pos >= 0, pos <= z3.Length(sq)))
            rem = z3.Length(sq) - pos
            k = z3.If(n.t <= 0, z3.IntVal(0), z3.If(n.t < rem, n.t, rem))
            st.ghost_set("it_pos", z3.Store(poss, it.t, pos + k))
            st.emit("islice_take", [it, VInt(pos), VInt(k)])
            return [self.val(st, VSeq(z3.SubSeq(sq, pos, k), ty.Obj))]
        raise EngineError(f"tuple({v!r})")

    def bi_list(self, args, kwargs, st, node):
        if not args:
            return [self.val(st, st.new_loc("list", []))]
        v = args[0]
        if isinstance(v, (VTuple, VLoc)):
            return [self.val(st, st.new_loc("list", self.concrete_items(v, st)))]
        if isinstance(v, VAbs):
            return [self.val(st, VAbs(v.mem, v.length, v.elem, v.src))]
        if isinstance(v, VSeq):
            return [self.val(st, v)]
        if isinstance(v, VObj):
            return [self.val(st, v)]
        raise EngineError(f"list({v!r})")

    def bi_set(self, args, kwargs, st, node):
        if not args:
            return [self.val(st, st.new_loc("set", []))]
        return self.bi_list(args, kwargs, st, node)

    def bi_dict(self, args, kwargs, st, node):
        if args:
            v = args[0]
            if isinstance(v, VLoc) and st.loc(v).kind == "dict":
                d = dict(st.loc(v).data)
                d.update(kwargs)
                return [self.val(st, st.new_loc("dict", d))]
            if isinstance(v, VRef) and isinstance(v.T, ty.Map):
                return self.map_copy(v, st)
            if isinstance(v, VObj):
                # dict(<opaque mapping>): a fresh map object with the same content
                return self.obj_dict_copy(v, st)
            raise EngineError(f"dict({v!r})")
        return [self.val(st, st.new_loc("dict", dict(kwargs)))]

    def obj_dict_copy(self, v, st):
        raise EngineError("dict() of an opaque object")

    def map_copy(self, m, st):
        T = m.T
        res = st.new_obj(T.cls, T)
        dom, vals, ln = st.map_arrays(T)
        st.heap[(T.cls, "dom")] = (z3.Store(dom, res.t, z3.Select(dom, m.t)),)
        st.heap[(T.cls, "val")] = tuple(z3.Store(a, res.t, z3.Select(a, m.t)) for a in vals)
        st.heap[(T.cls, "len")] = (z3.Store(ln, res.t, z3.Select(ln, m.t)),)
        return [self.val(st, res)]

    def bi_sorted(self, args, kwargs, st, node):
        v = args[0]
        if isinstance(v, (VTuple, VLoc)):
            items = self.concrete_items(v, st)
            if len(items) <= 1:
                return [self.val(st, st.new_loc("list", items))]
        if isinstance(v, VObj):
            f = z3.Function("py_sorted", ty.IntS, ty.IntS)
            self.abstractions.add("sorted(opaque iterable) is uninterpreted py_sorted(it)")
            return [self.val(st, VObj(f(v.t)))]
        # abstract: sorted permutation
        a = self.as_abs(v, st) if not isinstance(v, VAbs) else v
        if a is None:
            raise EngineError(f"sorted({v!r})")
        return [self.val(st, VAbs(a.mem, a.length, a.elem, src=("sorted", a)))]

    def bi_sum(self, args, kwargs, st, node):
        v = args[0]
        if isinstance(v, (VTuple, VLoc)):
            acc = z3.IntVal(0)
            for it in self.concrete_items(v, st):
                acc = acc + self._int(it)
            return [self.val(st, VInt(acc))]
        if isinstance(v, VAbs):
            r = fresh_const("sum", ty.IntS)
            if isinstance(v.elem, ty._Bool):
                st.assume(z3.And(r >= 0, r <= v.length))
            return [self.val(st, VInt(r))]
        raise EngineError(f"sum({v!r})")

    def bi_all(self, args, kwargs, st, node):
        v = args[0]
        if isinstance(v, (VTuple, VLoc)):
            return [self.val(st, VBool(z3.And([self.truth(x, st) for x in self.concrete_items(v, st)] or [z3.BoolVal(True)])))]
        if isinstance(v, VAbs) and isinstance(v.elem, ty._Bool):
            # all(xs) <=> False not a member
            return [self.val(st, VBool(z3.Not(z3.Select(v.mem, z3.BoolVal(False)))))]
        raise EngineError(f"all({v!r})")

    def bi_any(self, args, kwargs, st, node):
        v = args[0]
        if isinstance(v, (VTuple, VLoc)):
            return [self.val(st, VBool(z3.Or([self.truth(x, st) for x in self.concrete_items(v, st)] or [z3.BoolVal(False)])))]
        if isinstance(v, VAbs) and isinstance(v.elem, ty._Bool):
            return [self.val(st, VBool(z3.Select(v.mem, z3.BoolVal(True))))]
        raise EngineError(f"any({v!r})")

    def bi_range(self, args, kwargs, st, node):
        vals = [VInt(self._int(a)) for a in args]
        return [self.val(st, VFn("range", extra=vals))]

    def bi_zip(self, args, kwargs, st, node):
        if all(isinstance(a, (VTuple, VLoc)) for a in args):
            cols = [self.concrete_items(a, st) for a in args]
            n = min(len(c) for c in cols) if cols else 0
            return [self.val(st, VTuple([VTuple([c[i] for c in cols]) for i in range(n)]))]
        return self.zip_symbolic(args, st, node)

    def zip_symbolic(self, args, st, node):
        """zip(*its) over opaque iterables: an iterator object over the (finite) sequence of argument tuples py_zip(its)."""
        packed = [a.v if isinstance(a, Star) else a for a in args]
        src = to_obj_term(VTuple([VConst("*")] + packed)) if any(isinstance(a, Star) for a in args) else to_obj_term(VTuple(packed))
        f = z3.Function("py_zip", ty.IntS, z3.SeqSort(ty.IntS))
        it = st.new_obj("Iterator")
        st.ghost_set("it_seq", z3.Store(st.ghost_get("it_seq"), it.t, f(src)))
        st.ghost_set("it_pos", z3.Store(st.ghost_get("it_pos"), it.t, z3.IntVal(0)))
        st.emit("new_iterator", [it], self.site(node))
        self.abstractions.add("zip(*iterables) is an iterator over the finite sequence py_zip(iterables) of argument tuples (A-iter)")
        return [self.val(st, it)]

    def bi_map(self, args, kwargs, st, node):
        fn = args[0]
        if len(args) == 2 and isinstance(args[1], (VTuple, VLoc)):
            acc = [("val", st, [])]
            for it in self.concrete_items(args[1], st):
                nxt = []
                for k, s, vs in acc:
                    if k == "exc":
                        nxt.append((k, s, vs))
                        continue
                    for r in self.call_value(fn, [it], {}, s, node):
                        nxt.append((r[0], r[1], vs + [r[2]] if r[0] == "val" else r[2]))
                acc = nxt
            return [(k, s, VTuple(vs) if k == "val" else vs) for k, s, vs in acc]
        if len(args) == 2 and isinstance(args[1], VAbs) and isinstance(fn, VFn) and fn.kind == "builtin" and fn.name == "int":
            return [self.val(st, VAbs(args[1].mem, args[1].length, args[1].elem, src=("map_int", args[1])))]
        if len(args) == 2 and isinstance(args[1], (VObj, VRef)):
            f = z3.Function("py_map", ty.IntS, ty.IntS, ty.IntS)
            self.abstractions.add("map(f, opaque iterable) is uninterpreted py_map(f, it)")
            return [self.val(st, VObj(f(to_obj_term(fn), to_obj_term(args[1]))))]
        raise EngineError("map() over symbolic iterable")

    def bi_next(self, args, kwargs, st, node):
        v = args[0]
        if isinstance(v, VRef):
            return self.call_method(v, "__next__", [], {}, st, node)
        if isinstance(v, (VObj, VConst)):
            return [self.val(st, VObj(fresh_const("next", ty.IntS)))]
        raise EngineError(f"next({v!r})")

    def bi_iter(self, args, kwargs, st, node):
        return [self.val(st, args[0])]

    def bi_enumerate(self, args, kwargs, st, node):
        items = self.concrete_items(args[0], st)
        return [self.val(st, VTuple([VTuple([VInt(i), x]) for i, x in enumerate(items)]))]

    def bi_reversed(self, args, kwargs, st, node):
        items = self.concrete_items(args[0], st)
        return [self.val(st, VTuple(list(reversed(items))))]

    def bi_bytes(self, args, kwargs, st, node):
        v = args[0]
        if isinstance(v, VStr):
            return [self.val(st, v)]
        return [self.val(st, VObj(to_obj_term(v)))]

    def bi_open(self, args, kwargs, st, node):
        c = self.schema.contracts.get("builtins.open")
        if c is None:
            raise EngineError("unresolved call: builtins.open has no contract")
        return self.apply_contract(c, None, args, kwargs, st, node)

    def bi_super(self, args, kwargs, st, node):
        raise EngineError("bare super() value")

    def bi_object(self, args, kwargs, st, node):
        return [self.val(st, VObj(fresh_const("object", ty.IntS)))]

    # ------------------------------------------------------------------
    # methods of built-in containers and strings
    def call_cmethod(self, recv, name, args, kwargs, st, node):
        if isinstance(recv, VStr):
            return self.str_method(recv, name, args, kwargs, st, node)
        if isinstance(recv, VLoc):
            return self.loc_method(recv, name, args, kwargs, st, node)
        if isinstance(recv, VRef) and isinstance(recv.T, ty.Map):
            return self.map_method(recv, name, args, kwargs, st, node)
        if isinstance(recv, VRef) and isinstance(recv.T, ty.Lst):
            return self.lst_method(recv, name, args, kwargs, st, node)
        if isinstance(recv, VSeq):
            return self.seq_method(recv, name, args, kwargs, st, node)
        raise EngineError(f"method {name} of {recv!r}")

    def str_method(self, s_, name, args, kwargs, st, node):
        t = s_.t
        if name in ("strip", "rstrip", "lstrip"):
            f = z3.Function(f"py_str_{name}", ty.StrS, ty.StrS)
            self.abstractions.add(f"str.{name} is uninterpreted py_str_{name}")
            return [self.val(st, VStr(f(t), s_.is_bytes))]
        if name == "decode":
            enc = self._const_str(args[0]) if args else "utf-8"
            okf = z3.Function(f"py_decodable_{enc}", ty.StrS, ty.BoolS)
            if self.spec:
                return [self.val(st, VStr(t))]
            out = []
            for b, s in self.branch(st, okf(t)):
                if b:
                    out.append(self.val(s, VStr(t)))
                else:
                    out.append(self.raise_new(s, "UnicodeDecodeError"))
            self.abstractions.add("bytes.decode: identity on the code units when decodable, UnicodeDecodeError otherwise")
            return out
        if name == "encode":
            return [self.val(st, VStr(t, is_bytes=True))]
        if name == "startswith":
            return [self.val(st, VBool(z3.PrefixOf(args[0].t, t)))]
        if name == "endswith":
            return [self.val(st, VBool(z3.SuffixOf(args[0].t, t)))]
        if name == "lower" or name == "upper":
            f = z3.Function(f"py_str_{name}", ty.StrS, ty.StrS)
            return [self.val(st, VStr(f(t)))]
        if name == "split":
            sep = args[0].t if args else None
            return self.str_split(s_, sep, st)
        if name == "splitlines":
            return self.str_split(s_, z3.StringVal("\n"), st)
        if name == "join":
            return self.str_join(s_, args[0], st)
        if name == "format":
            return [self.val(st, VStr(fresh_const("fmt", ty.StrS)))]
        raise EngineError(f"str.{name}")

    def str_split(self, s_, sep, st):
        """Result: a sequence of strings, related to its input only through
        the uninterpreted py_split / the join lemma (DESIGN 7/C11)."""
        sq = z3.SeqSort(ty.StrS)
        if sep is None:
            f = z3.Function("py_split_ws", ty.StrS, sq)
            r = f(s_.t)
            st.assume(z3.Length(r) >= 0)
        else:
            f = z3.Function("py_split", ty.StrS, ty.StrS, sq)
            r = f(s_.t, sep)
            st.assume(z3.Length(r) >= 1)
        self.abstractions.add("str.split is uninterpreted py_split (len>=1 with a separator); see the parse lemma")
        return [self.val(st, VSeq(r, ty.Str))]

    def str_join(self, sep, seq, st):
        if isinstance(seq, (VTuple, VLoc)):
            items = self.concrete_items(seq, st)
            if all(isinstance(x, VStr) for x in items):
                parts = []
                for i, x in enumerate(items):
                    if i:
                        parts.append(sep.t)
                    parts.append(x.t)
                if not parts:
                    return [self.val(st, VStr(""))]
                return [self.val(st, VStr(z3.Concat(*parts) if len(parts) > 1 else parts[0]))]
        if isinstance(seq, VSeq):
            f = z3.Function("py_join", ty.StrS, z3.SeqSort(ty.StrS), ty.StrS)
            self.abstractions.add("str.join over a symbolic sequence is uninterpreted py_join")
            return [self.val(st, VStr(f(sep.t, seq.t)))]
        if isinstance(seq, (VAbs, VObj)):
            self.abstractions.add("str.join over an opaque iterable is an opaque string term")
            return [self.val(st, VStr(fresh_const("join", ty.StrS)))]
        raise EngineError(f"join over {seq!r}")

    def loc_method(self, recv, name, args, kwargs, st, node):
        o = st.loc(recv)
        if o.kind == "list":
            if name == "append":
                o.data.append(args[0])
                return [self.val(st, NONE)]
            if name == "extend":
                o.data.extend(self.concrete_items(args[0], st))
                return [self.val(st, NONE)]
            if name == "pop":
                if not o.data:
                    return [self.raise_new(st, "IndexError")]
                i = self._const_int(args[0]) if args else -1
                return [self.val(st, o.data.pop(i))]
            if name == "reverse":
                o.data.reverse()
                return [self.val(st, NONE)]
            if name == "copy":
                return [self.val(st, st.new_loc("list", list(o.data)))]
            if name == "clear":
                o.data.clear()
                return [self.val(st, NONE)]
            if name == "remove":
                raise EngineError("list.remove on concrete list")
        if o.kind == "dict":
            if name == "items":
                return [self.val(st, VTuple([VTuple([self._pyconst(k), v]) for k, v in o.data.items()]))]
            if name == "keys":
                return [self.val(st, VTuple([self._pyconst(k) for k in o.data]))]
            if name == "values":
                return [self.val(st, VTuple(list(o.data.values())))]
            if name == "get":
                k = self._key_const(args[0])
                return [self.val(st, o.data.get(k, args[1] if len(args) > 1 else NONE))]
            if name == "update":
                if args:
                    o.data.update(st.loc(args[0]).data)
                o.data.update(kwargs)
                return [self.val(st, NONE)]
            if name == "copy":
                return [self.val(st, st.new_loc("dict", dict(o.data)))]
            if name == "pop":
                k = self._key_const(args[0])
                if k in o.data:
                    return [self.val(st, o.data.pop(k))]
                if len(args) > 1:
                    return [self.val(st, args[1])]
                return [self.raise_new(st, "KeyError")]
        if o.kind == "set":
            if name == "add":
                o.data.append(args[0])
                return [self.val(st, NONE)]
        raise EngineError(f"{o.kind}.{name}")

    def map_method(self, m, name, args, kwargs, st, node):
        T = m.T
        if name in ("pop",):
            kt = flatten(args[0], T.key)[0]
            has = st.map_has(m, kt)
            out = []
            for b, s in self.branch(st, has):
                if b:
                    v = s.map_get(m, kt)
                    s._typing(v, T.val)
                    s.map_del(m, kt)
                    for s2, v2 in self.split_value(s, v, T.val):
                        out.append(self.val(s2, v2))
                elif len(args) > 1:
                    out.append(self.val(s, args[1]))
                else:
                    out.append(self.raise_new(s, "KeyError"))
            return out
        if name == "get":
            kt = flatten(args[0], T.key)[0]
            has = st.map_has(m, kt)
            out = []
            for b, s in self.branch(st, has):
                if b:
                    v = s.map_get(m, kt)
                    s._typing(v, T.val)
                    for s2, v2 in self.split_value(s, v, T.val):
                        out.append(self.val(s2, v2))
                else:
                    out.append(self.val(s, args[1] if len(args) > 1 else NONE))
            return out
        if name == "popitem":
            ln = st.map_len(m)
            out = []
            for b, s in self.branch(st, ln > 0):
                if not b:
                    out.append(self.raise_new(s, "KeyError"))
                    continue
                k = fresh_const("popk", T.key.comps[0])
                s.assume(s.map_has(m, k))
                v = s.map_get(m, k)
                s._typing(v, T.val)
                kv = unflatten(T.key, (k,))
                s._typing(kv, T.key)
                s.map_del(m, k)
                for s2, v2 in self.split_value(s, v, T.val):
                    out.append(self.val(s2, VTuple([kv, v2])))
            return out
        if name == "clear":
            st.map_clear(m)
            return [self.val(st, NONE)]
        if name == "copy":
            return self.map_copy(m, st)
        if name in ("values", "keys", "items"):
            return [self.val(st, self.map_view(m, name, st))]
        if name == "update":
            src = args[0]
            if isinstance(src, VRef) and isinstance(src.T, ty.Map):
                ks = T.key.comps[0]
                dom, vals, ln = st.map_arrays(T)
                k = z3.Const(fresh_name("uk"), ks)
                d1, d2 = z3.Select(dom, m.t), z3.Select(dom, src.t)
                nd = z3.Lambda([k], z3.Or(z3.Select(d1, k), z3.Select(d2, k)))
                nv = [z3.Lambda([k], z3.If(z3.Select(d2, k), z3.Select(z3.Select(a, src.t), k), z3.Select(z3.Select(a, m.t), k))) for a in vals]
                st.heap[(T.cls, "dom")] = (z3.Store(dom, m.t, nd),)
                st.heap[(T.cls, "val")] = tuple(z3.Store(a, m.t, b) for a, b in zip(vals, nv))
                st.heap[(T.cls, "len")] = (z3.Store(ln, m.t, fresh_const("ulen", ty.IntS)),)
                return [self.val(st, NONE)]
            if isinstance(src, VLoc):
                for kk, vv in st.loc(src).data.items():
                    st.map_set(m, flatten(self._pyconst(kk), T.key)[0], vv)
                return [self.val(st, NONE)]
            raise EngineError(f"dict.update({src!r})")
        if name == "setdefault":
            raise EngineError("dict.setdefault")
        raise EngineError(f"dict.{name}")

    def map_view(self, m, which, st):
        """Snapshot view of a heap dict as an abstract collection."""
        T = m.T
        dom = st.map_dom(m)
        ln = st.map_len(m)
        ks = T.key.comps[0]
        if which == "keys":
            return VAbs(dom, ln, T.key, src=("keys", m, dom))
        if len(T.val.comps) != 1:
            raise EngineError("values() of a map with multi-component values")
        vs = T.val.comps[0]
        _, vals, _ = st.map_arrays(T)
        varr = z3.Select(vals[0], m.t)
        if which == "values":
            mem = fresh_const("vmem", z3.ArraySort(vs, ty.BoolS))
            st.qhyps.append(QHyp(ks, lambda k, dom=dom, varr=varr, mem=mem:
                                 z3.Implies(z3.Select(dom, k), z3.Select(mem, z3.Select(varr, k))), "values-fwd"))
            wit = z3.Function(fresh_name("vwit"), vs, ks)
            st.qhyps.append(QHyp(vs, lambda y, dom=dom, varr=varr, mem=mem, wit=wit:
                                 z3.Implies(z3.Select(mem, y), z3.And(z3.Select(dom, wit(y)), z3.Select(varr, wit(y)) == y)), "values-bwd"))
            if isinstance(T.val, (ty.Ref, ty.Map, ty.Lst)) and not is_nullable(T.val):
                alloc = st.alloc
                st.qhyps.append(QHyp(vs, lambda y, mem=mem, alloc=alloc:
                                     z3.Implies(z3.Select(mem, y), z3.And(y > 0, y < alloc)), "values-typing"))
            return VAbs(mem, ln, T.val, src=("values", m, dom, varr))
        return VAbs(dom, ln, ty.Tup(T.key, T.val), src=("items", m, dom, varr))

    def lst_method(self, l, name, args, kwargs, st, node):
        seq = st.lst_get(l)
        es = l.T.elem.comps[0]
        if name == "append":
            st.lst_set(l, z3.Concat(seq, z3.Unit(flatten(args[0], l.T.elem)[0])))
            return [self.val(st, NONE)]
        if name == "pop":
            out = []
            n = z3.Length(seq)
            for b, s in self.branch(st, n > 0):
                if not b:
                    out.append(self.raise_new(s, "IndexError"))
                    continue
                if args:
                    raise EngineError("list.pop(i) on symbolic list")
                last = seq[n - 1]
                s.lst_set(l, z3.SubSeq(seq, 0, n - 1))
                out.append(self.val(s, unflatten(l.T.elem, (last,))))
            return out
        if name == "reverse":
            f = z3.Function(f"seq_rev_{seq.sort().name()}", seq.sort(), seq.sort())
            r = f(seq)
            st.assume(z3.Length(r) == z3.Length(seq))
            st.qhyps.append(QHyp(ty.IntS, lambda k, r=r, seq=seq:
                                 z3.Implies(z3.And(k >= 0, k < z3.Length(seq)), r[k] == seq[z3.Length(seq) - 1 - k]), "reverse-pointwise"))
            st.lst_set(l, r)
            return [self.val(st, NONE)]
        if name == "remove":
            x = flatten(args[0], l.T.elem)[0]
            has = z3.Contains(seq, z3.Unit(x))
            out = []
            for b, s in self.branch(st, has):
                if not b:
                    out.append(self.raise_new(s, "ValueError"))
                    continue
                i = z3.IndexOf(seq, z3.Unit(x), 0)
                s.lst_set(l, z3.Concat(z3.SubSeq(seq, 0, i), z3.SubSeq(seq, i + 1, z3.Length(seq) - i - 1)))
                out.append(self.val(s, NONE))
            return out
        if name == "clear":
            st.lst_set(l, z3.Empty(seq.sort()))
            return [self.val(st, NONE)]
        raise EngineError(f"list.{name} on heap list")

    def seq_method(self, s_, name, args, kwargs, st, node):
        raise EngineError(f"sequence method {name}")
