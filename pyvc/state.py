"""Symbolic state: frames, component heap, ghost state, path condition,
event log, quantified hypotheses."""
import z3
from . import types as ty
from .values import (V, VInt, VBool, VRef, VNone, VOpt, VObj, VTuple, VLoc,
                     NONE, EngineError, flatten, unflatten, fresh_const,
                     fresh_name, is_nullable)


class Frame:
    """Local variables of one activation (shared by closures)."""

    def __init__(self, module, func, parent=None):
        self.vars = {}
        self.module = module
        self.func = func
        self.parent = parent
        self.globals_decl = set()
        self.nonlocal_decl = set()
        self.fid = fresh_name("frame")

    def clone(self):
        f = Frame.__new__(Frame)
        f.vars = dict(self.vars)
        f.module = self.module
        f.func = self.func
        f.parent = self.parent          # a frame id (or None)
        f.globals_decl = self.globals_decl
        f.nonlocal_decl = self.nonlocal_decl
        f.fid = self.fid
        for extra in ("local_names", "cls", "self_name", "is_spec"):
            if hasattr(self, extra):
                setattr(f, extra, getattr(self, extra))
        return f


class PyObj:
    """Python-side container with a concrete shape."""

    def __init__(self, kind, data):
        self.kind = kind    # 'list' | 'dict' | 'set'
        self.data = data

    def clone(self):
        d = list(self.data) if self.kind in ("list", "set") else dict(self.data)
        return PyObj(self.kind, d)


class Event:
    def __init__(self, tag, args, site=None):
        self.tag = tag
        self.args = args
        self.site = site

    def __repr__(self):
        return f"{self.tag}{tuple(self.args)}"


class QHyp:
    """Quantified hypothesis  forall k:sort. body(k)  kept for
    instantiation; `body` maps a z3 term to a z3 Bool."""

    def __init__(self, sort, body, name=""):
        self.sort = sort
        self.body = body
        self.name = name


def initial_array(cls, field, i, sort):
    return z3.Const(f"H0!{cls}.{field}!{i}", z3.ArraySort(ty.IntS, sort))


class State:
    def __init__(self, schema):
        self.schema = schema
        self.frames = {}        # fid -> Frame (closures refer to fids)
        self.cur = None         # fid of the running activation
        self.heap = {}          # (cls, field) -> tuple of z3 arrays
        self.ghost = {}         # name -> z3 term
        self.pc = []
        self.qhyps = []
        self.log = []
        self.log_opaque = set()  # tags hidden by a loop summary
        self.alloc = z3.Const("alloc0", ty.IntS)
        self.objs = {}
        self.globs = {}         # (module, name) -> V
        self.held = []          # ghost multiset of held lock addresses
        self.cur_exc = None
        self.gen_out = None     # ghost output of a generator (list of V)
        self.notes = []
        self.pc.append(self.alloc > 0)

    # ------------------------------------------------------------------
    def clone(self):
        s = State.__new__(State)
        s.schema = self.schema
        s.frames = {k: f.clone() for k, f in self.frames.items()}
        s.cur = self.cur
        s.heap = dict(self.heap)
        s.ghost = dict(self.ghost)
        s.pc = list(self.pc)
        s.qhyps = list(self.qhyps)
        s.log = list(self.log)
        s.log_opaque = set(self.log_opaque)
        s.alloc = self.alloc
        s.objs = {k: o.clone() for k, o in self.objs.items()}
        s.globs = dict(self.globs)
        s.held = list(self.held)
        s.cur_exc = self.cur_exc
        s.gen_out = list(self.gen_out) if self.gen_out is not None else None
        s.notes = list(self.notes)
        s._mvt = dict(getattr(self, "_mvt", {}))
        return s

    @property
    def frame(self):
        return self.frames[self.cur]

    def push_frame(self, module, func, parent=None):
        f = Frame(module, func, parent)
        self.frames[f.fid] = f
        prev = self.cur
        self.cur = f.fid
        return prev

    def assume(self, cond):
        if z3.is_true(cond):
            return
        self.pc.append(cond)

    # ------------------------------------------------------------------
    # heap
    def _comp(self, cls, field, T):
        key = (cls, field)
        if key not in self.heap:
            self.heap[key] = tuple(
                initial_array(cls, field, i, s) for i, s in enumerate(T.comps))
        return self.heap[key]

    def owner_cls(self, cls, field):
        """Class in the hierarchy of `cls` that declares `field`."""
        return self.schema.field_owner(cls, field)

    def read_field(self, ref, field):
        owner, T = self.schema.field(ref.cls, field)
        arrs = self._comp(owner, field, T)
        terms = tuple(z3.Select(a, ref.t) for a in arrs)
        v = unflatten(T, terms)
        self._typing(v, T)
        return v, T

    def write_field(self, ref, field, v):
        owner, T = self.schema.field(ref.cls, field)
        if isinstance(v, VLoc) and isinstance(T, (ty.Map, ty.Lst)):
            o = self.loc(v)
            if len(o.data) != 0:
                raise EngineError(f"non-empty literal container stored into heap field {ref.cls}.{field}")
            if isinstance(T, ty.Map):
                v = self.new_map(T)
            else:
                v = self.new_obj(T.cls, T)
                self.lst_set(v, z3.Empty(z3.SeqSort(T.elem.comps[0])))
        arrs = self._comp(owner, field, T)
        terms = flatten(v, T)
        self.heap[(owner, field)] = tuple(
            z3.Store(a, ref.t, t) for a, t in zip(arrs, terms))

    def _typing(self, v, T):
        """Typing facts of a value read from the heap / received."""
        if isinstance(T, (ty.Ref, ty.Map, ty.Lst, ty.Exc)):
            t = v.t
            if is_nullable(T):
                self.assume(z3.And(t >= 0, t < self.alloc))
            else:
                self.assume(z3.And(t > 0, t < self.alloc))
            cc = self.class_cond(T, t)
            if cc is not None:
                self.assume(z3.Or(t == 0, cc) if is_nullable(T) else cc)
        elif isinstance(T, ty.Opt):
            self._typing(v.inner, T.inner)
        elif isinstance(T, ty.Tup):
            for it, Ti in zip(v.items, T.items):
                self._typing(it, Ti)

    def class_cond(self, T, t):
        """Dynamic class of a statically typed reference."""
        from .values import const_id
        if isinstance(T, ty.Exc):
            return self.cls_of(t) == const_id("class:<exc>")
        if isinstance(T, ty.Ref) and T.cls in self.schema.classes:
            subs = [n for n in self.schema.classes if T.cls in self.schema.mro(n)]
            return z3.Or([self.cls_of(t) == const_id(f"class:{n}") for n in subs])
        return None

    def new_obj(self, cls, T=None):
        addr = self.alloc
        nxt = fresh_const("alloc", ty.IntS)
        self.assume(nxt == addr + 1)
        self.alloc = nxt
        # dynamic class of the new object (for isinstance on opaque values)
        from .values import const_id
        key = ("<obj>", "cls")
        if key not in self.heap:
            self.heap[key] = (initial_array("<obj>", "cls", 0, ty.IntS),)
        self.heap[key] = (z3.Store(self.heap[key][0], addr, z3.IntVal(const_id(f"class:{cls}"))),)
        return VRef(addr, cls, T)

    def cls_of(self, t):
        key = ("<obj>", "cls")
        if key not in self.heap:
            self.heap[key] = (initial_array("<obj>", "cls", 0, ty.IntS),)
        return z3.Select(self.heap[key][0], t)

    # ------------------------------------------------------------------
    # dict objects on the heap: components dom / val_i / len
    def map_arrays(self, T):
        cls = T.cls
        ks = T.key.comps[0]
        key = (cls, "dom")
        if key not in self.heap:
            self.heap[key] = (initial_array(cls, "dom", 0,
                                            z3.ArraySort(ks, ty.BoolS)),)
            self.heap[(cls, "len")] = (initial_array(cls, "len", 0, ty.IntS),)
            self.heap[(cls, "val")] = tuple(
                initial_array(cls, "val", i, z3.ArraySort(ks, s))
                for i, s in enumerate(T.val.comps))
        return self.heap[(cls, "dom")][0], self.heap[(cls, "val")], \
            self.heap[(cls, "len")][0]

    def map_dom(self, m):
        dom, _, _ = self.map_arrays(m.T)
        return z3.Select(dom, m.t)

    def map_len(self, m):
        _, _, ln = self.map_arrays(m.T)
        l = z3.Select(ln, m.t)
        d = self.map_dom(m)
        self.assume(l >= 0)
        ksort = m.T.key.comps[0]
        self.qhyps.append(QHyp(ksort, lambda k, d=d, l=l:
                               z3.Implies(z3.Select(d, k), l >= 1),
                               "map-len-dom"))
        return l

    def map_has(self, m, k):
        return z3.Select(self.map_dom(m), k)

    def map_get(self, m, k):
        _, vals, _ = self.map_arrays(m.T)
        terms = tuple(z3.Select(z3.Select(a, m.t), k) for a in vals)
        v = unflatten(m.T.val, terms)
        self._map_value_typing(m)
        return v

    def _map_value_typing(self, m):
        """Values stored under a key are well-typed references (instantiated
        on demand): forall k. k in d -> 0 < d[k] < alloc."""
        VT = m.T.val
        if not isinstance(VT, (ty.Ref, ty.Map, ty.Lst)) or is_nullable(VT):
            return
        dom = self.map_dom(m)
        _, vals, _ = self.map_arrays(m.T)
        varr = z3.Select(vals[0], m.t)
        key = (dom.get_id(), varr.get_id())
        if not hasattr(self, "_mvt"):
            self._mvt = {}
        if key in self._mvt:
            q = self._mvt[key][2]
            if not any(x is q for x in self.qhyps):
                self.qhyps.append(q)
            return
        alloc = self.alloc
        cc = self.class_cond(VT, z3.Int("cc!probe"))
        clsarr = self.heap[("<obj>", "cls")][0] if cc is not None else None

        def body(k, dom=dom, varr=varr, alloc=alloc, clsarr=clsarr, VT=VT):
            v = z3.Select(varr, k)
            conds = [v > 0, v < alloc]
            if clsarr is not None:
                from .values import const_id
                subs = [n for n in self.schema.classes if VT.cls in self.schema.mro(n)]
                conds.append(z3.Or([z3.Select(clsarr, v) == const_id(f"class:{n}") for n in subs]))
            return z3.Implies(z3.Select(dom, k), z3.And(conds))
        q = QHyp(m.T.key.comps[0], body, "map-value-typing")
        self._mvt[key] = (dom, varr, q)
        self.qhyps.append(q)

    def map_set(self, m, k, v):
        dom, vals, ln = self.map_arrays(m.T)
        cls = m.T.cls
        had = z3.Select(z3.Select(dom, m.t), k)
        oldlen = z3.Select(ln, m.t)
        terms = flatten(v, m.T.val)
        self.heap[(cls, "dom")] = (z3.Store(
            dom, m.t, z3.Store(z3.Select(dom, m.t), k, z3.BoolVal(True))),)
        self.heap[(cls, "val")] = tuple(
            z3.Store(a, m.t, z3.Store(z3.Select(a, m.t), k, t))
            for a, t in zip(vals, terms))
        self.heap[(cls, "len")] = (z3.Store(
            ln, m.t, z3.If(had, oldlen, oldlen + 1)),)

    def map_del(self, m, k):
        """Caller has established k in dom."""
        dom, vals, ln = self.map_arrays(m.T)
        cls = m.T.cls
        oldlen = z3.Select(ln, m.t)
        self.heap[(cls, "dom")] = (z3.Store(
            dom, m.t, z3.Store(z3.Select(dom, m.t), k, z3.BoolVal(False))),)
        self.heap[(cls, "len")] = (z3.Store(ln, m.t, oldlen - 1),)

    def map_clear(self, m):
        dom, vals, ln = self.map_arrays(m.T)
        cls = m.T.cls
        ks = m.T.key.comps[0]
        self.heap[(cls, "dom")] = (z3.Store(
            dom, m.t, z3.K(ks, z3.BoolVal(False))),)
        self.heap[(cls, "len")] = (z3.Store(ln, m.t, z3.IntVal(0)),)

    def map_havoc(self, m):
        dom, vals, ln = self.map_arrays(m.T)
        cls = m.T.cls
        ks = m.T.key.comps[0]
        self.heap[(cls, "dom")] = (z3.Store(
            dom, m.t, fresh_const("hdom", z3.ArraySort(ks, ty.BoolS))),)
        self.heap[(cls, "len")] = (z3.Store(
            ln, m.t, fresh_const("hlen", ty.IntS)),)
        self.heap[(cls, "val")] = tuple(
            z3.Store(a, m.t, fresh_const("hval", z3.ArraySort(ks, s)))
            for a, s in zip(vals, m.T.val.comps))

    def new_map(self, T):
        m = self.new_obj(T.cls, T)
        self.map_clear(m)
        return m

    # ------------------------------------------------------------------
    # list objects on the heap: component 'items' : Seq(elem)
    def lst_arrays(self, T):
        cls = T.cls
        key = (cls, "items")
        if key not in self.heap:
            self.heap[key] = (initial_array(
                cls, "items", 0, z3.SeqSort(T.elem.comps[0])),)
        return self.heap[key][0]

    def lst_get(self, l):
        return z3.Select(self.lst_arrays(l.T), l.t)

    def lst_set(self, l, seq):
        arr = self.lst_arrays(l.T)
        self.heap[(l.T.cls, "items")] = (z3.Store(arr, l.t, seq),)

    # ------------------------------------------------------------------
    # Python-side containers
    def new_loc(self, kind, data):
        oid = fresh_name("loc")
        self.objs[oid] = PyObj(kind, data)
        return VLoc(oid, kind)

    def loc(self, v):
        return self.objs[v.oid]

    # ------------------------------------------------------------------
    # ghost
    def ghost_get(self, name):
        if name not in self.ghost:
            decl = self.schema.ghosts[name]
            self.ghost[name] = z3.Const(f"G0!{name}", decl.sort)
        return self.ghost[name]

    def ghost_set(self, name, term):
        self.ghost_get(name)
        self.ghost[name] = term

    def emit(self, tag, args, site=None):
        self.log.append(Event(tag, list(args), site))
