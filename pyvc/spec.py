"""Sidecar API: schema (classes, fields, ghost state, globals, exception
lattice), contracts, loop invariants, trusted externals."""
import z3
from . import types as ty
from .values import EngineError


class ClassDecl:
    def __init__(self, name, fields, bases=(), module=None, src_name=None,
                 external=False, truthy=None, src_path=None):
        self.name = name
        self.fields = dict(fields)
        self.bases = list(bases)
        self.module = module          # loky module (source) or None
        self.src_name = src_name or name
        self.external = external
        self.truthy = truthy          # None: always true
        self.src_path = src_path      # qualified path of a class nested in a function
        self.forward = {}             # instance attribute -> (field, method): bound methods installed by _make_methods


class GhostDecl:
    def __init__(self, name, sort, doc="", elem=None):
        self.name = name
        self.sort = sort
        self.doc = doc
        self.elem = elem      # 'obj': the values are object ids


class GlobDecl:
    def __init__(self, module, name, T, inv=None, const=None, doc="", factory=None, guard=None):
        self.guard = guard          # name of the module-level lock that must be held whenever code of this module reads or writes the global
        self.module = module
        self.name = name
        self.T = T
        self.inv = inv
        self.const = const
        self.doc = doc
        self.factory = factory      # callable(engine, state) -> value built from the module's own source


class Contract:
    def __init__(self, key, props=(), trusted=False, cite=""):
        self.key = key
        self.props = list(props)
        self.trusted = trusted
        self.cite = cite
        self.params = []        # (name, T, has_default, default_expr)
        self.vararg = None      # (name, T)
        self.kwarg = None
        self.lets = []
        self.requires_ = []
        self.ensures_ = []
        self.exsures_ = []      # (label, exc class, when, post)
        self.may_raise = []     # trusted: (exc class, when) without labels
        self.only_raises = None  # label of the "raises only these" obligation
        self.modifies_ = None
        self.returns_ = ty.NoneT
        self.events_ = []       # (tag, [arg exprs])
        self.twins_ = []
        self.covers_ = []
        self.expect_ = {}
        self.pure = False
        self.inline = False
        self.assumes_ = []      # A-tags this contract relies on
        self.replay_ = None
        self.entry_held = []
        self.notes = []
        self.user_call = None
        self.result_name = "result"

    # ---- builder API --------------------------------------------------
    def param(self, name, T, default=None):
        self.params.append((name, T, default is not None, default))
        return self

    def varargs(self, name, T=ty.Obj):
        self.vararg = (name, T)
        return self

    def kwargs(self, name, T=ty.Obj):
        self.kwarg = (name, T)
        return self

    def let(self, name, expr):
        self.lets.append((name, expr))
        return self

    def requires(self, label, expr):
        self.requires_.append((label, expr))
        return self

    def rely(self, label, expr, tag):
        """Representation invariant / rely that is assumed on entry and is
        NOT proved at call sites: an explicit assumption (tag) listed in the
        evidence."""
        if not hasattr(self, "relies_"):
            self.relies_ = []
        self.relies_.append((label, expr, tag))
        self.assumes_.append(tag)
        return self

    def ensures(self, label, expr, prop=None):
        self.ensures_.append((label, expr, prop))
        return self

    def raises(self, label, exc, when=None, post=None, prop=None):
        """Exceptional postcondition: if an exception of class `exc`
        escapes, `when` held at entry and `post` holds at exit."""
        self.exsures_.append((label, exc, when, post, prop))
        return self

    def raises_only(self, label="raises/only", prop=None):
        """Obligation: no exception other than the declared ones escapes."""
        self.only_raises = (label, prop)
        return self

    def modifies(self, *paths):
        self.modifies_ = list(paths)
        return self

    def modifies_anything(self):
        """No frame is claimed (top-level loops that nobody calls)."""
        self.modifies_ = None
        return self

    def returns(self, T, fresh=False):
        """Result type; fresh=True: a newly allocated object."""
        self.returns_ = T
        self.fresh_result = fresh
        return self

    def event(self, tag, *args):
        self.events_.append((tag, list(args)))
        return self

    def twin(self, label, expr):
        """Deliberately false variant of an ensures clause: must be refuted
        (sat) on at least one path, otherwise hypotheses are vacuous."""
        self.twins_.append((label, expr))
        return self

    def cover(self, label, expr="True"):
        self.covers_.append((label, expr))
        return self

    def expect(self, **kw):
        self.expect_.update(kw)
        return self

    def assumes(self, *tags):
        self.assumes_ += tags
        return self

    def replay(self, harness, **inputs):
        """Native replay: `harness` names a function of /verif/replay/
        harness.py; inputs are spec expressions evaluated under the
        counter-model."""
        self.replay_ = (harness, inputs)
        return self

    def replay_for(self, match, harness, **inputs):
        """Replay harness for the obligations whose name contains `match`."""
        if not hasattr(self, "replays_"):
            self.replays_ = []
        self.replays_.append((match, harness, inputs))
        return self

    def holds(self, *locks):
        """Locks (expressions) in the ghost held-set at entry."""
        self.entry_held += locks
        return self

    def note(self, s):
        self.notes.append(s)
        return self

    def is_quiet(self):
        """Trusted no-op whose outcomes leave no trace in the event log."""
        self.quiet = True
        return self

    def is_pure(self):
        """Trusted: the result is a function of the arguments only."""
        self.pure = True
        return self

    def at_user_call(self, label, expr, prop=None):
        """Obligation asserted at every call of an opaque user callable
        reached from this function (`callee` is bound to the callable)."""
        if not hasattr(self, "at_user_call_"):
            self.at_user_call_ = []
        self.at_user_call_.append((label, expr, prop))
        return self

    def result_as(self, name):
        """Name of the return value in clauses (when a parameter is itself
        called `result`)."""
        self.result_name = name
        return self

    def at_call(self, callee_key, label, expr, prop=None):
        """Obligation asserted at every call of `callee_key` (an external
        or contracted function) reached from this function."""
        if not hasattr(self, "at_call_"):
            self.at_call_ = []
        self.at_call_.append((callee_key, label, expr, prop))
        return self

    def yield_at(self, callee_key, paths, guarantee=None, tag=None, when=None):
        """Interference point: at every call of `callee_key` (e.g. time.sleep) other threads run; the listed paths are havocked there and
        `guarantee` (what the other threads preserve; an assumption listed under `tag`) is assumed afterwards."""
        if not hasattr(self, "yield_at_"):
            self.yield_at_ = []
        self.yield_at_.append((callee_key, list(paths), guarantee, tag, when))
        if tag:
            self.assumes(tag)
        return self

    def free(self, name, T):
        """Free variable of a nested function (bound like a parameter)."""
        if not hasattr(self, "free_vars"):
            self.free_vars = {}
        self.free_vars[name] = T
        return self

    def heap_dicts(self, T):
        """Empty dict displays `{}` in this function allocate heap maps of type T."""
        self.heap_dict_T = T
        return self

    def touch(self, *globs):
        """Module globals of union type read by the function: split at entry."""
        if not hasattr(self, "touch_"):
            self.touch_ = []
        self.touch_ += globs
        return self

    def inlined(self):
        """Verified against this contract, but call sites execute the body
        (used when the result type is not expressible as a schema type)."""
        self.inline = True
        return self

    def is_generator(self, mode=True):
        """mode True: the yielded values are kept as a concrete list (no yield inside a cut loop); 'items': every yielded value is
        appended (as an object id) to the ghost sequence G.gen_items; 'chunks': every yielded value is a sequence, appended to G.gen_flat
        (concatenation of everything yielded so far), G.gen_n counts the yields."""
        self.generator = mode
        return self


class LoopInv:
    def __init__(self, key, loop, header):
        self.key = key
        self.loop = loop
        self.header = header
        self.invs = []
        self.decreases = None
        self.index = None
        self.exit_assume = []
        self.locals_ = {}
        self.iter_posts = []

    def inv(self, label, expr, prop=None):
        self.invs.append((label, expr, prop))
        return self

    def local(self, name, T):
        """Declared type of a local that changes kind across iterations
        (e.g. None before the first iteration, a number afterwards)."""
        self.locals_[name] = T
        return self

    def iter_post(self, label, expr, prop=None):
        """Checked at the end of every iteration; log queries see the
        events of that iteration only."""
        self.iter_posts.append((label, expr, prop))
        return self

    def variant(self, expr):
        self.decreases = expr
        return self

    def on_break(self, label, expr, prop=None):
        """Checked whenever the loop is left through `break`; log queries see the events of that last iteration only."""
        if not hasattr(self, "on_breaks"):
            self.on_breaks = []
        self.on_breaks.append((label, expr, prop))
        return self

    def exits_under(self, label, env_expr, havoc=(), prop=None, tag=None):
        """Progress obligation of a polling loop, relative to a declared eventual guarantee of the other threads: in any state
        satisfying the invariant, once the shared state named in `havoc` has been changed arbitrarily by them and `env_expr`
        (their guarantee, an assumption listed under `tag`) holds, the loop test is false, i.e. the loop cannot poll for ever
        on something the environment never promises."""
        if not hasattr(self, "exits_"):
            self.exits_ = []
        self.exits_.append((label, env_expr, list(havoc), prop, tag))
        return self


EXC_TREE = {
    "BaseException": None,
    "Exception": "BaseException",
    "SystemExit": "BaseException",
    "KeyboardInterrupt": "BaseException",
    "GeneratorExit": "BaseException",
    "UserBaseException": "BaseException",   # any user class not below Exception
    "UserException": "Exception",           # any user class below Exception
    "ArithmeticError": "Exception",
    "AssertionError": "Exception",
    "AttributeError": "Exception",
    "EOFError": "Exception",
    "ImportError": "Exception",
    "LookupError": "Exception",
    "IndexError": "LookupError",
    "KeyError": "LookupError",
    "MemoryError": "Exception",
    "NameError": "Exception",
    "UnboundLocalError": "NameError",
    "OSError": "Exception",
    "FileExistsError": "OSError",
    "FileNotFoundError": "OSError",
    "ProcessLookupError": "OSError",
    "ChildProcessError": "OSError",
    "BrokenPipeError": "OSError",
    "PermissionError": "OSError",
    "RuntimeError": "Exception",
    "NotImplementedError": "RuntimeError",
    "RecursionError": "RuntimeError",
    "StopIteration": "Exception",
    "TypeError": "Exception",
    "ValueError": "Exception",
    "UnicodeDecodeError": "ValueError",
    "Warning": "Exception",
    "UserWarning": "Warning",
    "DeprecationWarning": "Warning",
    "queue.Empty": "Exception",
    "queue.Full": "Exception",
    "pickle.PicklingError": "Exception",
    "pickle.UnpicklingError": "Exception",
    "struct.error": "Exception",
    "subprocess.CalledProcessError": "Exception",
    "psutil.NoSuchProcess": "Exception",
    "concurrent.futures.BrokenExecutor": "RuntimeError",
    "concurrent.futures.process.BrokenProcessPool":
        "concurrent.futures.BrokenExecutor",
    "concurrent.futures.CancelledError": "Exception",
    "concurrent.futures.TimeoutError": "Exception",
    "concurrent.futures.InvalidStateError": "Exception",
}


class Schema:
    def __init__(self):
        self.classes = {}
        self.ghosts = {}
        self.globs = {}
        self.contracts = {}
        self.invariants = {}
        self.exc_parent = dict(EXC_TREE)
        self.exc_ids = {}
        self.modules = {}       # loky module name -> ModuleSpec
        self.src_class = {}     # (module, src class name) -> schema name
        self.assumption_tags = {}
        self.lemmas = []
        self.structural = []
        self.inline_funcs = set()
        self.aliases = {}
        self.user_calls = {}
        self.spec_funcs = {}
        for n in self.exc_parent:
            self._exc_id(n)
        self.cls("<exc>", dict(cls=ty.Int, cause=ty.Exc(nullable=True),
                               msg=ty.Obj, errno=ty.Int, payload=ty.Obj,
                               returncode=ty.Int, tb=ty.Obj, context=ty.Exc(nullable=True)),
                 external=True)

    # ---- exception lattice -------------------------------------------
    def _exc_id(self, name):
        if name not in self.exc_ids:
            self.exc_ids[name] = len(self.exc_ids) + 1
        return self.exc_ids[name]

    def exc(self, name, parent):
        if parent not in self.exc_parent:
            raise EngineError(f"unknown exception parent {parent}")
        self.exc_parent[name] = parent
        return self._exc_id(name)

    def exc_descendants(self, name):
        if name not in self.exc_parent:
            raise EngineError(f"unknown exception class {name}")
        out = []
        for n in self.exc_parent:
            m = n
            while m is not None:
                if m == name:
                    out.append(n)
                    break
                m = self.exc_parent[m]
        return out

    def exc_isinstance(self, clsterm, name):
        ids = [self.exc_ids[n] for n in self.exc_descendants(name)]
        if z3.is_int_value(clsterm):
            return z3.BoolVal(clsterm.as_long() in ids)
        return z3.Or([clsterm == i for i in ids])

    def exc_valid(self, clsterm, below="BaseException"):
        ids = [self.exc_ids[n] for n in self.exc_descendants(below)]
        return z3.Or([clsterm == i for i in ids])

    def exc_name(self, i):
        for n, j in self.exc_ids.items():
            if j == i:
                return n
        return f"exc#{i}"

    # ---- declarations --------------------------------------------------
    def cls(self, name, fields=None, bases=(), module=None, src_name=None,
            external=False, truthy=None, src_path=None):
        d = ClassDecl(name, fields or {}, bases, module, src_name, external,
                      truthy, src_path)
        self.classes[name] = d
        if module:
            self.src_class[(module, d.src_name)] = name
        return d

    def ghost(self, name, sort, doc="", elem=None):
        self.ghosts[name] = GhostDecl(name, sort, doc, elem)

    def glob(self, module, name, T, inv=None, const=None, doc="", factory=None, guard=None):
        self.globs[(module, name)] = GlobDecl(module, name, T, inv, const, doc, factory, guard)

    def mro(self, cls):
        out = []
        todo = [cls]
        while todo:
            c = todo.pop(0)
            if c in out:
                continue
            out.append(c)
            if c in self.classes:
                todo += self.classes[c].bases
        return out

    def field(self, cls, field):
        for c in self.mro(cls):
            d = self.classes.get(c)
            if d and field in d.fields:
                return c, d.fields[field]
        raise EngineError(f"schema: class {cls} has no field {field!r}")

    def has_field(self, cls, field):
        for c in self.mro(cls):
            d = self.classes.get(c)
            if d and field in d.fields:
                return True
        return False

    def contract(self, key, props=(), trusted=False, cite=""):
        c = Contract(key, props, trusted, cite)
        self.contracts[key] = c
        return c

    def ext(self, key, cite=""):
        """Trusted external contract (an assumption, listed in evidence)."""
        return self.contract(key, trusted=True, cite=cite)

    def invariant(self, key, loop, header):
        li = LoopInv(key, loop, header)
        self.invariants[(key, loop)] = li
        return li

    def assumption(self, tag, text):
        self.assumption_tags[tag] = text


SCHEMA = Schema()


class Module:
    """Handle for one loky source module in the sidecars."""

    def __init__(self, name, schema=None):
        self.name = name
        self.schema = schema or SCHEMA
        self.schema.modules[name] = self

    def key(self, qual):
        return f"{self.name}:{qual}"

    def cls(self, name, fields=None, bases=(), **kw):
        return self.schema.cls(name, fields, bases, module=self.name, **kw)

    def glob(self, name, T, **kw):
        self.schema.glob(self.name, name, T, **kw)

    def contract(self, qual, props=(), **kw):
        return self.schema.contract(self.key(qual), props, **kw)

    def invariant(self, qual, loop, header):
        return self.schema.invariant(self.key(qual), loop, header)

    def inline(self, qual):
        self.schema.inline_funcs.add(self.key(qual))
