"""Front end: re-reads the real loky sources from the repository on every
run and indexes functions / classes / imports / module constants."""
import ast
import hashlib
import os
from .values import EngineError


class ModInfo:
    def __init__(self, name, path, text):
        self.name = name
        self.path = path
        self.text = text
        self.lines = text.splitlines()
        self.tree = ast.parse(text, filename=path)
        self.funcs = {}      # qualname -> FunctionDef
        self.classes = {}    # name -> ClassDef
        self.imports = {}    # local name -> ('ext', dotted) | ('loky', module, name|None)
        self.consts = {}     # name -> ast expr (module level simple assigns)
        self.assigned = {}   # name -> list of ast.Assign nodes at module level
        self.is_pkg = os.path.basename(path) == "__init__.py"
        self._index(self.tree.body)

    def _pkg(self):
        if self.is_pkg:
            return self.name
        return self.name.rsplit(".", 1)[0] if "." in self.name else ""

    def _abs(self, module, level):
        if level == 0:
            return module
        base = self._pkg().split(".")
        if level > 1:
            base = base[:-(level - 1)]
        return ".".join(base + ([module] if module else []))

    def _index(self, body):
        for node in body:
            if isinstance(node, (ast.FunctionDef,)):
                self.funcs[node.name] = node
            elif isinstance(node, ast.ClassDef):
                self.classes[node.name] = node
                self._index_class(node.name, node.body)
            elif isinstance(node, ast.Import):
                for a in node.names:
                    local = a.asname or a.name.split(".")[0]
                    target = a.name if a.asname else a.name.split(".")[0]
                    self.imports[local] = self._imp(target, None)
            elif isinstance(node, ast.ImportFrom):
                mod = self._abs(node.module or "", node.level)
                for a in node.names:
                    self.imports[a.asname or a.name] = self._imp(mod, a.name)
            elif isinstance(node, ast.Assign):
                for tgt in node.targets:
                    if isinstance(tgt, ast.Name):
                        self.consts[tgt.id] = node.value
                        self.assigned.setdefault(tgt.id, []).append(node)
            elif isinstance(node, ast.If):
                # platform switches at module level: index both arms, the
                # posix arm last so that it wins
                test = ast.unparse(node.test)
                if "win32" in test and "!=" not in test:
                    self._index(node.orelse)
                elif "win32" in test:
                    self._index(node.body)
                else:
                    self._index(node.orelse)
                    self._index(node.body)
            elif isinstance(node, ast.Try):
                for h in node.handlers:
                    self._index(h.body)
                self._index(node.body)
                self._index(node.orelse)

    def _index_class(self, cname, body):
        for sub in body:
            if isinstance(sub, ast.FunctionDef):
                self.funcs[f"{cname}.{sub.name}"] = sub
            elif isinstance(sub, ast.If):
                # methods defined under a platform switch in the class body (posix arm wins)
                test = ast.unparse(sub.test)
                if "win32" in test and "!=" not in test:
                    self._index_class(cname, sub.orelse)
                elif "win32" in test:
                    self._index_class(cname, sub.body)

    def _imp(self, module, name):
        if module == "loky" or module.startswith("loky."):
            return ("loky", module, name)
        if name is None:
            return ("ext", module)
        return ("ext", f"{module}.{name}")

    def src(self, node):
        return ast.get_source_segment(self.text, node)

    def digest(self, node):
        return hashlib.sha256(ast.dump(node).encode()).hexdigest()[:16]


class Repo:
    def __init__(self, root):
        self.root = root
        self.mods = {}

    def module(self, name):
        if name in self.mods:
            return self.mods[name]
        rel = name.replace(".", "/")
        for cand in (f"{rel}.py", f"{rel}/__init__.py"):
            p = os.path.join(self.root, cand)
            if os.path.exists(p):
                with open(p, encoding="utf-8") as fh:
                    text = fh.read()
                try:
                    mi = ModInfo(name, p, text)
                except SyntaxError as e:
                    raise EngineError(f"cannot parse {p}: {e}")
                self.mods[name] = mi
                return mi
        raise EngineError(f"module {name} not found under {self.root}")

    def has_module(self, name):
        rel = name.replace(".", "/")
        return any(os.path.exists(os.path.join(self.root, c))
                   for c in (f"{rel}.py", f"{rel}/__init__.py"))

    def func(self, key):
        mod, qual = key.split(":")
        mi = self.module(mod)
        if qual in mi.funcs:
            return mi, mi.funcs[qual]
        # nested function "outer.<locals>.inner" or class in function
        parts = qual.split(".")
        node = None
        scope = mi.tree.body
        cur = None
        for p in parts:
            cur = _find_def(scope, p)
            if cur is None:
                raise EngineError(f"function {key} not found in {mi.path}")
            scope = cur.body
        return mi, cur


def _find_def(body, name):
    """Definition `name` in this scope (not inside nested function/class bodies of other definitions)."""
    todo = list(body)
    while todo:
        node = todo.pop(0)
        if isinstance(node, (ast.FunctionDef, ast.ClassDef)):
            if node.name == name:
                return node
            continue
        for fld in ("body", "orelse", "finalbody"):
            sub = getattr(node, fld, None)
            if isinstance(sub, list):
                todo.extend(sub)
        if isinstance(node, ast.Try):
            for h in node.handlers:
                todo.extend(h.body)
    return None


def loops_of(fn):
    """Loops of a function in source order, not descending into nested
    function definitions."""
    out = []

    def walk(stmts):
        for s in stmts:
            if isinstance(s, (ast.FunctionDef, ast.ClassDef)):
                continue
            if isinstance(s, (ast.While, ast.For)):
                out.append(s)
            for fld in ("body", "orelse", "finalbody"):
                sub = getattr(s, fld, None)
                if isinstance(sub, list):
                    walk(sub)
            if isinstance(s, ast.Try):
                for h in s.handlers:
                    walk(h.body)
            if isinstance(s, (ast.With,)):
                pass
    walk(fn.body)
    return out


def assigned_names(stmts):
    """Names (re)bound by the statements (not in nested defs)."""
    names = set()

    class Vis(ast.NodeVisitor):
        def visit_FunctionDef(self, n):
            names.add(n.name)

        def visit_ClassDef(self, n):
            names.add(n.name)

        def visit_Lambda(self, n):
            pass

        def visit_Name(self, n):
            if isinstance(n.ctx, (ast.Store, ast.Del)):
                names.add(n.id)

        def visit_ExceptHandler(self, n):
            if n.name:
                names.add(n.name)
            self.generic_visit(n)

        def visit_Import(self, n):
            for a in n.names:
                names.add(a.asname or a.name.split(".")[0])

        def visit_ImportFrom(self, n):
            for a in n.names:
                names.add(a.asname or a.name)

    v = Vis()
    for s in stmts:
        v.visit(s)
    return names
