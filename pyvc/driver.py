"""Per-property check driver: runs the contracts serving a property,
aggregates obligations, replays counter-models, applies the known-findings
file, writes evidence and prints the verdict lines.

Exit codes: 0 held (or only known findings) / 1 violation / 2 undecided /
3 engine error (never mapped to a violation)."""
import hashlib
import json
import multiprocessing as mp
import os
import subprocess
import sys
import time
import traceback

VERIF = os.path.dirname(os.path.dirname(os.path.abspath(__file__)))
# experiments on scratch copies of the repository (tools/seedmatrix.sh) write their evidence and replays elsewhere
OUT = os.environ.get("VERIF_OUT") or VERIF
VENV_PY = "/venv/bin/python"


def _load():
    if VERIF not in sys.path:
        sys.path.insert(0, VERIF)
    import specs
    return specs.load_all()


def _work(args):
    """Verify one function (runs in a pool worker)."""
    key, repo_root = args
    t0 = time.time()
    from pyvc import Engine, EngineError
    from pyvc.source import Repo
    from pyvc import solve
    schema = _load()
    out = {"key": key, "results": [], "error": None}
    try:
        eng = Engine(schema, Repo(repo_root))
        res = eng.verify(key)
        mi, fnode = eng.repo.func(key)
        out["file"] = os.path.relpath(mi.path, repo_root)
        out["line"] = fnode.lineno
        out["digest"] = mi.digest(fnode)
        out["paths"] = eng.paths
        out["abstractions"] = sorted(eng.abstractions)
        out["trusted"] = sorted(eng.trusted_used)
        out["inlined"] = sorted(eng.inlined)
        out["applied"] = sorted(eng.applied)
        out["stats"] = dict(solve.STATS)
        for r in res:
            out["results"].append({
                "name": r.name, "props": r.prop if isinstance(r.prop, list) else ([r.prop] if r.prop else []),
                "status": r.status, "backend": r.backend, "secs": r.secs, "path": r.path,
                "kind": r.kind, "site": r.site, "raw": (r.raw or "")[:1500],
                "model": getattr(r, "model_txt", "")[:4000],
                "replay": getattr(r, "replay_inputs", None),
            })
    except EngineError as e:
        out["error"] = f"{e}"
    except Exception as e:      # engine bug: never a violation
        out["error"] = f"internal: {e!r}\n{traceback.format_exc()[-1500:]}"
    out["wall"] = time.time() - t0
    return out


def run_property(pid, tier="quick", repo_root=None, jobs=None):
    t0 = time.time()
    repo_root = repo_root or os.environ.get("VERIF_REPO", "/repo")
    seed = int(os.environ.get("VERIF_SEED", "0") or 0)
    schema = _load()
    from specs import properties as P
    info = P.PROPS[pid]
    keys = [k for k, c in schema.contracts.items() if not c.trusted and pid in c.props and not getattr(c, "trusted_summary", False)]
    keys = sorted(set(keys) | set(info.get("functions", [])))
    assumed_own = sorted(k for k, c in schema.contracts.items() if not c.trusted and pid in c.props and getattr(c, "trusted_summary", False))
    findings = load_findings()
    lines = []
    errors = []
    own = set(keys)
    outs = []
    done = set()
    assumed_loky = set(assumed_own)
    todo = list(keys)
    with mp.get_context("fork").Pool(jobs or 16) as pool:
        while todo:
            batch = pool.map(_work, [(k, repo_root) for k in todo], chunksize=1)
            done |= set(todo)
            outs += batch
            nxt = set()
            for o in batch:
                for k in o.get("applied", []):
                    cc = schema.contracts.get(k)
                    if cc is None or k in done:
                        continue
                    if getattr(cc, "trusted_summary", False):
                        assumed_loky.add(k)
                        continue
                    nxt.add(k)
            todo = sorted(nxt)
    # ---- structural obligations and lemmas (run in-process, cheap)
    extra = []
    for fn in info.get("extra", []):
        try:
            extra += fn(repo_root, tier, seed)
        except Exception as e:
            errors.append(f"{getattr(fn, '__name__', fn)}: {e!r}\n{traceback.format_exc()[-800:]}")
    # ---- aggregate
    obligations = {}
    guards = []
    funcs = []
    by_backend = {}
    solver_time = 0.0
    max_vc = 0.0
    trusted = set()
    abstractions = set()
    inlined = set()
    assumptions = set(info.get("assumptions", []))
    n_paths = 0
    for o in outs:
        if o["error"]:
            errors.append(f"{o['key']}: {o['error']}")
            continue
        c = schema.contracts[o["key"]]
        funcs.append({"function": o["key"], "file": o["file"], "line": o["line"],
                      "source_digest": o["digest"], "paths": o["paths"], "vcs": len(o["results"]),
                      "wall_s": round(o["wall"], 3)})
        n_paths += o["paths"]
        trusted |= set(o["trusted"])
        abstractions |= set(o["abstractions"])
        inlined |= set(o["inlined"])
        assumptions |= set(c.assumes_)
        for r in o["results"]:
            props = r["props"] or c.props
            if o["key"] in own and pid not in props:
                continue
            if r["kind"] == "guard":
                guards.append(r)
                continue
            ob = obligations.setdefault(r["name"], {"name": r["name"], "paths": 0, "unsat": 0, "sat": [], "unknown": [],
                                                    "secs": 0.0, "kind": r["kind"], "function": o["key"]})
            ob["paths"] += 1
            ob["secs"] += r["secs"]
            solver_time += r["secs"]
            max_vc = max(max_vc, r["secs"])
            by_backend[r["backend"]] = by_backend.get(r["backend"], 0) + 1
            if r["status"] == "unsat":
                ob["unsat"] += 1
            elif r["status"] == "sat":
                ob["sat"].append(r)
            elif r["status"] == "sat-abstract":
                ob.setdefault("candidates", []).append(r)
            else:
                ob["unknown"].append(r)
    # candidates refuted only after abstraction: a violation iff the native replay reproduces
    for ob in obligations.values():
        enum = [r for r in ob["unknown"] if r.get("replay")]
        if enum:
            ob["unknown"] = [r for r in ob["unknown"] if not r.get("replay")]
            ob.setdefault("candidates", []).extend(enum[:1])      # one native search per obligation is enough
            for r in enum[1:]:
                r["replay"] = None
                ob["unknown"].append(r)
        for r in ob.get("candidates", []):
            rp = r.get("replay")
            res = run_harness(rp["harness"], rp["inputs"], repo_root) if rp else {"reproduced": False}
            r["replay_result"] = res
            if res.get("reproduced"):
                ob["sat"].append(r)
            else:
                ob["unknown"].append(r)
    for e in extra:
        ob = obligations.setdefault(e["name"], {"name": e["name"], "paths": 0, "unsat": 0, "sat": [], "unknown": [],
                                                "secs": 0.0, "kind": e.get("kind", "lemma"), "function": e.get("function", "")})
        ob["paths"] += 1
        ob["secs"] += e.get("secs", 0.0)
        solver_time += e.get("secs", 0.0)
        by_backend[e.get("backend", "z3-inproc")] = by_backend.get(e.get("backend", "z3-inproc"), 0) + 1
        if e["status"] == "unsat":
            ob["unsat"] += 1
        elif e["status"] == "sat":
            ob["sat"].append(e)
        elif e["status"] == "bounded":
            ob["bounded"] = e
            ob["paths"] -= 1
        else:
            ob["unknown"].append(e)
    # ---- verdicts
    violations = []
    known = []
    undecided = []
    discharged = 0
    bounded = []
    for name, ob in sorted(obligations.items()):
        if "bounded" in ob and ob["paths"] == 0:
            bounded.append(ob["bounded"])
            continue
        if ob["sat"]:
            kf = match_finding(findings, pid, name, ob)
            if kf is not None:
                known.append((kf, ob))
            else:
                violations.append(ob)
        elif ob["unknown"]:
            undecided.append(ob)
        else:
            discharged += 1
    guard_fail = [g for g in guards if g["status"] != "unsat"]
    known_names = {ob["name"] for _kf, ob in known}
    n_obl = len([o for o in obligations.values() if not ("bounded" in o and o["paths"] == 0) and o["name"] not in known_names])
    replay_dir = os.path.join(OUT, "replays", pid)
    status = 0
    for kf, ob in known:
        path = write_replay(replay_dir, pid, ob, repo_root)
        lines.append(f"KNOWN-FINDING: property={pid} {kf['what']} [obligation {ob['name']}; replay {path}]")
    for ob in violations:
        path = write_replay(replay_dir, pid, ob, repo_root)
        tail = "" if ob.get("reproduced") else " no-failing-input-found"
        lines.append(f"VIOLATION property={pid} replay={path}{tail}")
        status = 1
    if status == 0 and (errors or guard_fail or n_obl == 0):
        for e in errors:
            lines.append(f"ENGINE-ERROR property={pid} {e}")
        for g in guard_fail:
            lines.append(f"ENGINE-ERROR property={pid} vacuity guard failed: {g['name']} ({g['path']})")
        if n_obl == 0:
            lines.append(f"ENGINE-ERROR property={pid} zero obligations generated")
        status = 3
    elif status == 0 and undecided:
        for ob in undecided:
            lines.append(f"UNDECIDED property={pid} obligation={ob['name']} ({ob['unknown'][0].get('raw', '')[:120]})")
        status = 2
    if status == 0:
        lines.append(f"HELD property={pid} obligations={n_obl} discharged={discharged} known_findings={len(known)} "
                     f"functions={len(funcs)} paths={n_paths} solver_s={solver_time:.2f}")
    thorough = None
    if tier == "thorough" and status == 0 and OUT == VERIF:
        thorough = thorough_extras(pid, repo_root, seed, info)
        for c_ in thorough["canaries"]:
            if not c_["detected"]:
                lines.insert(0, f"ENGINE-ERROR property={pid} the seeded change {c_['seed']} is no longer detected by this check (exit {c_['check_exit']})")
                status = 3
        for x_ in thorough["native_cross_checks"]:
            if x_["disagreements"]:
                lines.insert(0, f"ENGINE-ERROR property={pid} native cross-check {x_['harness']}: the real function and the contract's oracle disagree on "
                                f"{x_['disagreements']} of {x_['cases']} cases (first: {json.dumps(x_['first_disagreement'])[:300]})")
                status = 3
    wall = time.time() - t0
    # ---- evidence
    ext_cites = {k: schema.contracts[k].cite for k in sorted(trusted) if k in schema.contracts}
    samples = []
    for name, ob in list(sorted(obligations.items()))[:: max(1, len(obligations) // 8)][:8]:
        samples.append({"obligation": name, "paths": ob["paths"], "discharged_paths": ob["unsat"],
                        "kind": ob["kind"], "solver_s": round(ob["secs"], 4)})
    ev = {
        "property_id": pid,
        "tier": tier,
        "seed": seed,
        "level": "proof",
        "coverage": {
            "obligations": n_obl,
            "discharged": discharged,
            "checker_cmd": f"./check {pid} --tier {tier}",
            "trusted_base": sorted(
                ["T-engine: pyvc VC generator (symbolic execution of the real AST) and spec evaluator",
                 "T-solvers: z3 5.1.0 in-process; cvc5 1.0.3 / z3 4.8.12 for unknowns"] +
                [f"trusted external {k}: {v}" for k, v in ext_cites.items()]),
            "functions_under_contract": funcs,
            "support_functions_verified_in_this_run": sorted(set(f["function"] for f in funcs) - own),
            "assumed_contracts_on_loky_functions_not_verified": sorted(assumed_loky),
            "obligations_by_backend": by_backend,
            "solver_time_s": round(solver_time, 3),
            "max_vc_s": round(max_vc, 3),
            "paths": n_paths,
            "obligation_list": [{"name": n, "paths": o["paths"], "status": "violated" if o["sat"] else ("undecided" if o["unknown"] else "discharged")}
                                for n, o in sorted(obligations.items()) if not ("bounded" in o and o["paths"] == 0)],
            "vacuity_guards": {"total": len(guards), "failed": [g["name"] for g in guard_fail]},
            "inlined_uncontracted_functions": sorted(inlined),
            "abstractions": sorted(abstractions | set(info.get("abstractions", []))),
            "not_covered": info.get("not_covered", ""),
            "bounded": bounded,
            "known_findings": [kf["id"] for kf, _ in known],
            "known_finding_obligations_not_counted_as_discharged": sorted(known_names),
            "samples": samples,
            "what_is_proved": info.get("proved", ""),
            "engine_errors": errors,
            "thorough_extras": thorough if thorough is not None else "quick tier: not run",
        },
        "assumptions": sorted(f"{a}: {schema.assumption_tags.get(a, P.ASSUMPTIONS.get(a, ''))}" for a in assumptions),
        "wall_s": round(wall, 3),
        "violations": len(violations),
    }
    os.makedirs(os.path.join(OUT, "evidence"), exist_ok=True)
    with open(os.path.join(OUT, "evidence", f"{pid}.json"), "w") as fh:
        json.dump(ev, fh, indent=1, sort_keys=True)
    for l in lines:
        print(l)
    return status


# ----------------------------------------------------------------------
# thorough tier: (a) canaries - every archived seeded change of this property, applied to a scratch copy of the repository, must still make this
# check report a violation (a check that lost its teeth is an engine error, never a violation); (b) bounded native cross-checks of the contract's
# oracle against the real function on pseudo-random inputs (labelled bounded; they add no proved obligation).
def thorough_extras(pid, repo_root, seed, info):
    import glob
    import random
    import shutil
    import tempfile
    out = {"canaries": [], "native_cross_checks": [], "label": "bounded / meta checks, none of them counted as a proved obligation"}
    for d in sorted(glob.glob(os.path.join(VERIF, "seeded", f"{pid}-*"))):
        patch = os.path.join(d, "patch.diff")
        if not os.path.exists(patch):
            continue
        try:
            if json.load(open(os.path.join(d, "meta.json"))).get("canary") is False:
                continue        # archived for the record only (e.g. a change that restructures a loop: the check exits 3 on it)
        except Exception:
            pass
        work = tempfile.mkdtemp(prefix="pyvc-canary-")
        try:
            shutil.copytree(repo_root, os.path.join(work, "repo"), ignore=shutil.ignore_patterns(".git"))
            os.makedirs(os.path.join(work, "out"))
            with open(patch) as fh:
                pr = subprocess.run(["patch", "-p1", "-s", "--no-backup-if-mismatch"], stdin=fh, cwd=os.path.join(work, "repo"),
                                    capture_output=True, text=True)
            if pr.returncode != 0:
                out["canaries"].append({"seed": os.path.basename(d), "applies": False, "detected": True, "check_exit": None,
                                        "note": "the patch no longer applies to the current tree (the code it changes has changed)"})
                continue
            env = {**os.environ, "VERIF_REPO": os.path.join(work, "repo"), "VERIF_OUT": os.path.join(work, "out"), "VERIF_TIER": "quick"}
            with open(os.path.join(work, "log"), "w") as lf:
                cp = subprocess.run([sys.executable, "-m", "pyvc.driver", pid, "--tier", "quick"], cwd=VERIF, env=env, stdout=lf, stderr=lf,
                                    stdin=subprocess.DEVNULL)
            obl = []
            for f in glob.glob(os.path.join(work, "out", "replays", pid, "*.json")):
                try:
                    obl.append(json.load(open(f))["obligation"])
                except Exception:
                    pass
            out["canaries"].append({"seed": os.path.basename(d), "applies": True, "detected": cp.returncode == 1, "check_exit": cp.returncode,
                                    "violated_obligations": sorted(obl)})
        finally:
            shutil.rmtree(work, ignore_errors=True)
    rng = random.Random(seed)
    for harness, gen, n in info.get("native_cross_checks", []):
        cases = [gen(rng) for _ in range(n)]
        bad = []
        distinct = len({json.dumps(c_, sort_keys=True) for c_ in cases})
        res = run_harness("batch", {"harness": harness, "cases": cases}, repo_root)
        for c_, r_ in zip(cases, res.get("results", [])):
            if r_.get("reproduced") or r_.get("error"):
                bad.append({"input": c_, "result": r_})
        out["native_cross_checks"].append({"harness": harness, "cases": len(cases), "distinct_cases": distinct, "answered": len(res.get("results", [])),
                                           "disagreements": len(bad) + (len(cases) - len(res.get("results", []))),
                                           "first_disagreement": bad[0] if bad else (res.get("error") if len(res.get("results", [])) != len(cases) else None),
                                           "sample": cases[:2]})
    return out


# ----------------------------------------------------------------------
def load_findings():
    p = os.path.join(VERIF, "KNOWN_FINDINGS.json")
    if not os.path.exists(p):
        return []
    with open(p) as fh:
        return json.load(fh).get("findings", [])


def match_finding(findings, pid, name, ob):
    """A listed finding suppresses a violation only if the property, the
    obligation name and (when given) every failing path's site match."""
    for f in findings:
        # one defect may surface in the checks of several properties (the function is an own or a support function of each): `also_properties`
        if f.get("status") != "known" or (f.get("property") != pid and pid not in f.get("also_properties", [])):
            continue
        if f.get("obligation") != name:
            continue
        must = f.get("path_contains")
        if must:
            ok = all(any(m in n for n in r.get("path", [])) for r in ob["sat"] for m in must)
            if not ok:
                continue
        return f
    return None


def write_replay(replay_dir, pid, ob, repo_root):
    os.makedirs(replay_dir, exist_ok=True)
    h = hashlib.sha256(ob["name"].encode()).hexdigest()[:12]
    path = os.path.join(replay_dir, f"{h}.json")
    first = ob["sat"][0]
    doc = {
        "property": pid,
        "obligation": ob["name"],
        "function": ob.get("function"),
        "failing_paths": [{"path": r.get("path"), "site": r.get("site"), "solver": r.get("backend"),
                           "model": r.get("model", ""), "replay_inputs": r.get("replay")} for r in ob["sat"][:5]],
        "repo": repo_root,
        "rerun": f"./check replay {os.path.relpath(path, VERIF)}",
    }
    reproduced = False
    for r in ob["sat"][:5]:
        rp = r.get("replay")
        if not rp:
            continue
        res = run_harness(rp["harness"], rp["inputs"], repo_root)
        r["replay_result"] = res
        doc.setdefault("replays", []).append({"inputs": rp["inputs"], "result": res})
        if res.get("reproduced"):
            reproduced = True
            break
    doc["reproduced_on_real_code"] = reproduced
    if not reproduced:
        doc["note"] = ("no-failing-input-found: the obligation is refuted by the solver (model attached) but no native "
                       "execution reproducing it was constructed")
    ob["reproduced"] = reproduced
    with open(path, "w") as fh:
        json.dump(doc, fh, indent=1, default=str)
    return os.path.relpath(path, VERIF)


def run_harness(name, inputs, repo_root):
    """Run a replay harness natively on the real code (under /venv)."""
    cmd = [VENV_PY, os.path.join(VERIF, "replay", "harness.py"), name, json.dumps(inputs), repo_root]
    # output goes through files, never pipes: a harness that starts loky workers may leave orphans that keep a pipe open
    import tempfile
    try:
        with tempfile.TemporaryDirectory(prefix="pyvc-replay-") as td:
            so, se = os.path.join(td, "out"), os.path.join(td, "err")
            with open(so, "w") as fo, open(se, "w") as fe:
                proc = subprocess.Popen(cmd, stdout=fo, stderr=fe, stdin=subprocess.DEVNULL,
                                        env={**os.environ, "PYTHONPATH": repo_root}, start_new_session=True)
                try:
                    proc.wait(timeout=180)
                except subprocess.TimeoutExpired:
                    pass
                finally:
                    # the harness and whatever workers it left behind share one session: remove them all
                    import signal
                    try:
                        os.killpg(proc.pid, signal.SIGKILL)
                    except OSError:
                        pass
                    proc.wait()
            out = open(so, errors="replace").read()
            err = open(se, errors="replace").read()
        last = [l for l in out.splitlines() if l.startswith("{")]
        if last:
            return json.loads(last[-1])
        return {"reproduced": False, "error": (err or out)[-800:] or "harness produced no result (timeout)"}
    except Exception as e:
        return {"reproduced": False, "error": repr(e)}


def replay_file(path):
    with open(os.path.join(VERIF, path) if not os.path.isabs(path) else path) as fh:
        doc = json.load(fh)
    print(f"obligation: {doc['obligation']}  property: {doc['property']}")
    any_rep = False
    for fp in doc.get("failing_paths", []):
        rp = fp.get("replay_inputs")
        if not rp:
            continue
        res = run_harness(rp["harness"], rp["inputs"], os.environ.get("VERIF_REPO", "/repo"))
        print(json.dumps({"inputs": rp["inputs"], "result": res}, indent=1))
        any_rep = any_rep or res.get("reproduced")
    if not any_rep:
        print("no native reproduction (see 'model' in the replay file for the solver's counterexample)")
    return 1 if any_rep else 0


def main(argv=None):
    argv = list(sys.argv[1:] if argv is None else argv)
    if not argv:
        print("usage: check <property id> [--tier quick|thorough] | check replay <file>")
        return 3
    if argv[0] == "replay":
        return replay_file(argv[1])
    pid = argv[0]
    tier = os.environ.get("VERIF_TIER", "quick")
    if "--tier" in argv:
        tier = argv[argv.index("--tier") + 1]
    try:
        return run_property(pid, tier)
    except Exception as e:
        print(f"ENGINE-ERROR property={pid} driver crashed: {e!r}")
        traceback.print_exc()
        return 3


if __name__ == "__main__":
    sys.exit(main())
