"""Discharge of verification conditions: z3 in-process, then external
solvers on the SMT-LIB dump for `unknown`s."""
import os
import subprocess
import tempfile
import time
import z3

from . import types as ty

Z3_TIMEOUT_MS = int(os.environ.get("PYVC_Z3_TIMEOUT_MS", "10000"))
FEAS_TIMEOUT_MS = int(os.environ.get("PYVC_FEAS_TIMEOUT_MS", "2000"))
EXT_TIMEOUT_S = int(os.environ.get("PYVC_EXT_TIMEOUT_S", "10"))

STATS = {"feas_calls": 0, "feas_time": 0.0, "prove_calls": 0,
         "prove_time": 0.0, "backend": {}}


def feasible(assertions):
    """True unless the conjunction is definitely unsat."""
    s = z3.Solver()
    s.set("timeout", FEAS_TIMEOUT_MS)
    t0 = time.time()
    s.add(z3.And(assertions) if len(assertions) > 1 else assertions)
    r = s.check()
    STATS["feas_calls"] += 1
    STATS["feas_time"] += time.time() - t0
    return r != z3.unsat


def _index_terms(exprs, sort, cap=60):
    """Ground terms of `sort` that occur as index of a select/store (or as
    argument of an uninterpreted function) in exprs."""
    seen = set()
    out = []
    todo = list(exprs)
    visited = set()
    while todo:
        e = todo.pop()
        if e.get_id() in visited:
            continue
        visited.add(e.get_id())
        if z3.is_quantifier(e):
            continue
        if z3.is_app(e):
            k = e.decl().kind()
            ch = e.children()
            if k in (z3.Z3_OP_SELECT, z3.Z3_OP_STORE) and len(ch) >= 2:
                idx = ch[1]
                if idx.sort() == sort and idx.get_id() not in seen:
                    seen.add(idx.get_id())
                    out.append(idx)
            elif k == z3.Z3_OP_UNINTERPRETED and ch:
                for c in ch:
                    if c.sort() == sort and c.get_id() not in seen:
                        seen.add(c.get_id())
                        out.append(c)
            elif k == z3.Z3_OP_EQ:
                for c in ch:
                    if c.sort() == sort and z3.is_const(c) and \
                            c.decl().kind() == z3.Z3_OP_UNINTERPRETED and \
                            c.get_id() not in seen:
                        seen.add(c.get_id())
                        out.append(c)
            todo.extend(ch)
    return out[:cap]


def instantiate(qhyps, base, rounds=2):
    """Ground instances of the quantified hypotheses at the index terms of
    the formulas in `base` (and of the instances, for `rounds` rounds)."""
    insts = []
    seen = set()
    pool = list(base)
    for _ in range(rounds):
        new = []
        for q in qhyps:
            for t in _index_terms(pool + insts, q.sort):
                key = (id(q), t.get_id())
                if key in seen:
                    continue
                seen.add(key)
                try:
                    f = q.body(t)
                except z3.Z3Exception:
                    continue
                if f is not None and not z3.is_true(f):
                    new.append(f)
        if not new:
            break
        insts += new
    return insts


class Verdict:
    def __init__(self, status, backend, secs, model=None, raw=""):
        self.status = status      # 'unsat' | 'sat' | 'unknown'
        self.backend = backend
        self.secs = secs
        self.model = model
        self.raw = raw


def check(assertions, want_model=True):
    """Decide satisfiability of the conjunction."""
    t0 = time.time()
    s = z3.Solver()
    s.set("timeout", Z3_TIMEOUT_MS)
    s.add(z3.And(assertions) if len(assertions) > 1 else assertions)
    r = s.check()
    secs = time.time() - t0
    STATS["prove_calls"] += 1
    STATS["prove_time"] += secs
    if r == z3.unsat:
        _count("z3-inproc")
        return Verdict("unsat", "z3-inproc", secs)
    if r == z3.sat:
        _count("z3-inproc")
        m = s.model() if want_model else None
        return Verdict("sat", "z3-inproc", secs, m, str(m) if m is not None else "")
    reason = s.reason_unknown()
    smt2 = s.to_smt2()
    for name, cmd in (("cvc5", ["/usr/bin/cvc5", "--strings-exp", f"--tlimit={EXT_TIMEOUT_S*1000}"]),
                      ("z3-new", ["z3-new", f"-T:{EXT_TIMEOUT_S}"]),
                      ("z3-4.8", ["/usr/bin/z3", f"-T:{EXT_TIMEOUT_S}"])):
        res, raw = _external(cmd, smt2)
        if res in ("unsat", "sat"):
            _count(name)
            return Verdict(res, name, time.time() - t0, None, raw)
    return Verdict("unknown", "none", time.time() - t0, None, reason)


def _count(name):
    STATS["backend"][name] = STATS["backend"].get(name, 0) + 1


def _external(cmd, smt2):
    try:
        with tempfile.NamedTemporaryFile("w", suffix=".smt2", delete=False) as fh:
            fh.write(smt2)
            path = fh.name
        try:
            p = subprocess.run(cmd + [path], capture_output=True, text=True,
                               timeout=EXT_TIMEOUT_S + 5)
            out = p.stdout.strip().splitlines()
            first = out[0].strip() if out else ""
            return first, p.stdout[-2000:]
        finally:
            os.unlink(path)
    except Exception as e:      # solver missing / timeout: undecided
        return "unknown", repr(e)
