"""Discharge of verification conditions: z3 in-process, then external
solvers on the SMT-LIB dump for `unknown`s."""
import os
import subprocess
import tempfile
import time
import z3

from . import types as ty

Z3_TIMEOUT_MS = int(os.environ.get("PYVC_Z3_TIMEOUT_MS", "10000"))
FEAS_TIMEOUT_MS = int(os.environ.get("PYVC_FEAS_TIMEOUT_MS", "2000"))
EXT_TIMEOUT_S = int(os.environ.get("PYVC_EXT_TIMEOUT_S", "10"))

STATS = {"feas_calls": 0, "feas_time": 0.0, "prove_calls": 0,
         "prove_time": 0.0, "backend": {}}


def feasible(assertions):
    """True unless the conjunction is definitely unsat.  Compound string / sequence terms are abstracted first (z3 5.1's
    sequence solver was observed to answer `unsat` and then `unknown` on the same satisfiable query): a path is pruned only
    when the abstracted condition, which is weaker, is already unsatisfiable."""
    t0 = time.time()
    try:
        ab = abstract_opaque(list(assertions))
    except z3.Z3Exception:
        ab = None
    if ab is not None:
        assertions = ab[0]
    s = z3.Solver()
    s.set("timeout", FEAS_TIMEOUT_MS)
    s.add(z3.And(assertions) if len(assertions) > 1 else assertions)
    r = s.check()
    STATS["feas_calls"] += 1
    STATS["feas_time"] += time.time() - t0
    return r != z3.unsat


def entails(pc, goal):
    """pc |= goal (definitely)."""
    s = z3.Solver()
    s.set("timeout", FEAS_TIMEOUT_MS)
    s.add(z3.And(pc) if len(pc) > 1 else pc)
    s.add(z3.Not(goal))
    return s.check() == z3.unsat


_TERM_CACHE = {}
import re as _re
_FAM_STRIP = _re.compile(r"^(H0!|hv_|hvG_|hG_|h_|G0!|hdom|hval|hlen)")


def _family(arr):
    """Name family of the array a select/store goes into (heap component or
    ghost), independent of its version."""
    cur = arr
    for _ in range(64):
        if not z3.is_app(cur):
            return None
        k = cur.decl().kind()
        if k in (z3.Z3_OP_SELECT, z3.Z3_OP_STORE):
            cur = cur.arg(0)
            continue
        if k == z3.Z3_OP_UNINTERPRETED and cur.num_args() == 0:
            nm = cur.decl().name()
            nm = nm.rsplit("!", 1)[0] if nm.rsplit("!", 1)[-1].isdigit() else nm
            nm = nm.rstrip("@")
            nm = _FAM_STRIP.sub("", nm)
            nm = nm.rsplit("!", 1)[0] if nm.rsplit("!", 1)[-1].isdigit() else nm
            return nm
        return None
    return None


def _terms_of(e0):
    """Index-position ground terms of one formula: {sort id: [(family, term)]}
    (cached per formula: path conditions share most of their conjuncts)."""
    hit = _TERM_CACHE.get(e0.get_id())
    if hit is not None and hit[0].eq(e0):
        return hit[1]
    by_sort = {}
    seen = set()
    todo = [e0]
    visited = set()

    def add(t, fam):
        key = (t.get_id(), fam)
        if key in seen:
            return
        seen.add(key)
        by_sort.setdefault(t.sort().get_id(), []).append((fam, t))
    while todo:
        e = todo.pop()
        if e.get_id() in visited:
            continue
        visited.add(e.get_id())
        if z3.is_quantifier(e):
            continue
        if z3.is_app(e):
            k = e.decl().kind()
            ch = e.children()
            if k in (z3.Z3_OP_SELECT, z3.Z3_OP_STORE) and len(ch) >= 2:
                add(ch[1], _family(ch[0]))
            elif k == z3.Z3_OP_UNINTERPRETED and ch:
                for c in ch:
                    add(c, "fn:" + e.decl().name())
            elif k in (z3.Z3_OP_SEQ_NTH, z3.Z3_OP_SEQ_AT) and len(ch) == 2:
                add(ch[1], "seq:nth")
            todo.extend(ch)
    if len(_TERM_CACHE) > 200000:
        _TERM_CACHE.clear()
    _TERM_CACHE[e0.get_id()] = (e0, by_sort)
    return by_sort


def _index_terms(exprs, sort, cap=150, families=None):
    """Ground terms of `sort` that occur as index of a select/store (or as
    argument of an uninterpreted function) in exprs; when `families` is
    given, only indices into arrays of those families (the triggers)."""
    sid = sort.get_id()
    seen = set()
    out = []
    for e in exprs:
        for fam, t in _terms_of(e).get(sid, ()):
            if families is not None and fam is not None and fam not in families:
                continue
            if t.get_id() not in seen:
                seen.add(t.get_id())
                out.append(t)
                if len(out) >= cap:
                    return out
    return out


def _triggers(q):
    """Families of the arrays the bound variable indexes in the body."""
    tr = q.__dict__.get("_triggers", 0)
    if tr != 0:
        return tr
    probe = z3.Const("qprobe!" + str(id(q)), q.sort)
    fams = set()
    try:
        body = q.body(probe)
        todo = [body] if body is not None else []
        visited = set()
        ok = True
        while todo:
            e = todo.pop()
            if e.get_id() in visited:
                continue
            visited.add(e.get_id())
            if z3.is_app(e):
                k = e.decl().kind()
                ch = e.children()
                if k in (z3.Z3_OP_SELECT, z3.Z3_OP_STORE) and len(ch) >= 2 and ch[1].eq(probe):
                    f = _family(ch[0])
                    if f is None:
                        ok = False
                    else:
                        fams.add(f)
                elif k == z3.Z3_OP_UNINTERPRETED and any(c.eq(probe) for c in ch):
                    fams.add("fn:" + e.decl().name())
                elif k in (z3.Z3_OP_SEQ_NTH, z3.Z3_OP_SEQ_AT) and len(ch) == 2 and ch[1].eq(probe):
                    fams.add("seq:nth")
                todo.extend(ch)
        tr = fams if (ok and fams) else None
    except Exception:
        tr = None
    q.__dict__["_triggers"] = tr
    return tr


def instantiate(qhyps, base, rounds=3):
    """Ground instances of the quantified hypotheses at the index terms of
    the formulas in `base` (and of the instances, for `rounds` rounds).
    A hypothesis  forall k. phi(k)  is instantiated where k would index the
    same arrays as in phi (trigger-based matching)."""
    insts = []
    seen = set()
    pool = list(base)
    for _ in range(rounds):
        new = []
        for q in qhyps:
            for t in _index_terms(insts[::-1] + pool, q.sort, families=_triggers(q)):
                key = (id(q), t.get_id())
                if key in seen:
                    continue
                seen.add(key)
                cache = q.__dict__.setdefault("_cache", {})
                hit = cache.get(t.get_id())
                if hit is not None and hit[0].eq(t):
                    f = hit[1]
                else:
                    try:
                        f = q.body(t)
                    except z3.Z3Exception:
                        f = None
                    cache[t.get_id()] = (t, f)
                if f is None:
                    continue
                if f is not None and not z3.is_true(f):
                    new.append(f)
        if not new:
            break
        insts += new
    return insts


class Verdict:
    def __init__(self, status, backend, secs, model=None, raw="", subst=None):
        self.status = status      # 'unsat' | 'sat' | 'unknown' | 'sat-abstract'
        self.backend = backend
        self.secs = secs
        self.model = model
        self.raw = raw
        self.subst = subst        # term -> constant pairs of the abstraction the model belongs to


_STR_ABS_OK = {z3.Z3_OP_ITE, z3.Z3_OP_SELECT}


def _is_strlike(sort):
    k = sort.kind()
    return k == z3.Z3_SEQ_SORT


def abstract_opaque(assertions):
    """Pass-1 abstraction (DESIGN 2.8): every maximal compound term of a
    string / sequence sort (split, join, strip, slices, nth, concatenations)
    is replaced by a fresh constant, the same term always by the same
    constant.  This only forgets facts, so `unsat` of the result is final."""
    table = {}
    pairs = []
    visited = set()
    todo = list(assertions)
    while todo:
        e = todo.pop()
        if e.get_id() in visited:
            continue
        visited.add(e.get_id())
        if z3.is_quantifier(e) or not z3.is_app(e):
            continue
        if e.num_args() > 0 and _is_strlike(e.sort()) and e.decl().kind() not in _STR_ABS_OK:
            if e.get_id() not in table:
                cst = z3.Const(f"abs!{len(table)}!{e.get_id()}", e.sort())
                table[e.get_id()] = cst
                pairs.append((e, cst))
            continue
        todo.extend(e.children())
    if not pairs:
        return None
    return [z3.substitute(a, *pairs) for a in assertions], pairs


def check(assertions, want_model=True):
    """Decide satisfiability of the conjunction (two passes when string
    terms are present: abstracted first, precise only if that is sat)."""
    t0 = time.time()
    try:
        abstracted = abstract_opaque(assertions)
    except z3.Z3Exception:
        abstracted = None
    abs_model = None
    abs_pairs = None
    if abstracted is not None:
        abstracted, abs_pairs = abstracted
        s0 = z3.Solver()
        s0.set("timeout", Z3_TIMEOUT_MS)
        s0.add(z3.And(abstracted) if len(abstracted) > 1 else abstracted)
        r0 = s0.check()
        if r0 == z3.sat and want_model:
            abs_model = s0.model()
        if r0 == z3.unsat:
            secs = time.time() - t0
            STATS["prove_calls"] += 1
            STATS["prove_time"] += secs
            _count("z3-inproc-abstracted")
            return Verdict("unsat", "z3-inproc-abstracted", secs)
    s = z3.Solver()
    s.set("timeout", Z3_TIMEOUT_MS)
    s.add(z3.And(assertions) if len(assertions) > 1 else assertions)
    r = s.check()
    secs = time.time() - t0
    STATS["prove_calls"] += 1
    STATS["prove_time"] += secs
    if r == z3.unsat:
        if abs_pairs is not None:
            # proved only with the sequence theory: accept it only if an independent solver process agrees
            res2, raw2 = _external(["/usr/bin/z3", f"-T:{EXT_TIMEOUT_S}"], s.to_smt2())
            if res2 != "unsat":
                res3, raw3 = _external(["z3-new", f"-T:{EXT_TIMEOUT_S}"], s.to_smt2())
                if res3 != "unsat":
                    _count("seq-unconfirmed")
                    if abs_model is not None:
                        return Verdict("sat-abstract", "z3-inproc-abstracted", time.time() - t0, abs_model,
                                       "in-process z3 says unsat with the sequence theory, the independent runs do not confirm it", abs_pairs)
                    return Verdict("unknown", "none", time.time() - t0, None, "sequence-theory proof not confirmed by an independent solver run")
            _count("z3-inproc+z3-cli(seq)")
            return Verdict("unsat", "z3-inproc+z3-cli(seq)", time.time() - t0)
        _count("z3-inproc")
        return Verdict("unsat", "z3-inproc", secs)
    if r == z3.sat:
        _count("z3-inproc")
        m = s.model() if want_model else None
        return Verdict("sat", "z3-inproc", secs, m, str(m) if m is not None else "")
    reason = s.reason_unknown()
    smt2 = s.to_smt2()
    if os.environ.get("PYVC_DUMP"):
        with open(os.path.join(os.environ["PYVC_DUMP"], f"unknown-{int(time.time()*1000)%100000000}.smt2"), "w") as fh_:
            fh_.write(smt2)
    for name, cmd in (("cvc5", ["/usr/bin/cvc5", "--strings-exp", f"--tlimit={EXT_TIMEOUT_S*1000}"]),
                      ("z3-new", ["z3-new", f"-T:{EXT_TIMEOUT_S}"]),
                      ("z3-4.8", ["/usr/bin/z3", f"-T:{EXT_TIMEOUT_S}"])):
        res, raw = _external(cmd, smt2)
        if res == "unsat":
            _count(name)
            return Verdict(res, name, time.time() - t0, None, raw)
        # an external `sat` carries no model to replay and the printed problem may differ in corner cases (partial functions): undecided, never a violation
    if abs_model is not None:
        # refuted after abstraction, undecided precisely: a candidate that must survive the native replay
        return Verdict("sat-abstract", "z3-inproc-abstracted", time.time() - t0, abs_model, reason, abs_pairs)
    return Verdict("unknown", "none", time.time() - t0, None, reason)


def _count(name):
    STATS["backend"][name] = STATS["backend"].get(name, 0) + 1


def _external(cmd, smt2):
    try:
        with tempfile.NamedTemporaryFile("w", suffix=".smt2", delete=False) as fh:
            fh.write(smt2)
            path = fh.name
        try:
            p = subprocess.run(cmd + [path], capture_output=True, text=True,
                               timeout=EXT_TIMEOUT_S + 5)
            out = p.stdout.strip().splitlines()
            first = out[0].strip() if out else ""
            return first, p.stdout[-2000:]
        finally:
            os.unlink(path)
    except Exception as e:      # solver missing / timeout: undecided
        return "unknown", repr(e)
