"""Expression evaluation (exec mode: path-splitting; spec mode: pure)."""
import ast
import z3

from . import types as ty
from .values import (V, VInt, VBool, VReal, VStr, VNone, VRef, VObj, VOpt,
                     VTuple, VLoc, VSeq, VAbs, VFn, VClass, VModule, VConst,
                     NONE, EngineError, flatten, unflatten, fresh_const,
                     fresh_name, fresh_value, to_obj_term, const_id,
                     is_nullable)
from .engine import (_truthy, _obj_eq, _attr, _app, _callable, _str2int,
                     _str_ok_int, _hasattr, _isinst, _bitor, _bitand)

BUILTIN_NAMES = {
    "len", "min", "max", "int", "str", "bool", "isinstance", "callable",
    "hasattr", "getattr", "setattr", "sorted", "tuple", "list", "dict", "set",
    "sum", "range", "zip", "map", "next", "type", "repr", "print", "all",
    "any", "super", "open", "bytes", "iter", "enumerate", "id", "float",
    "abs", "reversed", "issubclass", "object", "staticmethod", "classmethod",
    "frozenset", "vars", "format",
}

PLATFORM_CONSTS = {
    "sys.platform": VStr("linux"),
    "os.name": VStr("posix"),
    "sys.version_info": VTuple([VInt(3), VInt(12), VInt(1)]),
}


class ExprMixin:
    # ------------------------------------------------------------------
    # names
    def lookup(self, name, st):
        """-> list of results for reading a name."""
        if self.spec and self.ctl is not None and name in self.spec_names():
            return self.spec_name(name, st)
        f = st.frame
        if name not in f.globals_decl:
            fr = f
            while fr is not None:
                if name in fr.vars:
                    v = fr.vars[name]
                    if v is None:
                        st.emit("unbound_local", [VStr(name)])
                        return [self.raise_new(st, "UnboundLocalError")]
                    return [self.val(st, v)]
                if name in getattr(fr, "local_names", ()):
                    if fr is f:
                        st.notes.append(f"unbound local {name}")
                        st.emit("unbound_local", [VStr(name)])
                        return [self.raise_new(st, "UnboundLocalError")]
                fr = st.frames.get(fr.parent) if fr.parent else None
        return self.lookup_global(f.module, name, st)

    def check_guarded_global(self, module, name, st, what):
        """A module global declared with a guard is only read / written while the guarding lock is held (code under verification only)."""
        d = self.schema.globs.get((module, name))
        if d is None or not d.guard or self.spec or getattr(self, "cur_key", None) is None or not self.cur_key.startswith(module + ":"):
            return
        lockv = [v for s_, v in self.glob_value(st, module, d.guard)][0]
        g = z3.Or([h == lockv.t for h in st.held] or [z3.BoolVal(False)])
        self.prove(st, g, f"{self.cur_key}:guarded-global/{name}/{what}-only-under-{d.guard}", prop=self.prop_of(None), kind="lock-discipline")

    def lookup_global(self, module, name, st):
        key = (module, name)
        if key in self.schema.globs:
            self.check_guarded_global(module, name, st, "read")
            return [self.val(s, v) for s, v in self.glob_value(st, module, name)]
        mi = self.repo.module(module)
        if name in mi.classes:
            return [self.val(st, self.class_value(mi, mi.classes[name]))]
        if name in mi.funcs and "." not in name:
            return [self.val(st, VFn("func", name=f"{module}:{name}", module=module))]
        if name in mi.imports:
            return self.resolve_import(mi.imports[name], st)
        if name in mi.consts:
            node = mi.consts[name]
            if self._is_literal(node):
                return self.ev(node, st)
            raise EngineError(
                f"module global {module}.{name} is not a literal and has no "
                f"schema declaration")
        if name in BUILTIN_NAMES:
            return [self.val(st, VFn("builtin", name=name))]
        if name in self.schema.exc_ids:
            return [self.val(st, VClass(name, exc_id=self.schema.exc_ids[name]))]
        if name == "__name__":
            return [self.val(st, VStr(module))]
        raise EngineError(f"unresolved name {name!r} in {module}")

    def _is_literal(self, node):
        if isinstance(node, ast.Constant):
            return True
        if isinstance(node, ast.UnaryOp) and isinstance(node.operand, ast.Constant):
            return True
        if isinstance(node, (ast.Tuple, ast.List)):
            return all(self._is_literal(e) for e in node.elts)
        return False

    def glob_value(self, st, module, name):
        key = (module, name)
        if key in st.globs:
            v = st.globs[key]
            if not self.spec and isinstance(v, VOpt):
                res = self.split_value(st, v, self.schema.globs[key].T)
                for s, vv in res:
                    s.globs[key] = vv
                return res
            return [(st, v)]
        decl = self.schema.globs[key]
        if decl.factory is not None:
            v = decl.factory(self, st)
            st.globs[key] = v
            return [(st, v)]
        if decl.const is not None:
            v = decl.const
            st.globs[key] = v
            return [(st, v)]
        out = []
        if isinstance(decl.T, ty.Union):
            # keep the union symbolic through a tag so that the *initial*
            # value is the same object in all evaluations of old()/now
            tag = z3.Const(f"glob0!{module}.{name}!tag", ty.IntS)
            alts = list(decl.T.alts)
            st.assume(z3.And(tag >= 0, tag < len(alts)))
            if self.spec:
                raise EngineError(f"union global {name} read first in spec mode")
            for i, alt in enumerate(alts):
                if not self.feasible(st, tag == i):
                    continue
                s = st.clone()
                s.assume(tag == i)
                v = self._init_glob_val(s, module, name, alt, i)
                s.globs[key] = v
                if decl.inv:
                    s.assume(self.spec_eval(decl.inv, s, {name: v}))
                s.notes.append(f"{name}:{alt!r}")
                out.append((s, v))
            return out
        v = self._init_glob_val(st, module, name, decl.T, 0)
        st.globs[key] = v
        if decl.inv:
            cond = self.spec_eval(decl.inv, st, {name: v})
            st.assume(cond)
        if self.spec:
            return [(st, v)]
        res = self.split_value(st, v, decl.T)
        for s, vv in res:
            s.globs[key] = vv
        return res

    def _init_glob_val(self, st, module, name, T, i):
        if isinstance(T, ty._NoneT):
            return NONE
        if isinstance(T, V):
            return T
        terms = tuple(z3.Const(f"glob0!{module}.{name}!{i}!{j}", s)
                      for j, s in enumerate(T.comps))
        v = unflatten(T, terms)
        st._typing(v, T)
        return v

    def glob_initial(self, module, name):
        """Initial (entry) value of a module global, for old()."""
        raise NotImplementedError

    def class_value(self, mi, node):
        key = (mi.name, node.name)
        if key in self.schema.src_class:
            return VClass(self.schema.src_class[key], module=mi.name, node=node)
        # exception classes are derived from the source's own base classes
        if node.name in self.schema.exc_ids and self.schema.exc_parent.get(node.name) is not None \
                and getattr(self, "_exc_src", {}).get(node.name) == mi.name:
            return VClass(node.name, exc_id=self.schema.exc_ids[node.name],
                          module=mi.name, node=node)
        for b in node.bases:
            try:
                st0 = self._scratch_state(mi.name)
                rs = self.ev(b, st0)
            except EngineError:
                continue
            for r in rs:
                if r[0] == "val" and isinstance(r[2], VClass) and r[2].exc_id is not None:
                    self.schema.exc(node.name, r[2].name)
                    if not hasattr(self, "_exc_src"):
                        self._exc_src = {}
                    self._exc_src[node.name] = mi.name
                    return VClass(node.name, exc_id=self.schema.exc_ids[node.name],
                                  module=mi.name, node=node)
        return VClass(node.name, module=mi.name, node=node)

    def _scratch_state(self, module):
        from .state import State
        st = State(self.schema)
        st.push_frame(module, "<scratch>")
        return st

    def resolve_import(self, imp, st):
        if imp[0] == "loky":
            _, module, name = imp
            if name is None:
                return [self.val(st, VModule(module))]
            full = f"{module}.{name}"
            if self.repo.has_module(full):
                return [self.val(st, VModule(full))]
            return self.lookup_global(module, name, st)
        dotted = imp[1]
        return [self.val(st, self.ext_symbol(dotted, st))]

    def ext_symbol(self, dotted, st):
        dotted = self.schema.aliases.get(dotted, dotted)
        if dotted in PLATFORM_CONSTS:
            return PLATFORM_CONSTS[dotted]
        sc = self.schema
        if dotted in sc.contracts:
            return VFn("ext", name=dotted)
        if dotted in sc.classes:
            return VClass(dotted)
        if dotted in sc.exc_ids:
            return VClass(dotted, exc_id=sc.exc_ids[dotted])
        short = dotted.rsplit(".", 1)[-1]
        if dotted.startswith("builtins."):
            return VFn("builtin", name=short)
        if ("<ext>", dotted) in sc.globs:
            key = ("<ext>", dotted)
            vals = self.glob_value(st, "<ext>", dotted)
            return vals[0][1]
        if dotted in getattr(sc, "ext_consts", {}):
            return sc.ext_consts[dotted]
        if dotted in getattr(sc, "ext_modules", set()) or "." not in dotted:
            return VModule(dotted)
        # an unknown external symbol is only an error when it is *used*
        return VConst(dotted)

    # ------------------------------------------------------------------
    def ev(self, node, st):
        m = getattr(self, "ev_" + node.__class__.__name__, None)
        if m is None:
            raise EngineError(f"unsupported expression {node.__class__.__name__} "
                              f"at line {getattr(node, 'lineno', '?')}")
        return m(node, st)

    def ev_list(self, nodes, st):
        """Evaluate expressions left to right -> [(kind, st, [values]|exc)]"""
        acc = [("val", st, [])]
        for n in nodes:
            nxt = []
            for kind, s, vs in acc:
                if kind == "exc":
                    nxt.append((kind, s, vs))
                    continue
                for r in self.ev(n, s):
                    if r[0] == "exc":
                        nxt.append(r)
                    else:
                        nxt.append(("val", r[1], vs + [r[2]]))
            acc = nxt
        return acc

    def ev_Constant(self, node, st):
        c = node.value
        if c is None:
            v = NONE
        elif isinstance(c, bool):
            v = VBool(c)
        elif isinstance(c, int):
            v = VInt(c)
        elif isinstance(c, float):
            v = VReal(c)
        elif isinstance(c, str):
            v = VStr(c)
        elif isinstance(c, bytes):
            v = VStr(c.decode("latin-1"), is_bytes=True)
        elif c is Ellipsis:
            v = VConst("Ellipsis")
        else:
            raise EngineError(f"constant {c!r}")
        return [self.val(st, v)]

    def ev_Name(self, node, st):
        return self.lookup(node.id, st)

    def ev_Attribute(self, node, st):
        out = []
        for r in self.ev(node.value, st):
            if r[0] == "exc":
                out.append(r)
                continue
            out += self.get_attr(r[2], node.attr, r[1], node)
        return out

    def ev_Tuple(self, node, st):
        out = []
        if any(isinstance(e, ast.Starred) for e in node.elts):
            return self._ev_display_starred(node, st, tuple_=True)
        for kind, s, vs in self.ev_list(node.elts, st):
            out.append((kind, s, VTuple(vs) if kind == "val" else vs))
        return out

    def ev_List(self, node, st):
        if not node.elts and not self.spec:
            HL = getattr(self.cur_contract, "heap_lists", None)
            if HL is not None:
                l = st.new_obj(HL.cls, HL)
                st.lst_set(l, z3.Empty(z3.SeqSort(HL.elem.comps[0])))
                return [self.val(st, l)]
        if any(isinstance(e, ast.Starred) for e in node.elts):
            return self._ev_display_starred(node, st, tuple_=False)
        out = []
        for kind, s, vs in self.ev_list(node.elts, st):
            out.append((kind, s, s.new_loc("list", vs) if kind == "val" else vs))
        return out

    def _ev_display_starred(self, node, st, tuple_):
        elts = [e.value if isinstance(e, ast.Starred) else e for e in node.elts]
        out = []
        for kind, s, vs in self.ev_list(elts, st):
            if kind == "exc":
                out.append((kind, s, vs))
                continue
            items = []
            opaque = False
            for e, v in zip(node.elts, vs):
                if isinstance(e, ast.Starred):
                    if isinstance(v, (VTuple, VLoc)):
                        items += self.concrete_items(v, s)
                    else:
                        opaque = True
                        items.append(v)
                else:
                    items.append(v)
            if opaque:
                # a display splicing an opaque iterable: an opaque sequence determined by its parts
                self.abstractions.add("a list/tuple display splicing an opaque iterable is an opaque object")
                out.append(("val", s, VObj(to_obj_term(VTuple([VConst("*display")] + items)))))
            else:
                out.append(("val", s, VTuple(items) if tuple_ else s.new_loc("list", items)))
        return out

    def ev_Set(self, node, st):
        out = []
        for kind, s, vs in self.ev_list(node.elts, st):
            out.append((kind, s, s.new_loc("set", vs) if kind == "val" else vs))
        return out

    def ev_Dict(self, node, st):
        # {**a, **b} and constant-key displays
        if not node.keys:
            HT = getattr(self.cur_contract, "heap_dict_T", None) if not self.spec else None
            if HT is not None:
                return [self.val(st, st.new_map(HT))]
        out = []
        keys = node.keys
        vals = node.values
        for kind, s, vs in self.ev_list(vals, st):
            if kind == "exc":
                out.append((kind, s, vs))
                continue
            if any(k is None for k in keys):
                out += self._dict_merge(keys, vs, s)
                continue
            data = {}
            ok = True
            for k, v in zip(keys, vs):
                if isinstance(k, ast.Constant):
                    data[k.value] = v
                else:
                    ok = False
            if not ok:
                raise EngineError("dict display with non-constant keys")
            out.append(("val", s, s.new_loc("dict", data)))
        return out

    def _dict_merge(self, keys, vs, st):
        """{**a, **b, 'k': v}: a right-biased overlay of maps."""
        srcs = []
        for k, v in zip(keys, vs):
            if k is None:
                srcs.append(("map", v))
            elif isinstance(k, ast.Constant):
                srcs.append(("kv", k.value, v))
            else:
                raise EngineError("dict display with computed keys")
        # result is a fresh heap map when any source is a heap map
        heap_src = [s for s in srcs if s[0] == "map" and isinstance(s[1], VRef)]
        if not heap_src:
            data = {}
            for s_ in srcs:
                if s_[0] == "map":
                    if isinstance(s_[1], VLoc):
                        data.update(st.loc(s_[1]).data)
                    else:
                        raise EngineError(f"** of {s_[1]!r}")
                else:
                    data[s_[1]] = s_[2]
            return [("val", st, st.new_loc("dict", data))]
        T = heap_src[0][1].T
        ks = T.key.comps[0]
        res = st.new_obj(T.cls, T)
        dom = z3.K(ks, z3.BoolVal(False))
        vals = [None] * len(T.val.comps)
        first = True
        for s_ in srcs:
            if s_[0] != "map":
                raise EngineError("mixed dict merge")
            m = s_[1]
            if isinstance(m, VLoc):
                d = st.loc(m).data
                for k, v in d.items():
                    kt = flatten(self._pyconst(k), T.key)[0]
                    dom = z3.Store(dom, kt, z3.BoolVal(True))
                    ft = flatten(v, T.val)
                    vals = [z3.Store(a, kt, t) if a is not None else None for a, t in zip(vals, ft)]
                continue
            mdom = st.map_dom(m)
            _, mvals, _ = st.map_arrays(T)
            mv = [z3.Select(a, m.t) for a in mvals]
            if first:
                dom, vals = mdom, mv
                first = False
            else:
                # overlay: key k -> (k in m ? m[k] : acc[k]) as lambda arrays
                k = z3.Const(fresh_name("mk"), ks)
                dom = z3.Lambda([k], z3.Or(z3.Select(dom, k), z3.Select(mdom, k)))
                vals = [z3.Lambda([k], z3.If(z3.Select(mdom, k), z3.Select(b, k), z3.Select(a, k)))
                        for a, b in zip(vals, mv)]
        d0, v0, l0 = st.map_arrays(T)
        st.heap[(T.cls, "dom")] = (z3.Store(d0, res.t, dom),)
        st.heap[(T.cls, "val")] = tuple(z3.Store(a, res.t, b) for a, b in zip(v0, vals))
        st.heap[(T.cls, "len")] = (z3.Store(l0, res.t, fresh_const("mlen", ty.IntS)),)
        return [("val", st, res)]

    def _pyconst(self, c):
        if isinstance(c, bool):
            return VBool(c)
        if isinstance(c, int):
            return VInt(c)
        if isinstance(c, str):
            return VStr(c)
        if c is None:
            return NONE
        raise EngineError(f"constant {c!r}")

    def ev_JoinedStr(self, node, st):
        parts = [v.value for v in node.values if isinstance(v, ast.FormattedValue)]
        out = []
        for kind, s, vs in self.ev_list(parts, st):
            if kind == "exc":
                out.append((kind, s, vs))
                continue
            if not parts:
                text = "".join(v.value for v in node.values)
                out.append(("val", s, VStr(text)))
                continue
            # formatted text: exact when every part is a string / constant
            pieces = []
            exact = True
            it = iter(vs)
            for v in node.values:
                if isinstance(v, ast.Constant):
                    pieces.append(z3.StringVal(v.value))
                else:
                    pv = next(it)
                    if isinstance(pv, VStr) and v.conversion == -1 and v.format_spec is None:
                        pieces.append(pv.t)
                    elif isinstance(pv, VInt) and v.conversion == -1 and v.format_spec is None:
                        pieces.append(self._one(self.bi_str([pv], {}, s, node)).t)
                    else:
                        # the text of this part is opaque, the literal parts around it are kept
                        pieces.append(fresh_const("fmtpart", ty.StrS))
                        self.abstractions.add("formatted non-string parts of an f-string are opaque strings (literal parts are kept)")
            t = z3.Concat(*pieces) if len(pieces) > 1 else pieces[0]
            out.append(("val", s, VStr(t)))
        return out

    def ev_Lambda(self, node, st):
        return [self.val(st, VFn("closure", name="<lambda>", node=node,
                                 frame=st.cur, module=st.frame.module))]

    def ev_IfExp(self, node, st):
        out = []
        for r in self.ev(node.test, st):
            if r[0] == "exc":
                out.append(r)
                continue
            cond = self.truth(r[2], r[1])
            if self.spec:
                a = self._one(self.ev(node.body, r[1]))
                b = self._one(self.ev(node.orelse, r[1]))
                out.append(self.val(r[1], self.merge(cond, a, b)))
                continue
            for b, s in self.branch(r[1], cond):
                out += self.ev(node.body if b else node.orelse, s)
        return out

    def _one(self, rs):
        if len(rs) != 1 or rs[0][0] != "val":
            raise EngineError("spec expression is not a single pure value")
        return rs[0][2]

    def ev_BoolOp(self, node, st):
        is_and = isinstance(node.op, ast.And)
        if self.spec:
            vals = []
            for vn in node.values:
                v = self._one(self.ev(vn, st))
                vals.append(v)
                # lazy on constants: later operands may be ill-kinded
                tv = z3.simplify(self.truth(v, st))
                if (is_and and z3.is_false(tv)) or (not is_and and z3.is_true(tv)):
                    break
            if all(isinstance(v, VBool) for v in vals):
                ts = [v.t for v in vals]
                return [self.val(st, VBool(z3.And(ts) if is_and else z3.Or(ts)))]
            acc = vals[-1]
            for v in reversed(vals[:-1]):
                c = self.truth(v, st)
                acc = self.merge(c, acc, v) if is_and else self.merge(c, v, acc)
            return [self.val(st, acc)]

        def go(i, s):
            res = []
            for r in self.ev(node.values[i], s):
                if r[0] == "exc" or i == len(node.values) - 1:
                    res.append(r)
                    continue
                cond = self.truth(r[2], r[1])
                for b, s2 in self.branch(r[1], cond):
                    if b == is_and:
                        res += go(i + 1, s2)
                    else:
                        res.append(self.val(s2, r[2]))
            return res
        return go(0, st)

    def ev_UnaryOp(self, node, st):
        out = []
        for r in self.ev(node.operand, st):
            if r[0] == "exc":
                out.append(r)
                continue
            v, s = r[2], r[1]
            if isinstance(node.op, ast.Not):
                out.append(self.val(s, VBool(z3.Not(self.truth(v, s)))))
            elif isinstance(node.op, ast.USub):
                if isinstance(v, VReal):
                    out.append(self.val(s, VReal(-v.t)))
                else:
                    out.append(self.val(s, VInt(-self._int(v))))
            elif isinstance(node.op, ast.UAdd):
                out.append(self.val(s, v))
            else:
                raise EngineError("unary op")
        return out

    def ev_BinOp(self, node, st):
        out = []
        for kind, s, vs in self.ev_list([node.left, node.right], st):
            if kind == "exc":
                out.append((kind, s, vs))
                continue
            out += self.binop(node.op, vs[0], vs[1], s)
        return out

    def binop(self, op, a, b, st):
        num = (VInt, VBool, VReal)
        if isinstance(a, VOpt) or isinstance(b, VOpt):
            raise EngineError("arithmetic on an optional (not split)")
        if isinstance(op, ast.Add):
            if isinstance(a, VStr) and isinstance(b, VStr):
                return [self.val(st, VStr(z3.Concat(a.t, b.t), a.is_bytes))]
            if isinstance(a, VTuple) and isinstance(b, VTuple):
                return [self.val(st, VTuple(a.items + b.items))]
            if isinstance(a, VLoc) and isinstance(b, VLoc):
                return [self.val(st, st.new_loc("list", list(st.loc(a).data) + list(st.loc(b).data)))]
            if isinstance(a, (VLoc, VAbs)) and isinstance(b, (VLoc, VAbs)):
                return [self.val(st, self.abs_union(a, b, st))]
            if isinstance(a, VSeq) and isinstance(b, VSeq):
                return [self.val(st, VSeq(z3.Concat(a.t, b.t), a.elem))]
        if isinstance(a, num) and isinstance(b, num):
            real = isinstance(a, VReal) or isinstance(b, VReal)
            if isinstance(op, ast.Div):
                den = self._real(b)
                res = []
                for z, s in self.branch(st, den == 0) if not self.spec else [(False, st)]:
                    if z:
                        res.append(self.raise_new(s, "ArithmeticError"))
                    else:
                        res.append(self.val(s, VReal(self._real(a) / den)))
                return res
            if real:
                x, y = self._real(a), self._real(b)
                if isinstance(op, ast.Add):
                    return [self.val(st, VReal(x + y))]
                if isinstance(op, ast.Sub):
                    return [self.val(st, VReal(x - y))]
                if isinstance(op, ast.Mult):
                    return [self.val(st, VReal(x * y))]
                raise EngineError("real operator")
            x, y = self._int(a), self._int(b)
            if isinstance(op, ast.Add):
                return [self.val(st, VInt(x + y))]
            if isinstance(op, ast.Sub):
                return [self.val(st, VInt(x - y))]
            if isinstance(op, ast.Mult):
                return [self.val(st, VInt(x * y))]
            if isinstance(op, (ast.FloorDiv, ast.Mod)):
                res = []
                for z, s in self.branch(st, y == 0) if not self.spec else [(False, st)]:
                    if z:
                        res.append(self.raise_new(s, "ArithmeticError"))
                        continue
                    q = z3.If(y > 0, x / y, (-x) / (-y))
                    if isinstance(op, ast.FloorDiv):
                        res.append(self.val(s, VInt(q)))
                    else:
                        res.append(self.val(s, VInt(x - q * y)))
                return res
            if isinstance(op, ast.BitOr):
                if isinstance(a, VBool) and isinstance(b, VBool):
                    return [self.val(st, VBool(z3.Or(a.t, b.t)))]
                return [self.val(st, VInt(_bitor(x, y)))]
            if isinstance(op, ast.BitAnd):
                if isinstance(a, VBool) and isinstance(b, VBool):
                    return [self.val(st, VBool(z3.And(a.t, b.t)))]
                return [self.val(st, VInt(_bitand(x, y)))]
        if isinstance(op, ast.Mod) and isinstance(a, VStr):
            self.abstractions.add("%-formatting is an opaque string term")
            return [self.val(st, VStr(fresh_const("fmt", ty.StrS)))]
        if isinstance(op, ast.Mult) and isinstance(a, VStr) and isinstance(b, VInt):
            return [self.val(st, VStr(fresh_const("strmul", ty.StrS)))]
        if isinstance(op, ast.BitOr) and isinstance(a, (VInt, VBool)) and isinstance(b, VObj):
            return [self.val(st, VObj(_bitor(to_obj_term(a), b.t)))]
        if isinstance(op, ast.BitAnd) and (isinstance(a, VObj) or isinstance(b, VObj)):
            return [self.val(st, VObj(_bitand(to_obj_term(a), to_obj_term(b))))]
        if isinstance(op, ast.BitOr) and (isinstance(a, VObj) or isinstance(b, VObj)):
            return [self.val(st, VObj(_bitor(to_obj_term(a), to_obj_term(b))))]
        if isinstance(a, VObj) or isinstance(b, VObj):
            f = z3.Function(f"obj_binop_{op.__class__.__name__}", ty.IntS, ty.IntS, ty.IntS)
            self.abstractions.add("arithmetic on opaque objects is uninterpreted")
            return [self.val(st, VObj(f(to_obj_term(a), to_obj_term(b))))]
        raise EngineError(f"binary {op.__class__.__name__} on {a!r}, {b!r}")

    def abs_union(self, a, b, st):
        elemT = None
        for x in (a, b):
            if isinstance(x, VAbs):
                elemT = x.elem
        sort = elemT.comps[0]

        def as_mem(x):
            if isinstance(x, VAbs):
                return x.mem, x.length
            mem = z3.K(sort, z3.BoolVal(False))
            for it in st.loc(x).data:
                mem = z3.Store(mem, flatten(it, elemT)[0], z3.BoolVal(True))
            return mem, z3.IntVal(len(st.loc(x).data))
        ma, la = as_mem(a)
        mb, lb = as_mem(b)
        k = z3.Const(fresh_name("uk"), sort)
        return VAbs(z3.Lambda([k], z3.Or(z3.Select(ma, k), z3.Select(mb, k))), la + lb, elemT)

    def ev_Compare(self, node, st):
        # chained comparisons evaluate operands once, left to right, with
        # short-circuit
        def go(i, left, s, acc):
            if i == len(node.ops):
                return [self.val(s, VBool(z3.And(acc) if len(acc) != 1 else acc[0]))]
            res = []
            for r in self.ev(node.comparators[i], s):
                if r[0] == "exc":
                    res.append(r)
                    continue
                c = self.compare(node.ops[i], left, r[2], r[1])
                if i == len(node.ops) - 1 or self.spec:
                    res += go(i + 1, r[2], r[1], acc + [c])
                else:
                    for b, s2 in self.branch(r[1], c):
                        if b:
                            res += go(i + 1, r[2], s2, acc + [c])
                        else:
                            res.append(self.val(s2, VBool(False)))
            return res
        out = []
        for r in self.ev(node.left, st):
            if r[0] == "exc":
                out.append(r)
            else:
                out += go(0, r[2], r[1], [])
        return out

    def compare(self, op, a, b, st):
        if isinstance(op, ast.Eq):
            return self.eq(a, b, st)
        if isinstance(op, ast.NotEq):
            return z3.Not(self.eq(a, b, st))
        if isinstance(op, ast.Is):
            return self.identical(a, b, st)
        if isinstance(op, ast.IsNot):
            return z3.Not(self.identical(a, b, st))
        if isinstance(op, ast.In):
            return self.contains(b, a, st)
        if isinstance(op, ast.NotIn):
            return z3.Not(self.contains(b, a, st))
        if isinstance(a, VOpt) or isinstance(b, VOpt):
            raise EngineError("ordering comparison on optional")
        num = (VInt, VBool, VReal)
        if isinstance(a, num) and isinstance(b, num):
            if isinstance(a, VReal) or isinstance(b, VReal):
                x, y = self._real(a), self._real(b)
            else:
                x, y = self._int(a), self._int(b)
            if isinstance(op, ast.Lt):
                return x < y
            if isinstance(op, ast.LtE):
                return x <= y
            if isinstance(op, ast.Gt):
                return x > y
            if isinstance(op, ast.GtE):
                return x >= y
        if isinstance(a, VTuple) and isinstance(b, VTuple):
            # lexicographic comparison of tuples of ints (sys.version_info)
            def lex(i, strict_ok):
                if i == min(len(a.items), len(b.items)):
                    la, lb = len(a.items), len(b.items)
                    if isinstance(op, ast.Lt):
                        return z3.BoolVal(la < lb)
                    if isinstance(op, ast.LtE):
                        return z3.BoolVal(la <= lb)
                    if isinstance(op, ast.Gt):
                        return z3.BoolVal(la > lb)
                    return z3.BoolVal(la >= lb)
                x, y = self._int(a.items[i]), self._int(b.items[i])
                lt = x < y if isinstance(op, (ast.Lt, ast.LtE)) else x > y
                return z3.Or(lt, z3.And(x == y, lex(i + 1, strict_ok)))
            return lex(0, True)
        raise EngineError(f"comparison {op.__class__.__name__} on {a!r}, {b!r}")

    def contains(self, coll, x, st):
        if isinstance(coll, VTuple):
            return z3.Or([self.eq(x, it, st) for it in coll.items] or [z3.BoolVal(False)])
        if isinstance(coll, VLoc):
            o = st.loc(coll)
            if o.kind in ("list", "set"):
                return z3.Or([self.eq(x, it, st) for it in o.data] or [z3.BoolVal(False)])
            if o.kind == "dict":
                return z3.Or([self.eq(x, self._pyconst(k), st) for k in o.data] or [z3.BoolVal(False)])
        if isinstance(coll, VRef) and isinstance(coll.T, ty.Map):
            return st.map_has(coll, flatten(x, coll.T.key)[0])
        if isinstance(coll, VRef) and isinstance(coll.T, ty.Lst):
            return z3.Contains(st.lst_get(coll), z3.Unit(flatten(x, coll.T.elem)[0]))
        if isinstance(coll, VAbs):
            if isinstance(coll.elem, ty.Tup):
                # an items() view is a set of keys (the value is a function of the key)
                kx = x.items[0] if isinstance(x, VTuple) else x
                return z3.Select(coll.mem, flatten(kx, coll.elem.items[0])[0])
            return z3.Select(coll.mem, flatten(x, coll.elem)[0])
        if isinstance(coll, VStr) and isinstance(x, VStr):
            return z3.Contains(coll.t, x.t)
        if isinstance(coll, VSeq):
            return z3.Contains(coll.t, z3.Unit(flatten(x, coll.elem)[0]))
        if isinstance(coll, VObj):
            f = z3.Function("obj_contains", ty.IntS, ty.IntS, ty.BoolS)
            return f(coll.t, to_obj_term(x))
        if isinstance(coll, VRef):
            d = self.schema.classes.get(coll.cls)
            hook = getattr(d, "contains", None)
            if hook is not None:
                return hook(self, coll, x, st)
            f = z3.Function("obj_contains", ty.IntS, ty.IntS, ty.BoolS)
            return f(coll.t, to_obj_term(x))
        raise EngineError(f"`in` on {coll!r}")

    # ------------------------------------------------------------------
    def ev_Subscript(self, node, st):
        out = []
        if isinstance(node.slice, ast.Slice):
            parts = [node.value] + [p for p in (node.slice.lower, node.slice.upper, node.slice.step) if p is not None]
            for kind, s, vs in self.ev_list(parts, st):
                if kind == "exc":
                    out.append((kind, s, vs))
                    continue
                it = iter(vs[1:])
                lo = next(it) if node.slice.lower is not None else None
                hi = next(it) if node.slice.upper is not None else None
                step = next(it) if node.slice.step is not None else None
                out += self.get_slice(vs[0], lo, hi, step, s)
            return out
        for kind, s, vs in self.ev_list([node.value, node.slice], st):
            if kind == "exc":
                out.append((kind, s, vs))
                continue
            out += self.get_item(vs[0], vs[1], s)
        return out

    def _const_int(self, v):
        if isinstance(v, VInt):
            t = z3.simplify(v.t)
            if z3.is_int_value(t):
                return t.as_long()
        return None

    def get_item(self, c, k, st):
        if isinstance(c, (VTuple, VLoc)) and not (isinstance(c, VLoc) and st.loc(c).kind == "dict"):
            items = c.items if isinstance(c, VTuple) else st.loc(c).data
            i = self._const_int(k)
            if i is None:
                raise EngineError("symbolic index into a concrete sequence")
            if -len(items) <= i < len(items):
                return [self.val(st, items[i])]
            return [self.raise_new(st, "IndexError")]
        if isinstance(c, VLoc):
            d = st.loc(c).data
            if isinstance(k, VStr):
                ks = z3.simplify(k.t)
                if z3.is_string_value(ks):
                    key = ks.as_string()
                    if key in d:
                        return [self.val(st, d[key])]
                    return [self.raise_new(st, "KeyError")]
            ki = self._const_int(k)
            if ki is not None:
                if ki in d:
                    return [self.val(st, d[ki])]
                return [self.raise_new(st, "KeyError")]
            # symbolic key: one outcome per constant key (exact)
            keys = list(d)
            if self.spec:
                acc = None
                for kk in reversed(keys):
                    acc = d[kk] if acc is None else self.merge(self.eq(k, self._pyconst(kk), st), d[kk], acc)
                if acc is None:
                    raise EngineError("lookup in an empty concrete dict")
                return [self.val(st, acc)]
            out = []
            cur = st
            for kk in keys:
                if cur is None:
                    break
                arms = self.branch(cur, self.eq(k, self._pyconst(kk), cur))
                cur = None
                for b, s2 in arms:
                    if b:
                        s2.notes.append(f"key=={kk!r}")
                        out.append(self.val(s2, s2.loc(c).data[kk]))
                    else:
                        cur = s2
            if cur is not None:
                out.append(self.raise_new(cur, "KeyError"))
            return out
        if isinstance(c, VRef) and isinstance(c.T, ty.Map):
            kt = flatten(k, c.T.key)[0]
            has = st.map_has(c, kt)
            if self.spec:
                return [self.val(st, st.map_get(c, kt))]
            out = []
            for b, s in self.branch(st, has):
                if b:
                    v = s.map_get(c, kt)
                    s._typing(v, c.T.val)
                    for s2, v2 in self.split_value(s, v, c.T.val):
                        out.append(self.val(s2, self._retag(v2, c.T.val)))
                else:
                    out.append(self.raise_new(s, "KeyError"))
            return out
        if isinstance(c, VSeq):
            i = self._int(k)
            n = z3.Length(c.t)
            idx = z3.If(i < 0, n + i, i)
            if self.spec:
                return [self.val(st, unflatten(c.elem, (c.t[idx],)))]
            out = []
            for b, s in self.branch(st, z3.And(idx >= 0, idx < n)):
                if b:
                    out.append(self.val(s, unflatten(c.elem, (c.t[idx],))))
                else:
                    out.append(self.raise_new(s, "IndexError"))
            return out
        if isinstance(c, VRef) and isinstance(c.T, ty.Lst):
            return self.get_item(VSeq(st.lst_get(c), c.T.elem), k, st)
        if isinstance(c, VStr):
            i = self._int(k)
            return [self.val(st, VStr(z3.SubString(c.t, i, 1)))]
        if isinstance(c, VObj):
            f = z3.Function("obj_getitem", ty.IntS, ty.IntS, ty.IntS)
            return [self.val(st, VObj(f(c.t, to_obj_term(k))))]
        if isinstance(c, VConst):
            f = z3.Function("obj_getitem", ty.IntS, ty.IntS, ty.IntS)
            return [self.val(st, VObj(f(to_obj_term(c), to_obj_term(k))))]
        if isinstance(c, VModule):
            raise EngineError(f"subscript of {c!r}")
        if isinstance(c, VRef):
            return self.call_method(c, "__getitem__", [k], {}, st, None)
        raise EngineError(f"subscript of {c!r}")

    def _retag(self, v, T):
        return v

    def get_slice(self, c, lo, hi, step, st):
        if isinstance(c, (VTuple, VLoc)):
            items = c.items if isinstance(c, VTuple) else st.loc(c).data
            l = self._const_int(lo) if lo is not None else None
            h = self._const_int(hi) if hi is not None else None
            sp = self._const_int(step) if step is not None else None
            if (lo is not None and l is None) or (hi is not None and h is None) or (step is not None and sp is None):
                raise EngineError("symbolic slice of concrete sequence")
            res = list(items)[slice(l, h, sp)]
            return [self.val(st, VTuple(res) if isinstance(c, VTuple) else st.new_loc("list", res))]
        if isinstance(c, VSeq):
            n = z3.Length(c.t)
            if step is not None:
                sp = self._const_int(step)
                if sp == -1 and lo is None and hi is None:
                    f = z3.Function(f"seq_rev_{c.t.sort().name()}", c.t.sort(), c.t.sort())
                    return [self.val(st, VSeq(f(c.t), c.elem))]
                raise EngineError("stepped slice of symbolic sequence")

            def norm(v, default):
                if v is None:
                    return default
                i = self._int(v)
                i = z3.If(i < 0, n + i, i)
                return z3.If(i < 0, z3.IntVal(0), z3.If(i > n, n, i))
            l = norm(lo, z3.IntVal(0))
            h = norm(hi, n)
            ln = z3.If(h > l, h - l, z3.IntVal(0))
            return [self.val(st, VSeq(z3.SubSeq(c.t, l, ln), c.elem))]
        if isinstance(c, VRef) and isinstance(c.T, ty.Lst):
            return self.get_slice(VSeq(st.lst_get(c), c.T.elem), lo, hi, step, st)
        if isinstance(c, VAbs) and lo is None and hi is None and step is not None and self._const_int(step) == -1:
            return [self.val(st, VAbs(c.mem, c.length, c.elem, src=("rev", c)))]
        if isinstance(c, VObj):
            f = z3.Function("obj_getslice", ty.IntS, ty.IntS, ty.IntS, ty.IntS)
            return [self.val(st, VObj(f(c.t, to_obj_term(lo) if lo is not None else z3.IntVal(0),
                                        to_obj_term(hi) if hi is not None else z3.IntVal(0))))]
        raise EngineError(f"slice of {c!r}")

    # ------------------------------------------------------------------
    def concrete_items(self, v, st):
        if isinstance(v, VTuple):
            return list(v.items)
        if isinstance(v, VLoc):
            o = st.loc(v)
            if o.kind in ("list", "set"):
                return list(o.data)
            if o.kind == "dict":
                return [self._pyconst(k) for k in o.data]
        raise EngineError(f"need a concrete sequence, got {v!r}")

    def ev_Starred(self, node, st):
        raise EngineError("starred expression outside call/display")

    def ev_ListComp(self, node, st):
        return self._comp(node, st, "list")

    def ev_SetComp(self, node, st):
        return self._comp(node, st, "set")

    def ev_GeneratorExp(self, node, st):
        return self._comp(node, st, "list")

    def ev_DictComp(self, node, st):
        return self._comp(node, st, "dict")

    def _comp(self, node, st, kind):
        if len(node.generators) != 1:
            raise EngineError("nested comprehension")
        gen = node.generators[0]
        out = []
        for r in self.ev(gen.iter, st):
            if r[0] == "exc":
                out.append(r)
                continue
            out += self._comp_over(node, gen, r[2], r[1], kind)
        return out

    def _comp_over(self, node, gen, it, st, kind):
        # concrete iterable: unroll (exact)
        if isinstance(it, (VTuple, VLoc)) and not (isinstance(it, VLoc) and st.loc(it).kind == "dict" and False):
            items = self.concrete_items(it, st)
            saved = dict(st.frame.vars)
            acc = [("val", st, [])]
            for item in items:
                nxt = []
                for k_, s, vs in acc:
                    if k_ == "exc":
                        nxt.append((k_, s, vs))
                        continue
                    for o in self.assign_target(gen.target, item, s):
                        if o[0] == "exc":
                            nxt.append(o)
                            continue
                        s1 = o[1]
                        conds = [("val", s1, True)]
                        for cnd in gen.ifs:
                            c2 = []
                            for ck, cs, keep in conds:
                                if ck == "exc" or not keep:
                                    c2.append((ck, cs, keep))
                                    continue
                                for rr in self.ev(cnd, cs):
                                    if rr[0] == "exc":
                                        c2.append(rr)
                                        continue
                                    for b, s3 in self.branch(rr[1], self.truth(rr[2], rr[1])):
                                        c2.append(("val", s3, b))
                            conds = c2
                        for ck, cs, keep in conds:
                            if ck == "exc":
                                nxt.append((ck, cs, keep))
                            elif not keep:
                                nxt.append(("val", cs, vs))
                            else:
                                if kind == "dict":
                                    for kk, ks, kv in self.ev_list([node.key, node.value], cs):
                                        nxt.append((kk, ks, vs + [tuple(kv)] if kk == "val" else kv))
                                else:
                                    for rr in self.ev(node.elt, cs):
                                        nxt.append((rr[0], rr[1], vs + [rr[2]] if rr[0] == "val" else rr[2]))
                acc = nxt
            res = []
            for k_, s, vs in acc:
                if k_ == "exc":
                    res.append((k_, s, vs))
                    continue
                for n_ in list(s.frame.vars):
                    if n_ not in saved and n_ in assigned_names_expr(gen.target):
                        del s.frame.vars[n_]
                if kind == "dict":
                    data = {}
                    for kv in vs:
                        kc = self._key_const(kv[0])
                        data[kc] = kv[1]
                    res.append(("val", s, s.new_loc("dict", data)))
                else:
                    res.append(("val", s, s.new_loc(kind, vs)))
            return res
        if isinstance(it, VSeq) and kind == "list" and not gen.ifs:
            return self.comp_seq_map(node, gen, it, st)
        return self.comp_symbolic(node, gen, it, st, kind)

    def comp_seq_map(self, node, gen, it, st):
        """[e(x) for x in <sequence>]: the order-preserving image seq.map(lambda x: e(x), s). The element expression is evaluated once on a
        symbolic item; if it can raise (a call of a user callable), so can the comprehension."""
        x = z3.Const(fresh_name("mx"), it.elem.comps[0])
        s2 = st.clone()
        outs = []
        for o in self.assign_target(gen.target, unflatten(it.elem, (x,)), s2):
            if o[0] == "exc":
                raise EngineError("comprehension target raised")
        was_hooks = getattr(self, "user_call_hooks", [])
        rs = self.ev(node.elt, s2)
        vals = [r for r in rs if r[0] == "val"]
        excs = [r for r in rs if r[0] == "exc"]
        if len(vals) != 1:
            raise EngineError("comprehension element with several normal outcomes")
        t = to_obj_term(vals[0][2])
        lam = z3.Lambda([x], t)
        if excs and not self.spec:
            s_exc = st.clone()
            e = fresh_value(ty.Exc(), "uexc")
            s_exc.assume(z3.And(e.t > 0, e.t >= s_exc.alloc))
            nxt = fresh_const("alloc", ty.IntS)
            s_exc.assume(nxt == e.t + 1)
            s_exc.alloc = nxt
            c_, _ = s_exc.read_field(e, "cls")
            s_exc.assume(self.schema.exc_valid(c_.t))
            s_exc.notes.append("comprehension element raises")
            outs.append(("exc", s_exc, e))
        self.abstractions.add("a list comprehension over a sequence is seq.map of its element expression (order preserving)")
        outs.append(("val", st, VSeq(z3.SeqMap(lam, it.t), ty.Obj)))
        return outs

    def _key_const(self, v):
        if isinstance(v, VStr):
            t = z3.simplify(v.t)
            if z3.is_string_value(t):
                return t.as_string()
        i = self._const_int(v)
        if i is not None:
            return i
        raise EngineError("dict comprehension with symbolic keys")

    def comp_symbolic(self, node, gen, it, st, kind):
        """[f(x) for x in <abstract collection> if c(x)]: the result is an
        abstract collection described by quantified membership facts; the
        element expression must be pure (field reads)."""
        if isinstance(it, VConst):
            it = VObj(to_obj_term(it))
        if isinstance(it, VObj):
            # opaque iterable: the result is an opaque object determined by the source (element expression evaluated
            # once on an opaque item to make sure it is pure)
            s2 = st.clone()
            was = self.spec
            self.spec = True
            try:
                for o in self.assign_target(gen.target, VObj(fresh_const("item", ty.IntS)), s2):
                    if o[0] == "exc":
                        raise EngineError("comprehension target raised")
                if kind == "dict":
                    self._one(self.ev(node.key, s2))
                    self._one(self.ev(node.value, s2))
                else:
                    self._one(self.ev(node.elt, s2))
            finally:
                self.spec = was
            f = z3.Function(f"comp_over!{node.lineno}_{node.col_offset}", ty.IntS, ty.IntS)
            self.abstractions.add("a comprehension over an opaque iterable is an opaque object (a function of the iterable)")
            return [("val", st, VObj(f(it.t)))]
        if not isinstance(it, VAbs):
            it2 = self.as_abs(it, st)
            if it2 is None:
                raise EngineError(f"comprehension over {it!r}")
            it = it2
        if kind == "dict":
            # only ever built for log messages in loky: an opaque object
            self.abstractions.add("dict comprehension over a symbolic collection is an opaque object")
            return [("val", st, VObj(fresh_const("dictcomp", ty.IntS)))]
        srcsort = it.mem.sort().domain()

        def elem_at(xt, s):
            """evaluate elt and filters with target := xt in a scratch copy"""
            s2 = s.clone()
            xv = self._abs_item(it, xt, s2)
            was = self.spec
            self.spec = True
            try:
                for o in self.assign_target(gen.target, xv, s2):
                    if o[0] == "exc":
                        raise EngineError("comprehension target raised")
                conds = [self.truth(self._one(self.ev(c, s2)), s2) for c in gen.ifs]
                ev = self._one(self.ev(node.elt, s2))
            finally:
                self.spec = was
            return ev, (z3.And(conds) if conds else z3.BoolVal(True))

        probe = z3.Const(fresh_name("cx"), srcsort)
        pv, pc = elem_at(probe, st)
        elemT = self.type_of_value(pv)
        dsort = elemT.comps[0]
        mem = fresh_const("cmem", z3.ArraySort(dsort, ty.BoolS))
        length = fresh_const("clen", ty.IntS)
        st.assume(length >= 0)
        if not gen.ifs and kind != "set":
            st.assume(length == it.length)
        else:
            st.assume(length <= it.length)

        def fwd(x, s=st, it=it, mem=mem):
            ev, c = elem_at(x, s)
            return z3.Implies(z3.And(z3.Select(it.mem, x), c),
                              z3.Select(mem, flatten(ev, elemT)[0]))
        st.qhyps.append(QHypLazy(srcsort, fwd, "comp-forward"))
        # backward: every member is the image of some source element
        wit = z3.Function(fresh_name("cwit"), dsort, srcsort)

        def bwd(y, s=st, it=it, mem=mem, wit=wit):
            x = wit(y)
            ev, c = elem_at(x, s)
            return z3.Implies(z3.Select(mem, y),
                              z3.And(z3.Select(it.mem, x), c, flatten(ev, elemT)[0] == y))
        st.qhyps.append(QHypLazy(dsort, bwd, "comp-backward"))
        self.abstractions.add("comprehensions over symbolic collections are abstract sets with membership axioms")
        return [("val", st, VAbs(mem, length, elemT))]

    def type_of_value(self, v):
        if isinstance(v, VInt):
            return ty.Int
        if isinstance(v, VBool):
            return ty.Bool
        if isinstance(v, VStr):
            return ty.Str
        if isinstance(v, VReal):
            return ty.Real
        if isinstance(v, VRef):
            if v.T is not None:
                return v.T
            return ty.Ref(v.cls, nullable=True)
        if isinstance(v, (VObj, VNone)):
            return ty.Obj
        if isinstance(v, VOpt):
            return ty.Opt(self.type_of_value(v.inner))
        return ty.Obj

    def as_abs(self, v, st):
        """View of a value as an abstract collection, if it has one."""
        if isinstance(v, VAbs):
            return v
        if isinstance(v, VSeq):
            es = v.elem.comps[0]
            k = z3.Const(fresh_name("sk"), es)
            return VAbs(z3.Lambda([k], z3.Contains(v.t, z3.Unit(k))), z3.Length(v.t), v.elem)
        if isinstance(v, VLoc) and st.loc(v).kind in ("list", "set"):
            data = st.loc(v).data
            if not data:
                return None
            T = self.type_of_value(data[0])
            mem = z3.K(T.comps[0], z3.BoolVal(False))
            for it in data:
                mem = z3.Store(mem, flatten(it, T)[0], z3.BoolVal(True))
            return VAbs(mem, z3.IntVal(len(data)), T)
        return None


class QHypLazy:
    """Quantified hypothesis whose body is built on demand."""

    def __init__(self, sort, body, name=""):
        self.sort = sort
        self.body = body
        self.name = name


def assigned_names_expr(target):
    return {n.id for n in ast.walk(target) if isinstance(n, ast.Name)}
