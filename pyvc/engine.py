"""Symbolic executor over the real AST + VC generation against sidecar
contracts.  See DESIGN.md section 2."""
import ast
import time
import z3

from . import types as ty
from . import solve
from .values import (V, VInt, VBool, VReal, VStr, VNone, VRef, VObj, VOpt,
                     VTuple, VLoc, VSeq, VAbs, VFn, VClass, VModule, VConst,
                     NONE, EngineError, flatten, unflatten, fresh_const,
                     fresh_name, fresh_value, to_obj_term, const_id,
                     is_nullable)
from .state import State, QHyp, Event
from .source import loops_of, assigned_names

# uninterpreted helpers over the opaque object id space
_truthy = z3.Function("obj_truthy", ty.IntS, ty.BoolS)
_obj_eq = z3.Function("obj_eq", ty.IntS, ty.IntS, ty.BoolS)
_attr = z3.Function("obj_attr", ty.IntS, ty.IntS, ty.IntS)
_app = z3.Function("obj_app", ty.IntS, ty.IntS, ty.IntS)
_callable = z3.Function("obj_callable", ty.IntS, ty.BoolS)
_str2int = z3.Function("py_int_of_str", ty.StrS, ty.IntS)
_str_ok_int = z3.Function("py_str_is_int", ty.StrS, ty.BoolS)
_hasattr = z3.Function("obj_hasattr", ty.IntS, ty.IntS, ty.BoolS)
_isinst = z3.Function("obj_isinstance", ty.IntS, ty.IntS, ty.BoolS)
_bitor = z3.Function("py_bitor", ty.IntS, ty.IntS, ty.IntS)
_bitand = z3.Function("py_bitand", ty.IntS, ty.IntS, ty.IntS)
_unbox_int = z3.Function("unbox_int", ty.IntS, ty.IntS)


class VCResult:
    def __init__(self, name, prop, func, status, backend, secs, path, model,
                 kind="obligation", site=None, raw=""):
        self.name = name
        self.prop = prop
        self.func = func
        self.status = status
        self.backend = backend
        self.secs = secs
        self.path = path
        self.model = model
        self.kind = kind
        self.site = site
        self.raw = raw


class _Snap:
    """What prove() needs from a state, frozen at the time of the VC."""

    def __init__(self, st, eng):
        self.pc = list(st.pc)
        self.qhyps = list(st.qhyps)
        self.notes = list(st.notes)
        c = eng.cur_contract
        self.full = st.clone() if (c is not None and (getattr(c, "replay_", None) or getattr(c, "replays_", None))) else None

    def clone(self):
        return self.full.clone() if self.full is not None else self


class Ctl:
    """Spec-evaluation context."""

    def __init__(self, old=None, entry=None):
        self.old = old
        self.entry = entry


class Engine:
    MAX_INLINE_DEPTH = 4

    def __init__(self, schema, repo):
        self.schema = schema
        self.repo = repo
        self.results = []
        self.spec = False
        self.ctl = None
        self.cur_key = None
        self.cur_contract = None
        self.inline_depth = 0
        self.paths = 0
        self.pruned_win = 0
        self.abstractions = set()
        self.trusted_used = set()
        self.applied = set()
        self.inlined = set()
        self.user_call_hooks = []
        self.at_call_hooks = []
        self.call_stack = []
        self._loop_ids = {}

    # ==================================================================
    # path condition helpers
    def feasible(self, st, extra=None):
        pcs = st.pc + ([extra] if extra is not None else [])
        return solve.feasible(pcs)

    def branch(self, st, cond):
        """Split on a z3 condition: returns [(bool, state)] of the feasible
        arms; `st` is consumed."""
        cond = z3.simplify(cond)
        if z3.is_true(cond):
            return [(True, st)]
        if z3.is_false(cond):
            return [(False, st)]
        out = []
        # the incoming state is feasible: if one arm is not, the other is
        t_ok = self.feasible(st, cond)
        f_ok = self.feasible(st, z3.Not(cond)) if t_ok else True
        if t_ok and f_ok:
            s2 = st.clone()
            st.assume(cond)
            s2.assume(z3.Not(cond))
            return [(True, st), (False, s2)]
        if t_ok:
            st.assume(cond)
            return [(True, st)]
        if f_ok:
            st.assume(z3.Not(cond))
            return [(False, st)]
        return []

    def prove(self, st, goal, name, prop=None, kind="obligation", site=None):
        """Emit and discharge one VC: pc /\\ instantiated hyps |= goal.
        Inside a loop attempt (whose results may be discarded) the VC is
        only recorded and discharged when the attempt is kept."""
        if getattr(self, "defer_depth", 0) > 0:
            snap = _Snap(st, self)
            ctx = (self.cur_key, self.cur_contract, getattr(self, "cur_env", None), self.ctl)
            ph = VCResult(name, prop, self.cur_key, "deferred", "", 0.0, list(st.notes), None, kind, site)
            ph.thunk = (snap, goal, name, prop, kind, site, ctx)
            self.results.append(ph)
            return ph
        goal = z3.simplify(goal) if not isinstance(goal, bool) else z3.BoolVal(goal)
        neg = z3.Not(goal)
        if z3.is_true(goal):
            v = solve.Verdict("unsat", "trivial", 0.0)
        else:
            insts = solve.instantiate(st.qhyps, [neg] + st.pc) if st.qhyps else []
            v = solve.check(st.pc + insts + [neg])
        r = VCResult(name, prop, self.cur_key, v.status, v.backend, v.secs,
                     list(st.notes), v.model, kind, site, v.raw)
        if v.status in ("sat", "sat-abstract"):
            r.model_txt = self._model_text(v.model, st)
            self._subst = v.subst
            try:
                r.replay_inputs = self._replay_inputs(v.model, st, name)
            finally:
                self._subst = None
        if v.status == "unknown":
            # undecided: a harness may still search natively for a failing input (never a violation by itself)
            c = self.cur_contract
            for match, harness_, inputs_ in (getattr(c, "replays_", []) if c is not None else []):
                if match in name:
                    r.replay_inputs = {"harness": harness_, "inputs": {"__enumerate__": True}}
                    break
        self.results.append(r)
        return r

    def discharge_deferred(self, results):
        """Discharge the VCs recorded during a kept loop attempt."""
        out = []
        for r in results:
            th = getattr(r, "thunk", None)
            if th is None:
                out.append(r)
                continue
            snap, goal, name, prop, kind, site, ctx = th
            saved = (self.cur_key, self.cur_contract, getattr(self, "cur_env", None), self.ctl, self.results, getattr(self, "defer_depth", 0))
            self.cur_key, self.cur_contract, self.cur_env, self.ctl = ctx
            self.results = []
            self.defer_depth = 0
            try:
                target = snap.full if snap.full is not None else snap
                self.prove(target, goal, name, prop, kind, site)
                out += self.results
            finally:
                self.cur_key, self.cur_contract, self.cur_env, self.ctl, self.results, self.defer_depth = saved
        return out

    def _replay_inputs(self, model, st, name=""):
        """Concrete inputs for the native replay harness of the contract
        under verification, read off the counter-model."""
        c = self.cur_contract
        if not hasattr(st, "frames"):
            return None
        spec = getattr(c, "replay_", None) if c is not None else None
        for match, harness_, inputs_ in (getattr(c, "replays_", []) if c is not None else []):
            if match in name:
                spec = (harness_, inputs_)
                break
        if not spec or model is None:
            return None
        harness, exprs = spec
        env = getattr(self, "cur_env", {}) or {}
        old = self.ctl.old if self.ctl is not None else None
        out = {}
        saved = (self.spec, self.ctl, self.results)
        try:
            for name, expr in exprs.items():
                try:
                    s2 = st.clone()
                    v = self.spec_value(expr, s2, env, old=old)
                    out[name] = self.concretize(v, model, s2)
                except Exception as e:          # noqa: a missing input only weakens the replay
                    out[name] = {"__error__": repr(e)[:200]}
        finally:
            self.spec, self.ctl, self.results = saved
        return {"harness": harness, "inputs": out}

    def concretize(self, v, model, st):
        sub = getattr(self, "_subst", None)
        ev = lambda t: model.eval(z3.substitute(t, *sub) if sub else t, model_completion=True)
        if isinstance(v, VInt):
            return ev(v.t).as_long()
        if isinstance(v, VBool):
            return z3.is_true(ev(v.t))
        if isinstance(v, VReal):
            r = ev(v.t)
            return float(r.numerator_as_long()) / float(r.denominator_as_long())
        if isinstance(v, VStr):
            return ev(v.t).as_string()
        if isinstance(v, VNone):
            return None
        if isinstance(v, VOpt):
            return None if z3.is_true(ev(v.isnone)) else self.concretize(v.inner, model, st)
        if isinstance(v, (VRef, VObj)):
            return {"__ref__": ev(v.t).as_long()}
        if isinstance(v, VTuple):
            return [self.concretize(x, model, st) for x in v.items]
        if isinstance(v, VLoc):
            o = st.loc(v)
            if o.kind == "dict":
                return {str(k): self.concretize(x, model, st) for k, x in o.data.items()}
            return [self.concretize(x, model, st) for x in o.data]
        if isinstance(v, VSeq):
            sv = ev(v.t)
            try:
                n = ev(z3.Length(v.t)).as_long()
                return [self.concretize(unflatten(v.elem, (v.t[i],)), model, st) for i in range(min(n, 16))]
            except Exception:
                return str(sv)
        return repr(v)

    def _model_text(self, model, st):
        if model is None:
            return ""
        try:
            lines = []
            for d in model.decls():
                if d.name().startswith(("dc!", "k!", "file_text", "env_val", "seq.", "py_", "box_")):
                    continue
                txt = f"{d.name()} = {model[d]}"
                if len(txt) <= 400:
                    lines.append(txt)
            return "\n".join(sorted(lines))[:6000]
        except Exception:
            return str(model)[:6000]

    # ==================================================================
    # values
    def truth(self, v, st):
        if isinstance(v, VBool):
            return v.t
        if isinstance(v, VInt):
            return v.t != 0
        if isinstance(v, VReal):
            return v.t != 0
        if isinstance(v, VStr):
            return z3.Length(v.t) > 0
        if isinstance(v, VNone):
            return z3.BoolVal(False)
        if isinstance(v, VRef):
            if isinstance(v.T, ty.Map):
                return z3.And(v.t != 0, st.map_len(v) > 0)
            if isinstance(v.T, ty.Lst):
                return z3.And(v.t != 0, z3.Length(st.lst_get(v)) > 0)
            if v.cls == "<exc>":
                return v.t != 0
            d = self.schema.classes.get(v.cls)
            if d is not None and d.truthy is not None:
                return z3.And(v.t != 0, d.truthy(self, v, st))
            return v.t != 0
        if isinstance(v, VObj):
            return z3.And(v.t != 0, _truthy(v.t))
        if isinstance(v, VTuple):
            return z3.BoolVal(len(v.items) > 0)
        if isinstance(v, VLoc):
            return z3.BoolVal(len(st.loc(v).data) > 0)
        if isinstance(v, VOpt):
            return z3.And(z3.Not(v.isnone), self.truth(v.inner, st))
        if isinstance(v, VSeq):
            return z3.Length(v.t) > 0
        if isinstance(v, VAbs):
            return v.length > 0
        if isinstance(v, VFn):
            if v.kind == "opaque":
                return v.t != 0
            return z3.BoolVal(True)
        if isinstance(v, (VClass, VModule, VConst)):
            return z3.BoolVal(True)
        raise EngineError(f"truthiness of {v!r}")

    def merge(self, cond, a, b):
        """ite on values of the same kind (spec mode / joins)."""
        if isinstance(a, VBool) and isinstance(b, VBool):
            return VBool(z3.If(cond, a.t, b.t))
        if isinstance(a, VInt) and isinstance(b, VInt):
            return VInt(z3.If(cond, a.t, b.t))
        if isinstance(a, (VInt, VReal)) and isinstance(b, (VInt, VReal)):
            return VReal(z3.If(cond, self._real(a), self._real(b)))
        if isinstance(a, VStr) and isinstance(b, VStr):
            return VStr(z3.If(cond, a.t, b.t))
        if isinstance(a, VNone) and isinstance(b, VNone):
            return NONE
        if isinstance(a, (VRef, VNone)) and isinstance(b, (VRef, VNone)):
            ra = a if isinstance(a, VRef) else b
            ta = a.t if isinstance(a, VRef) else z3.IntVal(0)
            tb = b.t if isinstance(b, VRef) else z3.IntVal(0)
            return VRef(z3.If(cond, ta, tb), ra.cls, ra.T)
        if isinstance(a, (VObj, VNone, VRef)) and isinstance(b, (VObj, VNone, VRef)):
            return VObj(z3.If(cond, to_obj_term(a), to_obj_term(b)))
        if isinstance(a, VNone) or isinstance(b, VNone):
            other, isn = (b, cond) if isinstance(a, VNone) else (a, z3.Not(cond))
            if isinstance(other, VOpt):
                return VOpt(z3.Or(isn, other.isnone), other.inner)
            return VOpt(isn, other)
        if isinstance(a, VOpt) or isinstance(b, VOpt):
            oa = a if isinstance(a, VOpt) else VOpt(z3.BoolVal(False), a)
            ob = b if isinstance(b, VOpt) else VOpt(z3.BoolVal(False), b)
            return VOpt(z3.If(cond, oa.isnone, ob.isnone),
                        self.merge(cond, oa.inner, ob.inner))
        if isinstance(a, VTuple) and isinstance(b, VTuple) and len(a.items) == len(b.items):
            return VTuple([self.merge(cond, x, y) for x, y in zip(a.items, b.items)])
        if isinstance(a, VSeq) and isinstance(b, VSeq):
            return VSeq(z3.If(cond, a.t, b.t), a.elem)
        if a is b:
            return a
        try:
            return VObj(z3.If(cond, to_obj_term(a), to_obj_term(b)))
        except EngineError:
            raise EngineError(f"cannot merge {a!r} and {b!r}")

    def _real(self, v):
        if isinstance(v, VReal):
            return v.t
        if isinstance(v, VInt):
            return z3.ToReal(v.t)
        if isinstance(v, VBool):
            return z3.If(v.t, z3.RealVal(1), z3.RealVal(0))
        raise EngineError(f"not a number: {v!r}")

    def _int(self, v):
        if isinstance(v, VInt):
            return v.t
        if isinstance(v, VBool):
            return z3.If(v.t, z3.IntVal(1), z3.IntVal(0))
        raise EngineError(f"not an int: {v!r}")

    def eq(self, a, b, st):
        """z3 Bool for Python `a == b`."""
        if isinstance(a, VOpt):
            return z3.If(a.isnone, self.eq(NONE, b, st), self.eq(a.inner, b, st))
        if isinstance(b, VOpt):
            return z3.If(b.isnone, self.eq(a, NONE, st), self.eq(a, b.inner, st))
        if isinstance(a, VNone) or isinstance(b, VNone):
            if isinstance(a, VNone) and isinstance(b, VNone):
                return z3.BoolVal(True)
            o = b if isinstance(a, VNone) else a
            if isinstance(o, (VRef, VObj)):
                return o.t == 0
            if isinstance(o, VFn) and o.kind == "opaque":
                return o.t == 0
            return z3.BoolVal(False)
        num = (VInt, VBool, VReal)
        if isinstance(a, num) and isinstance(b, num):
            if isinstance(a, VBool) and isinstance(b, VBool):
                return a.t == b.t
            if isinstance(a, VReal) or isinstance(b, VReal):
                return self._real(a) == self._real(b)
            return self._int(a) == self._int(b)
        if isinstance(a, VStr) and isinstance(b, VStr):
            return a.t == b.t
        if isinstance(a, VRef) and isinstance(b, VRef):
            return a.t == b.t
        if isinstance(a, (VRef, VObj)) and isinstance(b, (VRef, VObj)):
            return z3.Or(a.t == b.t, z3.And(_obj_eq(a.t, b.t), a.t != 0, b.t != 0))
        if isinstance(a, VTuple) and isinstance(b, VTuple):
            if len(a.items) != len(b.items):
                return z3.BoolVal(False)
            return z3.And([self.eq(x, y, st) for x, y in zip(a.items, b.items)] or [z3.BoolVal(True)])
        if isinstance(a, VLoc) and isinstance(b, VLoc):
            da, db = st.loc(a), st.loc(b)
            if da.kind != db.kind:
                return z3.BoolVal(False)
            if da.kind == "list":
                if len(da.data) != len(db.data):
                    return z3.BoolVal(False)
                return z3.And([self.eq(x, y, st) for x, y in zip(da.data, db.data)] or [z3.BoolVal(True)])
            if da.kind == "dict":
                if set(da.data) != set(db.data):
                    return z3.BoolVal(False)
                return z3.And([self.eq(da.data[k], db.data[k], st) for k in da.data] or [z3.BoolVal(True)])
        if (isinstance(a, VLoc) and isinstance(b, VRef) and isinstance(b.T, ty.Map)) or (isinstance(b, VLoc) and isinstance(a, VRef) and isinstance(a.T, ty.Map)):
            # dict literal == heap dict: same key set and equal values (identity first, then ==, as dict.__eq__ does)
            loc, m = (a, b) if isinstance(a, VLoc) else (b, a)
            d = st.loc(loc)
            if d.kind != "dict":
                return z3.BoolVal(False)
            conj = [m.t != 0, st.map_len(m) == len(d.data)]
            for k, x in d.data.items():
                kv = VStr(k) if isinstance(k, str) else (VInt(k) if isinstance(k, int) else k)
                got = st.map_get(m, kv.t)
                conj.append(st.map_has(m, kv.t))
                conj.append(self.eq(x, got, st))
            return z3.And(conj)
        if self.spec and ((isinstance(a, VTuple) and isinstance(b, VLoc)) or (isinstance(a, VLoc) and isinstance(b, VTuple))):
            # only used by specs (log_tags() == [...]): element-wise
            ia = a.items if isinstance(a, VTuple) else st.loc(a).data
            ib = b.items if isinstance(b, VTuple) else st.loc(b).data
            if len(ia) != len(ib):
                return z3.BoolVal(False)
            return z3.And([self.eq(x, y, st) for x, y in zip(ia, ib)] or [z3.BoolVal(True)])
        if isinstance(a, VClass) and isinstance(b, VClass):
            return z3.BoolVal(a.name == b.name)
        if isinstance(a, VConst) and isinstance(b, VConst):
            return z3.BoolVal(a.name == b.name)
        if isinstance(a, VSeq) and isinstance(b, VSeq):
            return a.t == b.t
        if isinstance(a, VSeq) and isinstance(b, VTuple) or isinstance(b, VSeq) and isinstance(a, VTuple):
            s, t = (a, b) if isinstance(a, VSeq) else (b, a)
            return s.t == self._seq_of(t, s.elem)
        if isinstance(a, VObj) or isinstance(b, VObj):
            ta, tb = to_obj_term(a), to_obj_term(b)
            return z3.Or(ta == tb, _obj_eq(ta, tb))
        kinds_differ = type(a) is not type(b)
        if kinds_differ:
            return z3.BoolVal(False)
        if isinstance(a, VFn) and isinstance(b, VFn):
            return to_obj_term(a) == to_obj_term(b)
        raise EngineError(f"== between {a!r} and {b!r}")

    def _seq_of(self, tup, elem):
        if not tup.items:
            return z3.Empty(z3.SeqSort(elem.comps[0]))
        units = [z3.Unit(flatten(x, elem)[0]) for x in tup.items]
        return z3.Concat(*units) if len(units) > 1 else units[0]

    def identical(self, a, b, st):
        """z3 Bool for Python `a is b`."""
        if isinstance(a, VOpt):
            return z3.If(a.isnone, self.identical(NONE, b, st), self.identical(a.inner, b, st))
        if isinstance(b, VOpt):
            return z3.If(b.isnone, self.identical(a, NONE, st), self.identical(a, b.inner, st))
        if isinstance(a, VNone) or isinstance(b, VNone):
            return self.eq(a, b, st)
        if isinstance(a, (VRef, VObj)) and isinstance(b, (VRef, VObj)):
            return a.t == b.t
        if isinstance(a, VBool) and isinstance(b, VBool):
            return a.t == b.t
        if isinstance(a, VInt) and isinstance(b, VInt):
            return a.t == b.t
        if isinstance(a, VLoc) and isinstance(b, VLoc):
            return z3.BoolVal(a.oid == b.oid)
        if isinstance(a, (VClass, VConst)) and isinstance(b, (VClass, VConst)):
            return z3.BoolVal(type(a) is type(b) and a.name == b.name)
        if isinstance(a, VStr) and isinstance(b, VStr):
            return a.t == b.t
        if isinstance(a, VFn) and isinstance(b, VFn):
            return to_obj_term(a) == to_obj_term(b)
        if isinstance(a, VBool) or isinstance(b, VBool):
            # `x is True` with x of another kind
            return z3.BoolVal(False)
        try:
            return to_obj_term(a) == to_obj_term(b)
        except EngineError:
            return z3.BoolVal(False)

    # ==================================================================
    # results plumbing
    @staticmethod
    def val(st, v):
        return ("val", st, v)

    def raise_new(self, st, excname, msg=None, cause=None):
        """Allocate an exception object of a lattice class."""
        e = st.new_obj("<exc>")
        st.write_field(e, "cls", VInt(self.schema.exc_ids[excname]))
        st.write_field(e, "cause", cause if cause is not None else NONE)
        st.write_field(e, "context", st.cur_exc if st.cur_exc is not None else NONE)
        if msg is not None:
            st.write_field(e, "msg", msg)
        return ("exc", st, e)

    def exc_cls_term(self, st, e):
        v, _ = st.read_field(e, "cls")
        return z3.simplify(v.t)

    def split_value(self, st, v, T=None):
        """Eagerly split optionals / nullable refs (exec mode): returns
        [(state, value)]."""
        if self.spec:
            return [(st, v)]
        if isinstance(v, VOpt):
            out = []
            for b, s in self.branch(st, v.isnone):
                if b:
                    out.append((s, NONE))
                else:
                    out += self.split_value(s, v.inner, getattr(T, "inner", None))
            return out
        if isinstance(v, VRef) and T is not None and is_nullable(T):
            out = []
            for b, s in self.branch(st, v.t == 0):
                out.append((s, NONE if b else v))
            return out
        if isinstance(v, VFn) and v.kind == "opaque" and T is not None and is_nullable(T):
            out = []
            for b, s in self.branch(st, v.t == 0):
                out.append((s, NONE if b else v))
            return out
        return [(st, v)]

    def fresh_of_type(self, st, T, prefix="v"):
        """Fresh symbolic value(s) of a schema type; unions and optionals
        are split: returns [(state, value)]."""
        if isinstance(T, ty.Union):
            out = []
            alts = list(T.alts)
            for i, alt in enumerate(alts):
                s = st.clone() if i < len(alts) - 1 else st
                s.notes.append(f"{prefix}:{alt!r}")
                out += self.fresh_of_type(s, alt, prefix)
            return out
        if isinstance(T, ty._NoneT):
            return [(st, NONE)]
        if isinstance(T, V):
            return [(st, T)]
        if isinstance(T, ty.Tup):
            acc = [(st, [])]
            for i, Ti in enumerate(T.items):
                nxt = []
                for s, vs in acc:
                    for s2, v in self.fresh_of_type(s, Ti, f"{prefix}_{i}"):
                        nxt.append((s2, vs + [v]))
                acc = nxt
            return [(s, VTuple(vs)) for s, vs in acc]
        v = fresh_value(T, prefix)
        st._typing(v, T)
        if isinstance(T, ty.Exc):
            c, _ = st.read_field(v, "cls")
            guard = self.schema.exc_valid(c.t, T.below or "BaseException")
            st.assume(z3.Or(v.t == 0, guard) if T.nullable else guard)
        return self.split_value(st, v, T)
