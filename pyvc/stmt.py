"""Statement execution: outcomes are (kind, state, value) with kind in
next | ret | brk | cont | exc."""
import ast
import z3

from . import types as ty
from .values import (V, VInt, VBool, VReal, VStr, VNone, VRef, VObj, VOpt,
                     VTuple, VLoc, VSeq, VAbs, VFn, VClass, VModule, VConst,
                     NONE, EngineError, flatten, unflatten, fresh_const,
                     fresh_name, fresh_value, to_obj_term, const_id,
                     is_nullable)
from .source import assigned_names, loops_of
from .state import Event, QHyp
from .solve import entails as solve_entails


class StmtMixin:
    def exec_block(self, stmts, st):
        outs = [("next", st, None)]
        for s_ in stmts:
            nxt = []
            progressed = False
            for o in outs:
                if o[0] != "next":
                    nxt.append(o)
                    continue
                progressed = True
                nxt += self.exec_stmt(s_, o[1])
            outs = self.merge_equal_states(nxt)
            if not progressed:
                break
        return outs

    # ------------------------------------------------------------------
    # join of paths that reach the same program point with the same state
    # (they differ only in their path condition): logging-only branches,
    # swallowed exceptions of quiet externals, ...
    def _fp_value(self, v):
        if v is None:
            return ("unbound",)
        if isinstance(v, (VInt, VBool, VReal, VStr, VObj)):
            return (type(v).__name__, v.t.get_id())
        if isinstance(v, VRef):
            return ("VRef", v.t.get_id(), v.cls)
        if isinstance(v, VNone):
            return ("None",)
        if isinstance(v, VTuple):
            return ("T",) + tuple(self._fp_value(x) for x in v.items)
        if isinstance(v, VLoc):
            return ("L", v.oid)
        if isinstance(v, VSeq):
            return ("S", v.t.get_id())
        if isinstance(v, VAbs):
            return ("A", v.mem.get_id(), v.length.get_id())
        if isinstance(v, VOpt):
            return ("O", v.isnone.get_id(), self._fp_value(v.inner))
        if isinstance(v, VFn):
            return ("F", v.kind, v.name, v.frame, v.t.get_id() if v.t is not None else None,
                    self._fp_value(v.self_) if isinstance(v.self_, V) else None)
        if isinstance(v, (VClass, VModule, VConst)):
            return (type(v).__name__, v.name)
        return ("?", id(v))

    def _fingerprint(self, st):
        frames = tuple(sorted((fid, tuple(sorted((n, self._fp_value(x)) for n, x in f.vars.items())), tuple(sorted(f.globals_decl)))
                              for fid, f in st.frames.items()))
        # heap components, ghosts and scalar globals may differ: they are joined with if-then-else on the path conditions
        heap = ()
        ghost = ()
        globs = tuple(sorted((k, self._fp_value(v)) for k, v in st.globs.items()
                             if not isinstance(v, (VInt, VBool, VReal, VStr, VRef, VObj))))
        objs = tuple(sorted((k, o.kind, tuple(self._fp_value(x) for x in (o.data if o.kind != "dict" else o.data.values())),
                             tuple(o.data) if o.kind == "dict" else ()) for k, o in st.objs.items()))
        log = tuple((e.tag, tuple(self._fp_value(a) if isinstance(a, V) else ("raw", str(a)) for a in e.args)) for e in st.log)
        return (st.cur, frames, heap, ghost, globs, objs, log, tuple(h.get_id() for h in st.held), 0,
                self._fp_value(st.cur_exc) if st.cur_exc is not None else None,
                tuple(self._fp_value(x) for x in st.gen_out) if st.gen_out is not None else None,
                tuple(sorted(st.log_opaque)))

    def _join_components(self, base, states, conds):
        """base := join of the states: every heap component / ghost / scalar global that differs becomes
        If(cond_1, v_1, If(cond_2, v_2, ... v_n))."""
        from .state import initial_array
        keys = set()
        for s_ in states:
            keys |= set(s_.heap)
        for k in keys:
            vals = []
            for s_ in states:
                arrs = s_.heap.get(k)
                vals.append(arrs)
            ref = next(v for v in vals if v is not None)
            vals = [v if v is not None else tuple(initial_array(k[0], k[1], i_, a_.sort().range()) for i_, a_ in enumerate(ref)) for v in vals]
            if all(all(x.eq(y) for x, y in zip(v, vals[0])) for v in vals):
                base.heap[k] = vals[0]
                continue
            out = list(vals[-1])
            for c_, v in zip(reversed(conds[:-1]), reversed(vals[:-1])):
                out = [z3.If(c_, a, b) for a, b in zip(v, out)]
            base.heap[k] = tuple(out)
        gkeys = set()
        for s_ in states:
            gkeys |= set(s_.ghost)
        for k in gkeys:
            vals = [s_.ghost.get(k) if k in s_.ghost else z3.Const(f"G0!{k}", self.schema.ghosts[k].sort) for s_ in states]
            if all(v.eq(vals[0]) for v in vals):
                base.ghost[k] = vals[0]
                continue
            out = vals[-1]
            for c_, v in zip(reversed(conds[:-1]), reversed(vals[:-1])):
                out = z3.If(c_, v, out)
            base.ghost[k] = out
        gl = set()
        for s_ in states:
            gl |= set(s_.globs)
        for k in gl:
            vals = [s_.globs.get(k) for s_ in states]
            if any(v is None for v in vals):
                if all(v is None or v is next(x for x in vals if x is not None) for v in vals):
                    continue
                raise EngineError("global touched on one side only")
            if all(self._fp_value(v) == self._fp_value(vals[0]) for v in vals):
                continue
            out = vals[-1]
            for c_, v in zip(reversed(conds[:-1]), reversed(vals[:-1])):
                out = self.merge(c_, v, out)
            base.globs[k] = out
        # allocation counter: the largest
        al = states[-1].alloc
        for c_, s_ in zip(reversed(conds[:-1]), reversed(states[:-1])):
            al = al if s_.alloc.eq(al) else z3.If(c_, s_.alloc, al)
        base.alloc = al

    def merge_equal_states(self, outs):
        nexts = [o for o in outs if o[0] == "next"]
        if len(nexts) < 2 or self.spec:
            return outs
        groups = {}
        order = []
        for o in nexts:
            try:
                fp = self._fingerprint(o[1])
            except Exception:
                fp = ("nomerge", id(o))
            if fp not in groups:
                groups[fp] = []
                order.append(fp)
            groups[fp].append(o)
        if len(order) == len(nexts):
            return outs
        merged = []
        for fp in order:
            g = groups[fp]
            if len(g) == 1:
                merged.append(g[0])
                continue
            base = g[0][1]
            pcs = [o[1].pc for o in g]
            n = 0
            while all(len(p) > n for p in pcs) and all(p[n].eq(pcs[0][n]) for p in pcs):
                n += 1
            rests = [z3.And(p[n:]) if len(p) > n else z3.BoolVal(True) for p in pcs]
            try:
                self._join_components(base, [o[1] for o in g], rests)
            except EngineError:
                merged.extend(g)
                continue
            base.pc = list(pcs[0][:n]) + [z3.Or(rests)]
            seenq = {id(q) for q in base.qhyps}
            for o in g[1:]:
                for q in o[1].qhyps:
                    if id(q) not in seenq:
                        seenq.add(id(q))
                        base.qhyps.append(q)
            base.notes = list(g[0][1].notes[:0]) + [x for x in g[0][1].notes if all(x in o[1].notes for o in g)] + [f"join({len(g)})"]
            merged.append(("next", base, None))
        return [o for o in outs if o[0] != "next"] + merged

    def exec_stmt(self, node, st):
        m = getattr(self, "st_" + node.__class__.__name__, None)
        if m is None:
            raise EngineError(f"unsupported statement {node.__class__.__name__} "
                              f"at line {node.lineno}")
        return m(node, st)

    # ------------------------------------------------------------------
    def st_Pass(self, node, st):
        return [("next", st, None)]

    def st_Expr(self, node, st):
        if isinstance(node.value, ast.Constant):
            return [("next", st, None)]      # docstring
        if isinstance(node.value, (ast.Yield,)):
            return self.do_yield(node.value, st)
        out = []
        for r in self.ev(node.value, st):
            out.append(("next", r[1], None) if r[0] == "val" else r)
        return out

    def do_yield(self, node, st):
        out = []
        for r in (self.ev(node.value, st) if node.value else [("val", st, NONE)]):
            if r[0] == "exc":
                out.append(r)
                continue
            s = r[1]
            if s.gen_out is None:
                raise EngineError("yield in a function not declared as generator")
            self.on_yield(s, r[2])
            out.append(("next", s, None))
        return out

    def on_yield(self, st, v):
        mode = getattr(self.cur_contract, "generator", True) if getattr(self, "cur_contract", None) is not None else True
        if mode == "items":
            g = st.ghost_get("gen_items")
            st.ghost_set("gen_items", z3.Concat(g, z3.Unit(to_obj_term(v))))
            st.emit("yield", [v])
            return
        if mode == "chunks":
            if not isinstance(v, VSeq):
                raise EngineError(f"generator declared to yield sequences yields {v!r}")
            st.ghost_set("gen_flat", z3.Concat(st.ghost_get("gen_flat"), v.t))
            st.ghost_set("gen_n", st.ghost_get("gen_n") + 1)
            st.emit("yield", [v])
            return
        st.gen_out.append(v)

    def st_Return(self, node, st):
        if node.value is None:
            return [("ret", st, NONE)]
        return [("ret", r[1], r[2]) if r[0] == "val" else r for r in self.ev(node.value, st)]

    def st_Global(self, node, st):
        st.frame.globals_decl = set(st.frame.globals_decl) | set(node.names)
        return [("next", st, None)]

    def st_Nonlocal(self, node, st):
        st.frame.nonlocal_decl = set(st.frame.nonlocal_decl) | set(node.names)
        return [("next", st, None)]

    def st_Break(self, node, st):
        return [("brk", st, None)]

    def st_Continue(self, node, st):
        return [("cont", st, None)]

    def st_Import(self, node, st):
        out = [("next", st, None)]
        for a in node.names:
            nxt = []
            for o in out:
                if o[0] != "next":
                    nxt.append(o)
                    continue
                s = o[1]
                top = a.name if a.asname else a.name.split(".")[0]
                for ok, s2 in self.import_outcomes(a.name, s):
                    if ok:
                        self.store_name(a.asname or a.name.split(".")[0], self.module_value(top), s2)
                        nxt.append(("next", s2, None))
                    else:
                        nxt.append(self.raise_new(s2, "ImportError"))
            out = nxt
        return out

    def module_value(self, dotted):
        return VModule(dotted)

    def import_outcomes(self, modname, st):
        opt = getattr(self.schema, "optional_modules", {})
        top = modname.split(".")[0]
        if top in opt:
            flag = z3.Bool(f"cfg!have:{top}")
            return self.branch(st, flag)
        return [(True, st)]

    def st_ImportFrom(self, node, st):
        mi = self.repo.module(st.frame.module)
        mod = mi._abs(node.module or "", node.level)
        out = []
        for ok, s in self.import_outcomes(mod, st):
            if not ok:
                out.append(self.raise_new(s, "ImportError"))
                continue
            for a in node.names:
                imp = mi._imp(mod, a.name)
                rs = self.resolve_import(imp, s)
                if len(rs) != 1 or rs[0][0] != "val":
                    raise EngineError("import with several outcomes")
                self.store_name(a.asname or a.name, rs[0][2], s)
            out.append(("next", s, None))
        return out

    def st_Delete(self, node, st):
        outs = [("next", st, None)]
        for tgt in node.targets:
            nxt = []
            for o in outs:
                if o[0] != "next":
                    nxt.append(o)
                    continue
                s = o[1]
                if isinstance(tgt, ast.Name):
                    if tgt.id in s.frame.vars:
                        s.frame.vars[tgt.id] = None      # unbound again
                    nxt.append(("next", s, None))
                elif isinstance(tgt, ast.Subscript):
                    for kind, s2, vs in self.ev_list([tgt.value, tgt.slice], s):
                        if kind == "exc":
                            nxt.append((kind, s2, vs))
                            continue
                        nxt += self.del_item(vs[0], vs[1], s2)
                elif isinstance(tgt, ast.Attribute):
                    for r in self.ev(tgt.value, s):
                        if r[0] == "exc":
                            nxt.append(r)
                            continue
                        r[1].emit("delattr", [r[2], VStr(tgt.attr)])
                        nxt.append(("next", r[1], None))
                else:
                    raise EngineError("del target")
            outs = nxt
        return outs

    def del_item(self, c, k, st):
        if isinstance(c, VRef) and isinstance(c.T, ty.Map):
            kt = flatten(k, c.T.key)[0]
            out = []
            for b, s in self.branch(st, st.map_has(c, kt)):
                if b:
                    s.map_del(c, kt)
                    out.append(("next", s, None))
                else:
                    out.append(self.raise_new(s, "KeyError"))
            return out
        if isinstance(c, VLoc) and st.loc(c).kind == "dict":
            d = st.loc(c).data
            kc = self._key_const(k)
            if kc in d:
                del d[kc]
                return [("next", st, None)]
            return [self.raise_new(st, "KeyError")]
        raise EngineError(f"del item of {c!r}")

    def st_Assert(self, node, st):
        out = []
        for r in self.ev(node.test, st):
            if r[0] == "exc":
                out.append(r)
                continue
            for b, s in self.branch(r[1], self.truth(r[2], r[1])):
                if b:
                    out.append(("next", s, None))
                else:
                    s.notes.append(f"assert fails@{node.lineno}")
                    out.append(self.raise_new(s, "AssertionError"))
        return out

    def st_Raise(self, node, st):
        if node.exc is None:
            if st.cur_exc is None:
                raise EngineError("bare raise outside handler")
            return [("exc", st, st.cur_exc)]
        out = []
        nodes = [node.exc] + ([node.cause] if node.cause is not None else [])
        for kind, s, vs in self.ev_list(nodes, st):
            if kind == "exc":
                out.append((kind, s, vs))
                continue
            ev = vs[0]
            if isinstance(ev, VClass):
                rs = self.construct(ev, [], {}, s, node)
            else:
                rs = [("val", s, ev)]
            for r in rs:
                if r[0] == "exc":
                    out.append(r)
                    continue
                e, s2 = r[2], r[1]
                if isinstance(e, VOpt):
                    raise EngineError("raise of optional")
                if not (isinstance(e, VRef) and e.cls == "<exc>"):
                    if isinstance(e, VObj):
                        e = VRef(e.t, "<exc>")
                    else:
                        raise EngineError(f"raise of {e!r}")
                if node.cause is not None:
                    s2.write_field(e, "cause", vs[1])
                out.append(("exc", s2, e))
        return out

    # ------------------------------------------------------------------
    # assignment
    def heapify(self, v, T, st):
        """A function-local dict literal stored where the schema declares a heap dict: allocate the heap dict with the same entries."""
        if isinstance(v, VLoc) and isinstance(T, ty.Map) and st.loc(v).kind == "dict":
            m = st.new_map(T)
            for k, x in st.loc(v).data.items():
                kv = VStr(k) if isinstance(k, str) else (VInt(k) if isinstance(k, int) else k)
                st.map_set(m, kv.t, x)
            return m
        if isinstance(v, VLoc) and isinstance(T, ty.Lst) and st.loc(v).kind == "list":
            l = st.new_obj(T.cls, T)
            es = T.elem.comps[0]
            seq = z3.Empty(z3.SeqSort(es))
            for x in st.loc(v).data:
                seq = z3.Concat(seq, z3.Unit(flatten(x, T.elem)[0]))
            st.lst_set(l, seq)
            return l
        return v

    def store_name(self, name, v, st):
        f = st.frame
        if name in f.globals_decl:
            key = (f.module, name)
            if key not in self.schema.globs:
                raise EngineError(f"assignment to undeclared module global {f.module}.{name}")
            self.check_global_write(f.module, name, st)
            st.globs[key] = self.heapify(v, self.schema.globs[key].T, st)
            return
        if name in f.nonlocal_decl:
            fr = st.frames.get(f.parent) if f.parent else None
            while fr is not None:
                if name in fr.vars:
                    fr.vars[name] = v
                    return
                fr = st.frames.get(fr.parent) if fr.parent else None
            raise EngineError(f"nonlocal {name} not found")
        f.vars[name] = v

    def check_global_write(self, module, name, st):
        self.check_guarded_global(module, name, st, "written")

    def assign_target(self, tgt, v, st):
        if isinstance(tgt, ast.Name):
            self.store_name(tgt.id, v, st)
            return [("next", st, None)]
        if isinstance(tgt, (ast.Tuple, ast.List)):
            return self.unpack(tgt, v, st)
        if isinstance(tgt, ast.Attribute):
            out = []
            for r in self.ev(tgt.value, st):
                if r[0] == "exc":
                    out.append(r)
                    continue
                out += self.set_attr(r[2], tgt.attr, v, r[1])
            return out
        if isinstance(tgt, ast.Subscript):
            out = []
            for kind, s, vs in self.ev_list([tgt.value, tgt.slice], st):
                if kind == "exc":
                    out.append((kind, s, vs))
                    continue
                out += self.set_item(vs[0], vs[1], v, s)
            return out
        if isinstance(tgt, ast.Starred):
            raise EngineError("starred assignment target")
        raise EngineError(f"assignment target {tgt.__class__.__name__}")

    def set_item(self, c, k, v, st):
        if isinstance(c, VRef) and isinstance(c.T, ty.Map):
            st.map_set(c, flatten(k, c.T.key)[0], v)
            return [("next", st, None)]
        if isinstance(c, VLoc):
            o = st.loc(c)
            if o.kind == "dict":
                o.data[self._key_const(k)] = v
                return [("next", st, None)]
            if o.kind == "list":
                i = self._const_int(k)
                if i is None:
                    raise EngineError("symbolic index store")
                o.data[i] = v
                return [("next", st, None)]
        if isinstance(c, VRef):
            m = self.find_method(c.cls, "__setitem__")
            if m:
                return [("next", r[1], None) if r[0] == "val" else r
                        for r in self.call_method(c, "__setitem__", [k, v], {}, st, None)]
        if isinstance(c, VObj):
            st.emit("setitem", [c, k, v])
            return [("next", st, None)]
        raise EngineError(f"item store on {c!r}")

    def unpack(self, tgt, v, st):
        n = len(tgt.elts)
        if isinstance(v, (VTuple, VLoc)):
            items = self.concrete_items(v, st)
            if len(items) != n:
                return [self.raise_new(st, "ValueError")]
            outs = [("next", st, None)]
            for t, it in zip(tgt.elts, items):
                nxt = []
                for o in outs:
                    if o[0] != "next":
                        nxt.append(o)
                    else:
                        nxt += self.assign_target(t, it, o[1])
                outs = nxt
            return outs
        if isinstance(v, VSeq):
            ln = z3.Length(v.t)
            out = []
            for b, s in self.branch(st, ln == n):
                if not b:
                    s.notes.append(f"unpack length != {n}")
                    out.append(self.raise_new(s, "ValueError"))
                    continue
                items = [unflatten(v.elem, (v.t[i],)) for i in range(n)]
                out += self.unpack(tgt, VTuple(items), s)
            return out
        if isinstance(v, VObj):
            f = z3.Function("obj_getitem", ty.IntS, ty.IntS, ty.IntS)
            items = [VObj(f(v.t, to_obj_term(VInt(i)))) for i in range(n)]
            return self.unpack(tgt, VTuple(items), st)
        raise EngineError(f"unpacking {v!r}")

    def st_Assign(self, node, st):
        out = []
        for r in self.ev(node.value, st):
            if r[0] == "exc":
                out.append(r)
                continue
            outs = [("next", r[1], None)]
            for tgt in node.targets:
                nxt = []
                for o in outs:
                    if o[0] != "next":
                        nxt.append(o)
                    else:
                        nxt += self.assign_target(tgt, r[2], o[1])
                outs = nxt
            out += outs
        return out

    def st_AnnAssign(self, node, st):
        if node.value is None:
            return [("next", st, None)]
        out = []
        for r in self.ev(node.value, st):
            if r[0] == "exc":
                out.append(r)
            else:
                out += self.assign_target(node.target, r[2], r[1])
        return out

    def st_AugAssign(self, node, st):
        tgt = node.target
        out = []
        if isinstance(tgt, ast.Name):
            load = ast.Name(id=tgt.id, ctx=ast.Load())
            ast.copy_location(load, tgt)
            for kind, s, vs in self.ev_list([load, node.value], st):
                if kind == "exc":
                    out.append((kind, s, vs))
                    continue
                out += self._aug_store(node, tgt, vs[0], vs[1], s, None)
            return out
        if isinstance(tgt, ast.Attribute):
            for kind, s, vs in self.ev_list([tgt.value, node.value], st):
                if kind == "exc":
                    out.append((kind, s, vs))
                    continue
                for r in self.get_attr(vs[0], tgt.attr, s, tgt):
                    if r[0] == "exc":
                        out.append(r)
                        continue
                    out += self._aug_store(node, tgt, r[2], vs[1], r[1], ("attr", vs[0]))
            return out
        if isinstance(tgt, ast.Subscript):
            for kind, s, vs in self.ev_list([tgt.value, tgt.slice, node.value], st):
                if kind == "exc":
                    out.append((kind, s, vs))
                    continue
                for r in self.get_item(vs[0], vs[1], s):
                    if r[0] == "exc":
                        out.append(r)
                        continue
                    out += self._aug_store(node, tgt, r[2], vs[2], r[1], ("item", vs[0], vs[1]))
            return out
        raise EngineError("augmented assignment target")

    def _aug_store(self, node, tgt, cur, rhs, st, where):
        # in-place list extension
        if isinstance(node.op, ast.Add) and isinstance(cur, VLoc) and st.loc(cur).kind == "list":
            st.loc(cur).data.extend(self.concrete_items(rhs, st))
            return [("next", st, None)]
        if isinstance(node.op, ast.Add) and isinstance(cur, VRef) and isinstance(cur.T, ty.Lst):
            seq = st.lst_get(cur)
            for it in self.concrete_items(rhs, st):
                seq = z3.Concat(seq, z3.Unit(flatten(it, cur.T.elem)[0]))
            st.lst_set(cur, seq)
            return [("next", st, None)]
        out = []
        for r in self.binop(node.op, cur, rhs, st):
            if r[0] == "exc":
                out.append(r)
                continue
            s, v = r[1], r[2]
            if where is None:
                self.store_name(tgt.id, v, s)
                out.append(("next", s, None))
            elif where[0] == "attr":
                out += self.set_attr(where[1], tgt.attr, v, s)
            else:
                out += self.set_item(where[1], where[2], v, s)
        return out

    # ------------------------------------------------------------------
    def st_If(self, node, st):
        out = []
        for r in self.ev(node.test, st):
            if r[0] == "exc":
                out.append(r)
                continue
            cond = self.truth(r[2], r[1])
            arms = self.branch(r[1], cond)
            for b, s in arms:
                if len(arms) > 1 or True:
                    s.notes.append(f"if@{node.lineno}:{'T' if b else 'F'}")
                out += self.exec_block(node.body if b else node.orelse, s)
        return out

    def st_FunctionDef(self, node, st):
        outer = st.frame.func or ""
        key = f"{outer}.{node.name}" if ":" in outer else None
        fn = VFn("closure", name=node.name, node=node, frame=st.cur, module=st.frame.module, extra=key)
        self.store_name(node.name, fn, st)
        return [("next", st, None)]

    def st_ClassDef(self, node, st):
        v = self.local_class(node, st)
        self.store_name(node.name, v, st)
        return [("next", st, None)]

    def local_class(self, node, st):
        key = (st.frame.module, node.name)
        if key in self.schema.src_class:
            return VClass(self.schema.src_class[key], module=st.frame.module, node=node)
        raise EngineError(f"nested class {node.name} is not declared in the schema")

    # ------------------------------------------------------------------
    def st_With(self, node, st):
        def go(i, s):
            if i == len(node.items):
                return self.exec_block(node.body, s)
            item = node.items[i]
            out = []
            for r in self.ev(item.context_expr, s):
                if r[0] == "exc":
                    out.append(r)
                    continue
                cm = r[2]
                for e in self.cm_enter(cm, r[1], node):
                    if e[0] == "exc":
                        out.append(e)
                        continue
                    s1 = e[1]
                    outs = [("next", s1, None)]
                    if item.optional_vars is not None:
                        outs = self.assign_target(item.optional_vars, e[2], s1)
                    for o in outs:
                        if o[0] != "next":
                            out += self._cm_exit_wrap(cm, o, node)
                            continue
                        for b in go(i + 1, o[1]):
                            out += self._cm_exit_wrap(cm, b, node)
            return out
        return go(0, st)

    def _cm_exit_wrap(self, cm, outcome, node):
        kind, s, v = outcome
        res = []
        for x in self.cm_exit(cm, s, node, kind == "exc"):
            if x[0] == "exc":
                res.append(x)
            else:
                res.append((kind, x[1], v))
        return res

    def cm_enter(self, cm, st, node):
        if isinstance(cm, VNone):
            st.notes.append(f"with None@{node.lineno}")
            return [self.raise_new(st, "TypeError")]
        if isinstance(cm, VRef):
            return self.call_method(cm, "__enter__", [], {}, st, node)
        raise EngineError(f"with on {cm!r}")

    def cm_exit(self, cm, st, node, exceptional):
        if isinstance(cm, VRef):
            return self.call_method(cm, "__exit__", [NONE, NONE, NONE], {}, st, node)
        raise EngineError(f"with on {cm!r}")

    # ------------------------------------------------------------------
    def st_Try(self, node, st):
        body_outs = self.exec_block(node.body, st)
        after = []
        for o in body_outs:
            kind, s, v = o
            if kind == "next":
                after += self.exec_block(node.orelse, s) if node.orelse else [o]
            elif kind == "exc":
                after += self.handle_exc(node, s, v)
            else:
                after.append(o)
        if not node.finalbody:
            return after
        out = []
        for o in after:
            kind, s, v = o
            saved_exc = s.cur_exc
            for f in self.exec_block(node.finalbody, s):
                if f[0] == "next":
                    f[1].cur_exc = saved_exc
                    out.append((kind, f[1], v))
                else:
                    out.append(f)       # finally overrides the pending outcome
        return out

    def handle_exc(self, node, st, e):
        out = []
        cur = st
        cls_t = self.exc_cls_term(cur, e)
        for h in node.handlers:
            if cur is None:
                break
            if h.type is None:
                cond = z3.BoolVal(True)
            else:
                rs = self.ev(h.type, cur)
                if len(rs) != 1 or rs[0][0] != "val":
                    raise EngineError("exception class expression with effects")
                cur = rs[0][1]
                cond = self.exc_match(cls_t, rs[0][2])
            arms = self.branch(cur, cond)
            cur = None
            for b, s in arms:
                if b:
                    prev = s.cur_exc
                    s.cur_exc = e
                    if h.name:
                        self.store_name(h.name, e, s)
                    s.notes.append(f"except@{h.lineno}")
                    for o in self.exec_block(h.body, s):
                        o[1].cur_exc = prev
                        if h.name and h.name in o[1].frame.vars:
                            o[1].frame.vars[h.name] = None
                        out.append(o)
                else:
                    cur = s
        if cur is not None:
            out.append(("exc", cur, e))
        return out

    def exc_match(self, cls_t, spec):
        if isinstance(spec, VTuple):
            return z3.Or([self.exc_match(cls_t, x) for x in spec.items])
        if isinstance(spec, VClass) and spec.exc_id is not None:
            return self.schema.exc_isinstance(cls_t, spec.name)
        raise EngineError(f"except clause with {spec!r}")

    # ------------------------------------------------------------------
    # loops
    def loop_ordinal(self, node, st):
        key = st.frame.func
        mi, fnode = self._func_node(key)
        if fnode is None:
            return key, None
        loops = loops_of(fnode)
        for i, l in enumerate(loops):
            if l is node:
                return key, i
        return key, None

    def _func_node(self, key):
        try:
            return self.repo.func(key)
        except EngineError:
            return None, None

    def st_While(self, node, st):
        key, idx = self.loop_ordinal(node, st)
        inv = self.schema.invariants.get((key, idx))
        if inv is None:
            raise EngineError(f"loop {idx} of {key} (line {node.lineno}) has no invariant")
        return self.run_loop(node, st, inv, "while", None)

    def st_For(self, node, st):
        outs = []
        for r in self.ev(node.iter, st):
            if r[0] == "exc":
                outs.append(r)
                continue
            it, s = r[2], r[1]
            if isinstance(it, VRef) and isinstance(it.T, ty.Map):
                it = self.map_view(it, "keys", s)
            if isinstance(it, (VTuple, VLoc)):
                outs += self.unroll_for(node, self.concrete_items(it, s), s)
                continue
            if isinstance(it, VFn) and it.kind == "range":
                cs = [self._const_int(x) for x in it.extra]
                if all(c is not None for c in cs) and len(range(*cs)) <= 8:
                    outs += self.unroll_for(node, [VInt(i) for i in range(*cs)], s)
                    continue
            key, idx = self.loop_ordinal(node, s)
            inv = self.schema.invariants.get((key, idx))
            if inv is None:
                raise EngineError(f"for-loop {idx} of {key} (line {node.lineno}) over {it!r} has no invariant")
            outs += self.run_loop(node, s, inv, "for", it)
        return outs

    def unroll_for(self, node, items, st):
        """Concrete number of iterations: exact, not a bound."""
        outs = []
        cur = [st]
        broke = []
        for it in items:
            nxt = []
            for s in cur:
                for a in self.assign_target(node.target, it, s):
                    if a[0] != "next":
                        outs.append(a)
                        continue
                    for o in self.exec_block(node.body, a[1]):
                        if o[0] in ("next", "cont"):
                            nxt.append(o[1])
                        elif o[0] == "brk":
                            broke.append(o[1])
                        else:
                            outs.append(o)
            cur = nxt
        for s in cur:
            outs += self.exec_block(node.orelse, s) if node.orelse else [("next", s, None)]
        for s in broke:
            outs.append(("next", s, None))
        return outs

    def check_header(self, node, inv, st):
        mi = self.repo.module(st.frame.module)
        seg = mi.lines[node.lineno - 1].strip()
        want = inv.header.strip()
        if want and not seg.startswith(want.split("\n")[0].strip()):
            first = ast.unparse(node).split("\n")[0].strip()
            if not first.startswith(want.split("\n")[0].strip()):
                raise EngineError(
                    f"invariant anchor moved: loop {inv.loop} of {inv.key} is "
                    f"{seg!r}, the sidecar expects {want!r}")

    def run_loop(self, node, st, inv, kind, iterable):
        """Cut the loop at its invariant: establish / preserve / use."""
        self.check_header(node, inv, st)
        key = inv.key
        short = key.split(":")[-1]
        base = f"{key}:loop{inv.loop}"
        ctl = self.ctl
        # ---- establish
        idx_name = f"__i{inv.loop}"
        seen_name = f"__seen{inv.loop}"
        if kind == "for":
            self.loop_init_ghost(st, iterable, idx_name, seen_name)
        entry = st.clone()
        for label, expr, prop in inv.invs:
            g = self.spec_eval(expr, st, {}, old=ctl.old if ctl else None, entry=entry)
            self.prove(st, g, f"{base}/establish/{label}", prop=self.prop_of(prop), kind="loop")
        # ---- havoc what the body may change: the write set is discovered by
        # running the iteration; a run is kept only if it wrote nothing that
        # had not been havocked (otherwise it is redone with the larger set)
        body_stmts = list(node.body)
        targets = assigned_names(body_stmts)
        if kind == "for":
            targets |= {n.id for n in ast.walk(node.target) if isinstance(n, ast.Name)}
        written = {"heap": {}, "ghost": set(), "globs": set(), "tags": set(), "locs": set()}
        from .values import counter_value
        for attempt in range(8):
            saved_results = self.results
            self.results = []
            self.defer_depth = getattr(self, "defer_depth", 0) + 1
            loop_counter0 = counter_value()
            loop_alloc0 = st.alloc
            hav = st.clone()
            self.apply_havoc(hav, written, targets - set(inv.locals_), entry)
            if kind == "for":
                self.loop_havoc_ghost(hav, iterable, idx_name, seen_name)
            hav.log_opaque |= written["tags"]
            hav.log.append(Event(f"loop:{short}#{inv.loop}", []))
            havs = [hav]
            for lname, LT in inv.locals_.items():
                nxt = []
                for h in havs:
                    for h2, v in self.fresh_of_type(h, LT, f"hv_{lname}"):
                        h2.frame.vars[lname] = v
                        nxt.append(h2)
                havs = nxt
            outs = []
            grew = False
            for hav in havs:
                for label, expr, prop in inv.invs:
                    hav.assume(self.spec_eval(expr, hav, {}, old=ctl.old if ctl else None, entry=entry, mode="hyp"))
                if not self.feasible(hav):
                    continue
                snap = (dict(hav.heap), dict(hav.ghost), dict(hav.globs),
                        {k: len(o.data) for k, o in hav.objs.items()}, len(hav.log))
                finals = []
                outs += self.run_loop_from(node, hav, inv, kind, iterable, idx_name, seen_name, entry, base, finals)
                self._loop_counter0, self._loop_alloc0 = loop_counter0, loop_alloc0
                if self.observe_writes(finals, snap, written):
                    grew = True
            self.defer_depth -= 1
            if not grew:
                kept = self.results
                self.results = saved_results
                if self.defer_depth == 0:
                    kept = self.discharge_deferred(kept)
                self.results.extend(kept)
                if written["locs"]:
                    raise EngineError(f"loop {inv.loop} of {inv.key} grows a concrete list; declare it as a heap list")
                return outs
            self.results = saved_results
        raise EngineError(f"loop {inv.loop} of {inv.key}: write set did not stabilise")

    def observe_writes(self, finals, snap, written):
        base_heap, base_ghost, base_globs, base_objs, nlog = snap
        grew = False
        from .state import initial_array
        for s2 in finals:
            for k, arrs in s2.heap.items():
                if k[0] == "<obj>":
                    continue
                b = base_heap.get(k)
                if b is None:
                    b = tuple(initial_array(k[0], k[1], i_, a_.sort().range()) for i_, a_ in enumerate(arrs))
                if all(x.eq(y) for x, y in zip(arrs, b)):
                    continue
                w = written["heap"].setdefault(k, {"addrs": [], "fresh": False, "whole": False})
                if w["whole"]:
                    continue
                for x, y in zip(arrs, b):
                    addrs = self._store_addrs(x, y)
                    if addrs is None:
                        w["whole"] = True
                        grew = True
                        break
                    for a_ in addrs:
                        if self._stable_term(a_):
                            if not any(a_.eq(o_) for o_ in w["addrs"]):
                                w["addrs"].append(a_)
                                grew = True
                        elif solve_entails(s2.pc, a_ >= self._loop_alloc0):
                            if not w["fresh"]:
                                w["fresh"] = True
                                grew = True
                        else:
                            w["whole"] = True
                            grew = True
                            break
            for k, t in s2.ghost.items():
                if k in written["ghost"]:
                    continue
                b = base_ghost.get(k)
                if b is None:
                    b = z3.Const(f"G0!{k}", self.schema.ghosts[k].sort)
                if not t.eq(b):
                    written["ghost"].add(k)
                    grew = True
            for k, v in s2.globs.items():
                if k in written["globs"]:
                    continue
                b = base_globs.get(k)
                if b is not None and b is not v and not self._same_value(b, v):
                    written["globs"].add(k)
                    grew = True
            for k, o2 in s2.objs.items():
                b = base_objs.get(k)
                if b is not None and b != len(o2.data) and k not in written["locs"]:
                    written["locs"].add(k)
                    grew = True
            for ev in s2.log[nlog:]:
                if ev.tag not in written["tags"]:
                    written["tags"].add(ev.tag)
                    grew = True
        return grew

    def _store_addrs(self, arr, base):
        """Addresses of the Store chain from `base` up to `arr` (None when
        `arr` is not such a chain)."""
        out = []
        cur = arr
        for _ in range(200):
            if cur.eq(base):
                return out
            if z3.is_app(cur) and cur.decl().kind() == z3.Z3_OP_STORE:
                out.append(cur.arg(1))
                cur = cur.arg(0)
                continue
            if z3.is_app(cur) and cur.decl().kind() == z3.Z3_OP_ITE:
                # a join of two paths: the union of what either side stored
                a = self._store_addrs(cur.arg(1), base)
                b = self._store_addrs(cur.arg(2), base)
                if a is None or b is None:
                    return None
                return out + a + b
            return None
        return None

    def _stable_term(self, t):
        """No symbol of the term was created during this loop attempt."""
        todo = [t]
        seen = set()
        while todo:
            e = todo.pop()
            if e.get_id() in seen:
                continue
            seen.add(e.get_id())
            if z3.is_const(e) and e.decl().kind() == z3.Z3_OP_UNINTERPRETED:
                nm = e.decl().name()
                if "!" in nm:
                    tail_ = nm.rsplit("!", 1)[1]
                    if tail_.isdigit() and int(tail_) > self._loop_counter0:
                        return False
            todo.extend(e.children())
        return True

    def _same_value(self, a, b):
        ta = getattr(a, "t", None)
        tb = getattr(b, "t", None)
        if ta is not None and tb is not None and type(a) is type(b):
            return ta.eq(tb)
        return isinstance(a, VNone) and isinstance(b, VNone)

    def run_loop_from(self, node, hav, inv, kind, iterable, idx_name, seen_name, entry, base, finals):
        ctl = self.ctl
        body_stmts = list(node.body)
        outs = []
        # ---- one arbitrary iteration
        it_state = hav.clone()
        it_state.notes.append(f"loop{inv.loop}:iter")
        exit_state = hav
        exit_state.notes.append(f"loop{inv.loop}:exit")
        if kind == "while":
            conds = self.ev(node.test, it_state)
            iter_starts = []
            for r in conds:
                if r[0] == "exc":
                    outs.append(r)
                    continue
                for b, s in self.branch(r[1], self.truth(r[2], r[1])):
                    if b:
                        iter_starts.append(s)
            # exit: condition false
            exits = []
            if not (isinstance(node.test, ast.Constant) and node.test.value is True):
                for r in self.ev(node.test, exit_state):
                    if r[0] == "exc":
                        continue       # already reported from the iteration copy
                    for b, s in self.branch(r[1], self.truth(r[2], r[1])):
                        if not b:
                            exits.append(s)
            # progress relative to the environment's declared eventual guarantee
            for label, env_expr, hpaths, prop, tag in getattr(inv, "exits_", []):
                s0 = hav.clone()
                s0.notes.append(f"loop{inv.loop}:after-the-other-threads-ran")
                self._havoc_mod = None
                for hp in hpaths:
                    self.havoc_path(hp, s0, {})
                s0.assume(self.spec_eval(env_expr, s0, {}, old=ctl.old if ctl else None, entry=entry, mode="hyp"))
                if tag:
                    self.assumptions_used.add(tag) if hasattr(self, "assumptions_used") else None
                for r in self.ev(node.test, s0):
                    if r[0] == "exc":
                        continue
                    self.prove(r[1], z3.Not(self.truth(r[2], r[1])), f"{base}/exits-under/{label}", prop=self.prop_of(prop), kind="progress")
        else:
            iter_starts = []
            for s, item in self.loop_next(it_state, iterable, idx_name, seen_name):
                for a in self.assign_target(node.target, item, s):
                    if a[0] == "next":
                        iter_starts.append(a[1])
                    else:
                        outs.append(a)
            exits = self.loop_done(exit_state, iterable, idx_name, seen_name)
        variant0 = None
        for s in iter_starts:
            iter_log_start = len(s.log)
            iter0 = s.clone()
            if inv.decreases:
                variant0 = self.spec_value(inv.decreases, s, {}, old=ctl.old if ctl else None, entry=entry)
            for o in self.exec_block(body_stmts, s):
                k, s2, v = o
                finals.append(s2)
                if k in ("next", "cont"):
                    if kind == "for":
                        self.loop_advance(s2, iterable, idx_name, seen_name)
                    for label, expr, prop in inv.invs:
                        g = self.spec_eval(expr, s2, {}, old=ctl.old if ctl else None, entry=entry)
                        self.prove(s2, g, f"{base}/preserve/{label}", prop=self.prop_of(prop), kind="loop")
                    for label, expr, prop in inv.iter_posts:
                        saved_start = getattr(self.ctl, "log_start", 0)
                        self.ctl.log_start = iter_log_start
                        self.ctl.iter = iter0
                        try:
                            g = self.spec_eval(expr, s2, {}, old=ctl.old if ctl else None, entry=entry)
                        finally:
                            self.ctl.log_start = saved_start
                        self.prove(s2, g, f"{base}/iteration/{label}", prop=self.prop_of(prop), kind="loop")
                    if inv.decreases:
                        v1 = self.spec_value(inv.decreases, s2, {}, old=ctl.old if ctl else None, entry=entry)
                        g = self.variant_decreases(variant0, v1)
                        self.prove(s2, g, f"{base}/decreases", prop=self.prop_of(None), kind="loop")
                elif k == "brk":
                    for label, expr, prop in getattr(inv, "on_breaks", []):
                        saved_start = getattr(self.ctl, "log_start", 0)
                        self.ctl.log_start = iter_log_start
                        self.ctl.iter = iter0
                        try:
                            g = self.spec_eval(expr, s2, {}, old=ctl.old if ctl else None, entry=entry)
                        finally:
                            self.ctl.log_start = saved_start
                        self.prove(s2, g, f"{base}/on-break/{label}", prop=self.prop_of(prop), kind="loop")
                    outs.append(("next", s2, None))
                else:
                    outs.append(o)
        for s in exits:
            if node.orelse:
                outs += self.exec_block(node.orelse, s)
            else:
                outs.append(("next", s, None))
        return outs

    def variant_decreases(self, v0, v1):
        def lex(a, b):
            if isinstance(a, VTuple):
                acc = z3.BoolVal(False)
                for x, y in reversed(list(zip(a.items, b.items))):
                    xi, yi = self._num(x), self._num(y)
                    acc = z3.Or(z3.And(yi < xi, xi >= 0), z3.And(yi == xi, acc))
                return acc
            xi, yi = self._num(a), self._num(b)
            return z3.And(yi < xi, xi >= 0)
        return lex(v0, v1)

    def _num(self, v):
        if isinstance(v, VReal):
            return v.t
        return self._int(v)

    def apply_havoc(self, st, written, targets, entry):
        for k, w in written["heap"].items():
            arrs = st.heap.get(k)
            if arrs is None:
                from .state import initial_array
                continue
            if w["whole"]:
                st.heap[k] = tuple(fresh_const(f"hv_{k[0]}.{k[1]}", a.sort()) for a in arrs)
                continue
            new = []
            for a in arrs:
                cur = a
                if w["fresh"]:
                    fr = fresh_const(f"hv_{k[0]}.{k[1]}", a.sort())
                    x = z3.Const(fresh_name("ha"), ty.IntS)
                    cur = z3.Lambda([x], z3.If(x >= st.alloc, z3.Select(fr, x), z3.Select(a, x)))
                for ad in w["addrs"]:
                    cur = z3.Store(cur, ad, fresh_const(f"hv_{k[0]}.{k[1]}@", a.sort().range()))
                new.append(cur)
            st.heap[k] = tuple(new)
        for k in written["ghost"]:
            d = self.schema.ghosts[k]
            st.ghost[k] = fresh_const(f"hvG_{k}", d.sort)
        for k in written["globs"]:
            d = self.schema.globs[k]
            if isinstance(d.T, ty.Union):
                raise EngineError(f"loop writes union-typed global {k}")
            st.globs[k] = fresh_value(d.T, f"hvglob_{k[1]}")
        nxt = fresh_const("alloc", ty.IntS)
        st.assume(nxt >= st.alloc)
        st.alloc = nxt
        f = st.frame
        for n in targets:
            if n in f.vars and f.vars[n] is not None:
                f.vars[n] = self.havoc_like(f.vars[n], n, st)
            elif n in f.globals_decl:
                pass

    def havoc_like(self, v, name, st):
        if isinstance(v, VInt):
            return VInt(fresh_const(f"hv_{name}", ty.IntS))
        if isinstance(v, VBool):
            return VBool(fresh_const(f"hv_{name}", ty.BoolS))
        if isinstance(v, VReal):
            return VReal(fresh_const(f"hv_{name}", ty.RealS))
        if isinstance(v, VStr):
            return VStr(fresh_const(f"hv_{name}", ty.StrS), v.is_bytes)
        if isinstance(v, VRef):
            t = fresh_const(f"hv_{name}", ty.IntS)
            st.assume(z3.And(t >= 0, t < st.alloc))
            return VRef(t, v.cls, v.T)
        if isinstance(v, VObj):
            return VObj(fresh_const(f"hv_{name}", ty.IntS))
        if isinstance(v, VTuple):
            return VTuple([self.havoc_like(x, name, st) for x in v.items])
        if isinstance(v, VSeq):
            return VSeq(fresh_const(f"hv_{name}", v.t.sort()), v.elem)
        if isinstance(v, VNone):
            return VObj(fresh_const(f"hv_{name}", ty.IntS))
        if isinstance(v, (VFn, VClass, VModule, VConst)):
            return v
        if isinstance(v, VLoc):
            return v
        if isinstance(v, VAbs):
            return VAbs(fresh_const(f"hv_{name}", v.mem.sort()), fresh_const(f"hv_{name}_len", ty.IntS), v.elem)
        raise EngineError(f"cannot havoc local {name} = {v!r}")

    # ---- iteration protocol for `for` loops over symbolic collections
    def loop_init_ghost(self, st, it, idx_name, seen_name):
        st.frame.vars[idx_name] = VInt(0)
        if isinstance(it, VAbs):
            st.frame.vars[seen_name] = VAbs(z3.K(it.mem.sort().domain(), z3.BoolVal(False)), z3.IntVal(0), it.elem)

    def loop_havoc_ghost(self, st, it, idx_name, seen_name):
        i = fresh_const("loop_i", ty.IntS)
        st.frame.vars[idx_name] = VInt(i)
        n = self.iter_len(it, st)
        st.assume(z3.And(i >= 0, i <= n))
        if isinstance(it, VAbs):
            seen = fresh_const("loop_seen", it.mem.sort())
            st.frame.vars[seen_name] = VAbs(seen, i, it.elem)
            st.qhyps.append(__import__("pyvc.state", fromlist=["QHyp"]).QHyp(
                it.mem.sort().domain(), lambda k, seen=seen, mem=it.mem: z3.Implies(z3.Select(seen, k), z3.Select(mem, k)), "seen-subset"))

    def iter_len(self, it, st):
        if isinstance(it, VAbs):
            return it.length
        if isinstance(it, VSeq):
            return z3.Length(it.t)
        if isinstance(it, VFn) and it.kind == "range":
            ex = it.extra
            lo = ex[0].t if len(ex) > 1 else z3.IntVal(0)
            hi = ex[1].t if len(ex) > 1 else ex[0].t
            return z3.If(hi > lo, hi - lo, z3.IntVal(0))
        if isinstance(it, VRef) and isinstance(it.T, ty.Map):
            return st.map_len(it)
        if isinstance(it, VRef) and isinstance(it.T, ty.Lst):
            return z3.Length(st.lst_get(it))
        if isinstance(it, VObj):
            f = z3.Function("obj_len", ty.IntS, ty.IntS)
            st.assume(f(it.t) >= 0)
            return f(it.t)
        raise EngineError(f"iteration over {it!r}")

    def loop_next(self, st, it, idx_name, seen_name):
        """States (and the item) at the start of an arbitrary iteration."""
        i = st.frame.vars[idx_name].t
        n = self.iter_len(it, st)
        if not self.feasible(st, i < n):
            return []
        st.assume(i < n)
        if isinstance(it, VAbs):
            x = fresh_const("item", it.mem.sort().domain())
            seen = st.frame.vars[seen_name]
            st.assume(z3.Select(it.mem, x))
            if it.src and it.src[0] in ("keys", "items"):
                # the keys of a dict are pairwise distinct: each is visited once
                st.assume(z3.Not(z3.Select(seen.mem, x)))
            item = self._abs_item(it, x, st)
            if not isinstance(it.elem, ty.Tup):
                st._typing(item, it.elem)
            st.frame.vars["__item"] = item
            return [(st, item)]
        if isinstance(it, VSeq):
            return [(st, unflatten(it.elem, (it.t[i],)))]
        if isinstance(it, VFn) and it.kind == "range":
            ex = it.extra
            lo = ex[0].t if len(ex) > 1 else z3.IntVal(0)
            return [(st, VInt(lo + i))]
        if isinstance(it, VRef) and isinstance(it.T, ty.Map):
            k = fresh_const("key", it.T.key.comps[0])
            st.assume(st.map_has(it, k))
            return [(st, unflatten(it.T.key, (k,)))]
        if isinstance(it, VObj):
            self.abstractions.add("iteration over an opaque iterable: an unknown number of opaque items")
            return [(st, VObj(fresh_const("item", ty.IntS)))]
        raise EngineError(f"iteration over {it!r}")

    def _abs_item(self, it, x, st):
        if isinstance(it.elem, ty.Tup) and it.src and it.src[0] == "items":
            _, m, dom, varr = it.src
            kv = unflatten(it.elem.items[0], (x,))
            vv = unflatten(it.elem.items[1], (z3.Select(varr, x),))
            st._typing(vv, it.elem.items[1])
            return VTuple([kv, vv])
        return unflatten(it.elem, (x,))

    def loop_advance(self, st, it, idx_name, seen_name):
        i = st.frame.vars[idx_name].t
        st.frame.vars[idx_name] = VInt(i + 1)
        if isinstance(it, VAbs) and "__item" in st.frame.vars:
            seen = st.frame.vars[seen_name]
            item = st.frame.vars["__item"]
            x = flatten(item, it.elem)[0] if not isinstance(it.elem, ty.Tup) else flatten(item.items[0] if isinstance(item, VTuple) else item, it.elem.items[0])[0]
            st.frame.vars[seen_name] = VAbs(z3.Store(seen.mem, x, z3.BoolVal(True)), i + 1, it.elem)

    def loop_done(self, st, it, idx_name, seen_name):
        i = st.frame.vars[idx_name].t
        n = self.iter_len(it, st)
        if not self.feasible(st, i == n):
            return []
        st.assume(i == n)
        if isinstance(it, VAbs):
            seen = st.frame.vars[seen_name]
            from .state import QHyp
            # distinct elements: after len iterations everything was seen
            if not (it.src and it.src[0] == "nodistinct"):
                st.qhyps.append(QHyp(it.mem.sort().domain(), lambda k, seen=seen.mem, mem=it.mem:
                                     z3.Implies(z3.Select(mem, k), z3.Select(seen, k)), "seen-all"))
        return [st]
