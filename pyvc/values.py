"""Symbolic values (kinded on the Python side) and their flat encoding."""
import itertools
import z3
from . import types as ty

class _Counter:
    def __init__(self):
        self.n = 0

    def __next__(self):
        self.n += 1
        return self.n


_counter = _Counter()


def counter_value():
    return _counter.n


def fresh_name(prefix):
    return f"{prefix}!{next(_counter)}"


def fresh_const(prefix, sort):
    return z3.Const(fresh_name(prefix), sort)


class EngineError(Exception):
    """Unsupported construct / unresolved name: never a violation."""


class V:
    pass


class VInt(V):
    def __init__(self, t):
        self.t = z3.IntVal(t) if isinstance(t, int) else t

    def __repr__(self):
        return f"VInt({self.t})"


class VBool(V):
    def __init__(self, t):
        self.t = z3.BoolVal(t) if isinstance(t, bool) else t

    def __repr__(self):
        return f"VBool({self.t})"


class VReal(V):
    def __init__(self, t):
        if isinstance(t, (int, float)):
            t = z3.RealVal(repr(t) if isinstance(t, float) else t)
        self.t = t

    def __repr__(self):
        return f"VReal({self.t})"


class VStr(V):
    def __init__(self, t, is_bytes=False):
        self.t = z3.StringVal(t) if isinstance(t, str) else t
        self.is_bytes = is_bytes

    def __repr__(self):
        return f"VStr({self.t})"


class VNone(V):
    def __repr__(self):
        return "VNone"


NONE = VNone()


class VRef(V):
    """Reference to a heap object; `T` is the schema type when it is a
    container (Map / Lst)."""

    def __init__(self, t, cls, T=None):
        self.t = z3.IntVal(t) if isinstance(t, int) else t
        self.cls = cls
        self.T = T

    def __repr__(self):
        return f"VRef({self.t}:{self.cls})"


class VObj(V):
    def __init__(self, t):
        self.t = t

    def __repr__(self):
        return f"VObj({self.t})"


class VOpt(V):
    """Only alive in spec mode (in exec mode optionals are split eagerly)."""

    def __init__(self, isnone, inner):
        self.isnone = isnone
        self.inner = inner

    def __repr__(self):
        return f"VOpt({self.isnone},{self.inner})"


class VTuple(V):
    def __init__(self, items):
        self.items = list(items)

    def __repr__(self):
        return f"VTuple({self.items})"


class VLoc(V):
    """Python-side container allocated in the function (list/dict/set with a
    concrete shape); state.objs[oid] holds the content."""

    def __init__(self, oid, kind):
        self.oid = oid
        self.kind = kind

    def __repr__(self):
        return f"VLoc({self.kind}#{self.oid})"


class VSeq(V):
    def __init__(self, t, elem):
        self.t = t
        self.elem = elem

    def __repr__(self):
        return f"VSeq({self.t})"


class VAbs(V):
    """Abstract finite collection of unknown size (snapshot list, view):
    membership array, length, element type."""

    def __init__(self, mem, length, elem, src=None):
        self.mem = mem
        self.length = length
        self.elem = elem
        self.src = src

    def __repr__(self):
        return f"VAbs(len={self.length})"


class VFn(V):
    """Callable value.
    kind: 'func' (module function, qual name), 'bound' (method bound to
    self), 'ext' (trusted external by dotted name), 'closure' (nested def /
    lambda with captured frame), 'opaque' (user callable id), 'builtin',
    'class' (constructor), 'partial'."""

    def __init__(self, kind, name=None, self_=None, node=None, frame=None,
                 module=None, t=None, extra=None):
        self.kind = kind
        self.name = name
        self.self_ = self_
        self.node = node
        self.frame = frame
        self.module = module
        self.t = t
        self.extra = extra

    def __repr__(self):
        return f"VFn({self.kind}:{self.name})"


class VClass(V):
    def __init__(self, name, exc_id=None, module=None, node=None):
        self.name = name
        self.exc_id = exc_id
        self.module = module
        self.node = node

    def __repr__(self):
        return f"VClass({self.name})"


class VModule(V):
    def __init__(self, name):
        self.name = name

    def __repr__(self):
        return f"VModule({self.name})"


class VConst(V):
    """A Python constant the engine only passes around (e.g. signal
    numbers, sentinel objects)."""

    def __init__(self, name):
        self.name = name

    def __repr__(self):
        return f"VConst({self.name})"


# --------------------------------------------------------------------------
# boxing of scalars into the opaque object id space

_boxI = z3.Function("box_int", ty.IntS, ty.IntS)
_boxS = z3.Function("box_str", ty.StrS, ty.IntS)
_boxB = z3.Function("box_bool", ty.BoolS, ty.IntS)
_boxR = z3.Function("box_real", ty.RealS, ty.IntS)
_const_ids = {}


def const_id(name):
    """Distinct negative ids for named constants / classes / functions."""
    if name not in _const_ids:
        _const_ids[name] = -(len(_const_ids) + 2)
    return _const_ids[name]


def to_obj_term(v):
    """Integer id of any value when stored in an Obj slot."""
    if isinstance(v, (VRef, VObj)):
        return v.t
    if isinstance(v, VNone):
        return z3.IntVal(0)
    # boxed scalars are odd numbers: never the id 0 of None
    if isinstance(v, VInt):
        return 2 * _boxI(v.t) + 1
    if isinstance(v, VStr):
        return 2 * _boxS(v.t) + 1
    if isinstance(v, VBool):
        return 2 * _boxB(v.t) + 1
    if isinstance(v, VReal):
        return 2 * _boxR(v.t) + 1
    if isinstance(v, VFn):
        if v.t is not None:
            return v.t
        return z3.IntVal(const_id(f"fn:{v.kind}:{v.name}"))
    if isinstance(v, VClass):
        return z3.IntVal(const_id(f"class:{v.name}"))
    if isinstance(v, VConst):
        return z3.IntVal(const_id(f"const:{v.name}"))
    if isinstance(v, VModule):
        return z3.IntVal(const_id(f"module:{v.name}"))
    if isinstance(v, VTuple):
        # tuples are boxed structurally through an uninterpreted pairing
        acc = z3.IntVal(const_id("tuple:nil"))
        for it in reversed(v.items):
            acc = 2 * _pair(to_obj_term(it), acc) + 1
        return acc
    if isinstance(v, VOpt):
        return z3.If(v.isnone, z3.IntVal(0), to_obj_term(v.inner))
    if isinstance(v, VLoc):
        return z3.IntVal(const_id(f"loc:{v.oid}"))
    if isinstance(v, VSeq):
        f = z3.Function(f"box_seq_{v.t.sort().name()}", v.t.sort(), ty.IntS)
        return f(v.t)
    if isinstance(v, VAbs):
        return z3.IntVal(const_id(f"abs:{id(v)}"))
    raise EngineError(f"cannot box {v!r}")


_pair = z3.Function("box_pair", ty.IntS, ty.IntS, ty.IntS)


def flatten(v, T):
    """Value -> tuple of z3 terms for schema type T."""
    if isinstance(T, ty._Int):
        if isinstance(v, VBool):
            return (z3.If(v.t, z3.IntVal(1), z3.IntVal(0)),)
        if isinstance(v, VObj):
            # an opaque object used where an integer is expected (e.g. a descriptor read from a dictionary)
            return (z3.Function("unbox_int", ty.IntS, ty.IntS)(v.t),)
        if not isinstance(v, VInt):
            raise EngineError(f"expected int, got {v!r}")
        return (v.t,)
    if isinstance(T, ty._Bool):
        if not isinstance(v, VBool):
            raise EngineError(f"expected bool, got {v!r}")
        return (v.t,)
    if isinstance(T, ty._Real):
        if isinstance(v, VInt):
            return (z3.ToReal(v.t),)
        if not isinstance(v, VReal):
            raise EngineError(f"expected real, got {v!r}")
        return (v.t,)
    if isinstance(T, ty._Str):
        if not isinstance(v, VStr):
            raise EngineError(f"expected str, got {v!r}")
        return (v.t,)
    if isinstance(T, (ty._Obj, ty.Fn)):
        return (to_obj_term(v),)
    if isinstance(T, (ty.Ref, ty.Map, ty.Lst, ty.Exc)):
        if isinstance(v, VNone):
            return (z3.IntVal(0),)
        if isinstance(v, (VRef, VObj)):
            return (v.t,)
        if isinstance(v, VOpt):
            return (z3.If(v.isnone, z3.IntVal(0), flatten(v.inner, T)[0]),)
        raise EngineError(f"expected reference {T}, got {v!r}")
    if isinstance(T, ty.Opt):
        if isinstance(v, VNone):
            return (z3.BoolVal(True),) + tuple(
                fresh_const("dc", s) for s in T.inner.comps)
        if isinstance(v, VOpt):
            return (v.isnone,) + flatten(v.inner, T.inner)
        return (z3.BoolVal(False),) + flatten(v, T.inner)
    if isinstance(T, ty.Tup):
        if not isinstance(v, VTuple) or len(v.items) != len(T.items):
            raise EngineError(f"expected tuple {T}, got {v!r}")
        out = ()
        for it, Ti in zip(v.items, T.items):
            out += flatten(it, Ti)
        return out
    if isinstance(T, ty.Seq):
        if not isinstance(v, VSeq):
            raise EngineError(f"expected seq, got {v!r}")
        return (v.t,)
    if isinstance(T, ty._NoneT):
        return ()
    raise EngineError(f"cannot flatten to {T}")


def unflatten(T, terms, spec=False):
    """Tuple of z3 terms -> value.  Optionals become VOpt (the executor
    splits them)."""
    terms = tuple(terms)
    if isinstance(T, ty._Int):
        return VInt(terms[0])
    if isinstance(T, ty._Bool):
        return VBool(terms[0])
    if isinstance(T, ty._Real):
        return VReal(terms[0])
    if isinstance(T, ty._Str):
        return VStr(terms[0])
    if isinstance(T, ty._Obj):
        return VObj(terms[0])
    if isinstance(T, ty.Fn):
        return VFn("opaque", t=terms[0])
    if isinstance(T, ty.Ref):
        return VRef(terms[0], T.cls)
    if isinstance(T, (ty.Map, ty.Lst)):
        return VRef(terms[0], T.cls, T)
    if isinstance(T, ty.Exc):
        return VRef(terms[0], "<exc>")
    if isinstance(T, ty.Opt):
        return VOpt(terms[0], unflatten(T.inner, terms[1:], spec))
    if isinstance(T, ty.Tup):
        items = []
        i = 0
        for Ti in T.items:
            n = len(Ti.comps)
            items.append(unflatten(Ti, terms[i:i + n], spec))
            i += n
        return VTuple(items)
    if isinstance(T, ty.Seq):
        return VSeq(terms[0], T.elem)
    if isinstance(T, ty._NoneT):
        return NONE
    raise EngineError(f"cannot unflatten {T}")


def fresh_value(T, prefix="v"):
    return unflatten(T, tuple(fresh_const(prefix, s) for s in T.comps))


def is_nullable(T):
    return getattr(T, "nullable", False)
