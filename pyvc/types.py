"""Type language of the sidecar schema and the flat z3 encoding of values.

Every schema type maps to a tuple of z3 sorts ("components"); a symbolic
value (class V and subclasses) can be flattened to / rebuilt from a tuple of
z3 terms of those sorts.  This is what heap fields, map values, ghost maps
and results of contracts are stored as.
"""
import z3

IntS = z3.IntSort()
BoolS = z3.BoolSort()
RealS = z3.RealSort()
StrS = z3.StringSort()


class T:
    """Base class of schema types."""
    comps = ()

    def __repr__(self):
        return self.__class__.__name__


class _Int(T):
    comps = (IntS,)


class _Bool(T):
    comps = (BoolS,)


class _Real(T):
    comps = (RealS,)


class _Str(T):
    comps = (StrS,)


class _Obj(T):
    """An arbitrary Python object that is only passed around (id 0 = None)."""
    comps = (IntS,)


class _NoneT(T):
    comps = ()


Int = _Int()
Bool = _Bool()
Real = _Real()
Str = _Str()
Bytes = _Str()
Obj = _Obj()
NoneT = _NoneT()


class Ref(T):
    """Reference to a heap object of a schema class (address 0 = None)."""
    comps = (IntS,)

    def __init__(self, cls, nullable=False):
        self.cls = cls
        self.nullable = nullable

    def __repr__(self):
        return f"Ref({self.cls}{'?' if self.nullable else ''})"


class Opt(T):
    def __init__(self, inner):
        self.inner = inner
        self.comps = (BoolS,) + tuple(inner.comps)

    def __repr__(self):
        return f"Opt({self.inner})"


class Tup(T):
    def __init__(self, *items):
        self.items = items
        self.comps = tuple(s for it in items for s in it.comps)

    def __repr__(self):
        return f"Tup{self.items}"


class Map(T):
    """A Python dict living on the heap (reference semantics)."""
    comps = (IntS,)

    def __init__(self, key, val, nullable=False):
        self.key = key
        self.val = val
        self.nullable = nullable
        assert len(key.comps) == 1, "map keys are single-component"

    @property
    def cls(self):
        return f"dict[{self.key!r},{self.val!r}]"

    def __repr__(self):
        return f"Map({self.key},{self.val})"


class Lst(T):
    """A Python list living on the heap, content is a z3 sequence."""
    comps = (IntS,)

    def __init__(self, elem, nullable=False):
        self.elem = elem
        self.nullable = nullable
        assert len(elem.comps) == 1

    @property
    def cls(self):
        return f"list[{self.elem!r}]"

    def __repr__(self):
        return f"Lst({self.elem})"


class Seq(T):
    """An immutable sequence value (tuple of unknown length)."""

    def __init__(self, elem):
        self.elem = elem
        assert len(elem.comps) == 1
        self.comps = (z3.SeqSort(elem.comps[0]),)

    def __repr__(self):
        return f"Seq({self.elem})"


class Union(T):
    """Only allowed for parameters / results: split eagerly into paths."""

    def __init__(self, *alts):
        self.alts = alts

    def __repr__(self):
        return f"Union{self.alts}"


class Exc(T):
    """Reference to an exception object (class id kept on the heap)."""
    comps = (IntS,)
    cls = "<exc>"

    def __init__(self, nullable=False, below=None):
        self.nullable = nullable
        self.below = below

    def __repr__(self):
        return "Exc"


class Fn(T):
    """An opaque callable (user code) identified by an integer id."""
    comps = (IntS,)
    nullable = True

    def __repr__(self):
        return "Fn"


FnT = Fn()
