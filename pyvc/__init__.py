"""pyvc: contract-based deductive verification of real Python sources.

VC generation by symbolic execution of the AST re-read from the repository
on every run, against sidecar contracts; discharge by z3 / cvc5.
"""
from .engine import Engine as _Base, VCResult
from .expr import ExprMixin
from .calls import CallMixin
from .stmt import StmtMixin
from .verify import SpecMixin, VerifyMixin
from .values import EngineError


class Engine(SpecMixin, VerifyMixin, StmtMixin, CallMixin, ExprMixin, _Base):
    def __init__(self, schema, repo):
        super().__init__(schema, repo)
        # exception classes defined by loky are derived from the source's own bases
        for name in list(schema.modules):
            try:
                mi = repo.module(name)
            except EngineError:
                continue
            for cname, node in mi.classes.items():
                if node.bases:
                    try:
                        self.class_value(mi, node)
                    except EngineError:
                        pass
